"""C08 -- try/catch tables are reported exactly.

Decided by symbolic interpretation of the repository source (nothing is executed):

(report/*) `determineException(vm, m)` is interpreted over a generic code item: T in {0,1,2,3} try items and
        1-2 encoded catch handlers whose `size` ranges over {-2,-1,0,1,2}; all field values are opaque
        atoms; offsets are labels and every assignment "try t points at handler h" (handler_off + list offset == handler offset) is
        enumerated (shared and distinct handler lists).  Every try must be reported exactly
        once as [2*start_addr, 2*start_addr + 2*insn_count - 1, [type(type_idx), 2*addr]... in list order,
        ["Ljava/lang/Throwable;", 2*catch_all_addr] last iff size <= 0]; no tries -> [].
(handler/*) `EncodedCatchHandler`: size is read with readsleb128, then exactly abs(size) EncodedTypeAddrPair,
        then a uleb128 catch-all address iff size <= 0; get_raw / get_length / show use the same guard
        (sibling agreement) and write signed size, the pairs in order, then the catch-all address.
        `EncodedCatchHandlerList`: uleb128 count, then that many handlers in order.
        `EncodedTypeAddrPair`: type_idx then addr, both uleb128.
(code-item/*) `DalvikCode.__init__`: header unpacked as 4H2I in the order of the DEX specification
        (registers, ins, outs, tries_size, debug_info_off, insns_size), 2*insns_size bytes of code, a 2-byte
        padding iff insns_size is odd AND tries_size > 0, then tries_size TryItem and, iff tries_size > 0,
        one EncodedCatchHandlerList after them.  `TryItem` unpacks I2H as (start_addr, insn_count, handler_off).
"""
from __future__ import annotations

# thorough tier: this module runs its own in-memory mutation adequacy (see _mutation_adequacy)
OWN_MUTATION_ADEQUACY = True

import ast
import itertools
import struct

from ..absint import Sym, Lin, Obj, Raised, PackerV, Split, explore, show
from ..bits import parse_format
from ..consts import Folder
from ..model import DEX, AnalysisError, norm
from .. import flowmodel as fm
from ..flowmodel import lin, lin_eq, pp
from ..symflow import SymInterp, CatV, key, mcall
from .c11 import Sink, adequacy, canary, rename_local, fresh

VM, M, CM, BUFF = Sym("vm"), Sym("m"), Sym("cm"), Sym("buff")
CODE = mcall(M, "get_code")
HL = mcall(CODE, "get_handlers")
LISTOFF = mcall(HL, "get_off")
THROWABLE = "Ljava/lang/Throwable;"


def TRY(t):
    return Sym("try", t)


def HC(h):
    return Sym("handler", h)


def PAIR(h, i):
    return Sym("pair", h, i)


def same(a, b):
    """structural equality of abstract results; numbers as linear forms"""
    if isinstance(a, (list, tuple)) and isinstance(b, (list, tuple)):
        return type(a) == type(b) and len(a) == len(b) and all(same(x, y) for x, y in zip(a, b))
    if isinstance(a, (list, tuple)) or isinstance(b, (list, tuple)):
        return False
    if isinstance(a, str) or isinstance(b, str):
        return a == b
    if Lin.of(a) is not None and Lin.of(b) is not None:
        return lin_eq(a, b)
    return a == b


# ---------------------------------------------------------------------------
# determineException
# ---------------------------------------------------------------------------
LIST_OFF_LABEL = 1000          # offsets are labels: list at 1000, handler h at 1001 + 16*h


def handler_label(h):
    return LIST_OFF_LABEL + 1 + 16 * h


def report_paths(repo, folder, de, T, sizes, assign):
    """assign[t] = index of the handler list try t points at (its handler_off is that handler's
    offset relative to the start of the encoded_catch_handler_list, as in the DEX format)"""
    H = len(sizes)

    def run(asg):
        def h_method(it, recv, name, args, kwargs, node, func):
            if recv == CODE and not args:
                if name == "get_tries_size":
                    return T
                if name == "get_tries":
                    return [TRY(t) for t in range(T)]
            if recv == HL and not args:
                if name == "get_list":
                    return [HC(h) for h in range(H)]
                if name == "get_size":
                    return H
                if name in ("get_off", "get_offset"):
                    return LIST_OFF_LABEL
            if isinstance(recv, Sym) and recv.op == "handler" and not args:
                h = recv.args[0]
                if name == "get_size":
                    return sizes[h]
                if name == "get_handlers":
                    return [PAIR(h, i) for i in range(abs(sizes[h]))]
                if name in ("get_off", "get_offset"):
                    return handler_label(h)
            if isinstance(recv, Sym) and recv.op == "try" and not args and name == "get_handler_off":
                return handler_label(assign[recv.args[0]]) - LIST_OFF_LABEL
            return NotImplemented

        it = SymInterp(repo, folder, asg=asg, hooks={"method": h_method, "inline": lambda f: f.cls is None and f.module is de.module})
        try:
            r = it.call_function(de, [VM, M])
        except Raised as ex:
            r = ex
        return r, {t: [assign[t]] for t in range(T)}

    return [res for _, res in explore(run, max_paths=4096)]


def expected_entry(t, h, size):
    s = mcall(TRY(t), "get_start_addr")
    c = mcall(TRY(t), "get_insn_count")
    z = [lin({s: 2}), lin({s: 2, c: 2}, -1)]
    for i in range(abs(size)):
        z.append([mcall(VM, "get_cm_type", mcall(PAIR(h, i), "get_type_idx")), lin({mcall(PAIR(h, i), "get_addr"): 2})])
    if size <= 0:
        z.append([THROWABLE, lin({mcall(HC(h), "get_catch_all_addr"): 2})])
    return z


def classify_entry(got, exp, size):
    """name the first component of a reported try entry that differs from the encoding"""
    if not isinstance(got, list) or len(got) < 2:
        return "shape"
    if not same(got[0], exp[0]):
        return "try-range/start"
    if not same(got[1], exp[1]):
        return "try-range/end"
    n = abs(size)
    typed_g = [x for x in got[2:] if not (isinstance(x, list) and x and x[0] == THROWABLE)]
    ca_g = [x for x in got[2:] if isinstance(x, list) and x and x[0] == THROWABLE]
    if not same(typed_g, exp[2:2 + n]):
        return "typed-handlers"
    if (size <= 0) != bool(ca_g):
        return "catch-all/guard"
    if ca_g and not same(ca_g[0], exp[-1]):
        return "catch-all/addr"
    if ca_g and got[-1] is not ca_g[0] and not same(got[-1], exp[-1]):
        return "catch-all/position"
    return "entry"


def check_report(sink, repo, folder, de, quick=False):
    scen = [(0, (1,), ())]
    scen += [(1, (s,), (0,)) for s in (-2, -1, 0, 1, 2)]
    for sizes in ((1, -1), (0, 2), (-2, 1)):
        scen += [(2, sizes, a) for a in ((0, 0), (0, 1), (1, 0), (1, 1))]
    scen += [(3, (2, 0), (1, 0, 1)), (1, (1, -1), (1,))]
    if quick:
        scen = [(1, (-1,), (0,)), (2, (1, -1), (0, 1))]
    for T, sizes, assign in scen:
        label = "tries=%d handler sizes=%s try->handler=%s" % (T, list(sizes), list(assign))
        results = report_paths(repo, folder, de, T, sizes, assign)
        sink.count("report_paths", len(results))
        seen = {}
        judged = 0
        for r, match in results:
            if any(len(hs) > 1 for hs in match.values()):
                continue  # two handlers at one offset: infeasible
            if T == 0:
                judged += 1
                if not (isinstance(r, list) and r == []):
                    seen.setdefault("no-tries", "determineException returns %s for a code item without tries, expected []" % pp(r)[:100])
                continue
            if any(len(hs) == 0 for hs in match.values()):
                continue  # a try item that points at no handler: malformed item, nothing to report
            judged += 1
            if isinstance(r, Raised):
                seen.setdefault("handler-lookup", "determineException raises %s although every try item points at an encoded handler "
                                "(lookup key must be try.get_handler_off() + handlers.get_off() == handler.get_off())" % r)
                continue
            if not isinstance(r, list):
                seen.setdefault("shape", "determineException returns %s" % pp(r)[:100])
                continue
            exps = {t: expected_entry(t, match[t][0], sizes[match[t][0]]) for t in range(T)}
            if not all(any(same(g, exps[t]) for g in r) for t in range(T)) or len(r) != T:
                fm.exact(r, "determineException")
            left = list(r)
            for t in range(T):
                hit = next((g for g in left if same(g, exps[t])), None)
                if hit is not None:
                    left.remove(hit)
                    continue
                # find the entry that talks about this try (by its start) to say what is wrong
                cand = next((g for g in left if isinstance(g, list) and g and same(g[0], exps[t][0])), None)
                cat = classify_entry(cand, exps[t], sizes[match[t][0]]) if cand is not None else "missing"
                seen.setdefault(cat, "try #%d (handler list #%d, size %d) is reported as %s; the code item encodes %s"
                                % (t, match[t][0], sizes[match[t][0]], pp(cand)[:300], pp(exps[t])[:300]))
                if cand is not None and cand in left:
                    left.remove(cand)
            if left and not seen:
                seen.setdefault("extra", "determineException reports %d entries for %d try items: %s" % (len(r), T, pp(left)[:200]))
        if judged == 0:
            raise AnalysisError("determineException: no judged path for %s" % label)
        for cat, msg in seen.items():
            sink.check("report/" + cat, label + " " + cat, False, de, "determineException: " + cat, msg)
        if not seen:
            sink.check("report", label, True, de, "", "", detail="%d try->handler assignments: ranges, typed handlers in order, catch-all iff size<=0" % judged)
        sink.count("report_scenarios")


# ---------------------------------------------------------------------------
# EncodedCatchHandler & friends
# ---------------------------------------------------------------------------
class Stream:
    """hooks that model the input stream and the LEB readers; records the consumption order"""

    def __init__(self, sleb=None, uleb=None, unpack=None):
        self.events = []
        self.sleb = sleb
        self.uleb = uleb
        self.unpack = unpack
        self.attr_reads = []
        self.n = itertools.count()

    def repo_call(self, it, fobj, args, kwargs, node, func):
        q = fobj.qualname
        if q in ("writesleb128", "writeuleb128"):
            return CatV([Sym("call", q, *args)])      # a byte string: concatenation keeps the order
        if q == "readsleb128":
            v = self.sleb if self.sleb is not None else Sym("sleb", next(self.n))
            self.events.append(("sleb", tuple(args), v))
            return v
        if q == "readuleb128":
            if self.sleb is not None and not self.events:
                v = self.sleb      # the size itself is being read as an unsigned LEB128 (recorded as such)
            elif self.uleb is not None and not any(e[0] == "uleb" for e in self.events):
                v = self.uleb
            else:
                v = Sym("uleb", next(self.n))
            self.events.append(("uleb", tuple(args), v))
            return v
        return NotImplemented

    def new(self, it, cls, args, kwargs, node, func):
        v = Sym("obj:" + cls.name, next(self.n))
        self.events.append(("new:" + cls.name, tuple(args), v))
        return v

    def method(self, it, recv, name, args, kwargs, node, func):
        if recv == BUFF:
            if name == "read":
                v = Sym("read", next(self.n))
                self.events.append(("read", tuple(args), v))
                return v
            if name == "tell":
                return Sym("tell", next(self.n))
            raise AnalysisError("%s: stream method %s outside the model" % (func.loc(node), name))
        if isinstance(recv, Sym) and recv.op.startswith("obj:") and not args:
            if name == "get_raw":
                return CatV([mcall(recv, "get_raw")])
            if name == "get_length":
                return Sym("len", mcall(recv, "get_raw"))   # get_length() == len(get_raw()) for every item class
        if isinstance(recv, PackerV) and name == "unpack" and len(args) == 1:
            if self.unpack is None:
                raise AnalysisError("%s: unexpected unpack" % func.loc(node))
            return self.unpack(recv.fmt, args[0], node, func)
        return NotImplemented

    def call(self, it, name, callee, args, kwargs, node, func):
        if name == "calcsize" and len(args) == 1 and isinstance(args[0], str):
            return struct.calcsize("<" + args[0].lstrip("<=@!>"))
        return NotImplemented

    def attr(self, it, base, attr, func):
        if isinstance(base, Obj) and base.name == "self":
            self.attr_reads.append(attr)
        return NotImplemented

    def hooks(self):
        return {"repo_call": self.repo_call, "new": self.new, "method": self.method, "call": self.call, "attr": self.attr}


def _call(it, obj, name, *args):
    f = obj.cls.lookup(name)
    if f is None:
        raise AnalysisError("anchor vanished: %s.%s" % (obj.cls.name, name))
    return it.call_function(f, list(args), recv=obj)


def closed(fn):
    """these models are fully concrete in every branching quantity: an undecided condition means the
    code left the fragment (exit 2), never a verdict"""
    def wrapper(*a, **k):
        try:
            return fn(*a, **k)
        except Split as s:
            raise AnalysisError("%s: a condition depends on a quantity the model keeps opaque: %s" % (fn.__name__, s.keys[:1]))
    wrapper.__name__ = fn.__name__
    return wrapper


@closed
def check_catch_handler(sink, repo, folder, cls):
    init = cls.lookup("__init__")
    if init is None or init.params()[1:] != ["buff", "cm"]:
        raise AnalysisError("EncodedCatchHandler.__init__ no longer takes (buff, cm)")
    for size in (-2, -1, 0, 1, 2):
        label = "size=%d" % size
        st = Stream(sleb=size)
        it = SymInterp(repo, folder, asg={}, hooks=st.hooks())
        o = it.new_obj(cls, "self")
        n = abs(size)
        try:
            it.call_function(init, [BUFF, CM], recv=o)
        except Raised as ex:
            sink.check("handler/read", label, False, init, "EncodedCatchHandler.__init__: raises", "constructor raises %s for size %d" % (ex, size))
            continue
        kinds = [e[0] for e in st.events]
        exp = ["sleb"] + ["new:EncodedTypeAddrPair"] * n + (["uleb"] if size <= 0 else [])
        ok = kinds == exp
        why = ""
        if not ok:
            if not kinds or kinds[0] != "sleb":
                cat, why = "size-encoding", "size is read with %s, the format stores a signed LEB128 (negative: a catch-all follows)" % (kinds[:1] or ["nothing"])[0]
            elif kinds.count("new:EncodedTypeAddrPair") != n:
                cat, why = "pair-count", "%d encoded_type_addr_pair are read for size %d, expected abs(size) = %d" % (kinds.count("new:EncodedTypeAddrPair"), size, n)
            else:
                cat, why = "catch-all-guard", "catch_all_addr is %s for size %d; it is present iff size <= 0 (after the pairs)" % (
                    "read" if "uleb" in kinds else "not read", size)
            sink.check("handler/read", label + " " + cat, False, init, "EncodedCatchHandler.__init__: " + cat,
                       "stream consumption %s, expected %s: %s" % (kinds, exp, why))
            sink.count("handler_sizes")
            continue
        pairs = [e[2] for e in st.events if e[0] == "new:EncodedTypeAddrPair"]
        ca = next((e[2] for e in st.events if e[0] == "uleb"), None)
        ca_attr = next((a for a, v in o.attrs.items() if ca is not None and v == ca), None)
        g_size, g_h = _call(it, o, "get_size"), _call(it, o, "get_handlers")
        okg = g_size == size and isinstance(g_size, int) and isinstance(g_h, list) and g_h == pairs
        if size <= 0:
            okg = okg and _call(it, o, "get_catch_all_addr") == ca
        sink.check("handler/getters", label, okg, init, "EncodedCatchHandler: getters",
                   "get_size()/get_handlers()/get_catch_all_addr() return %s / %s, expected the signed size %d, the %d pairs in stream order and the catch-all address"
                   % (pp(g_size), pp(g_h)[:80], size, n), detail="size, pairs in order, catch-all")
        # ---- siblings ------------------------------------------------------------
        cm_v = CM
        st.attr_reads = []
        raw = _call(it, o, "get_raw")
        exp_raw = [Sym("call", "writesleb128", cm_v, size)] + [mcall(p, "get_raw") for p in pairs] + \
                  ([Sym("call", "writeuleb128", cm_v, ca)] if size <= 0 else [])
        okr = isinstance(raw, CatV) and len(raw.parts) == len(exp_raw) and all(a == b for a, b in zip(raw.parts, exp_raw))
        graw = cls.lookup("get_raw")
        if not okr:
            fm.exact(raw, "EncodedCatchHandler.get_raw")
            if not isinstance(raw, CatV):
                raise AnalysisError("EncodedCatchHandler.get_raw() does not evaluate to a concatenation of byte strings (%s)" % show(raw)[:80])
        sink.check("handler/get_raw", label, okr, graw, "EncodedCatchHandler.get_raw",
                   "get_raw() writes %s for size %d, expected sleb128(size), the pairs in order%s"
                   % (pp(raw.parts if isinstance(raw, CatV) else raw)[:200], size, ", uleb128(catch_all_addr)" if size <= 0 else " and no catch-all"),
                   detail="sleb128(size) + pairs + catch-all iff size<=0")
        ln = _call(it, o, "get_length")
        exp_ln = Lin({Sym("len", Sym("call", "writesleb128", cm_v, size)): 1}, 0)
        for p in pairs:
            exp_ln = exp_ln + Lin.of(Sym("len", mcall(p, "get_raw")))
        if size <= 0:
            exp_ln = exp_ln + Lin.of(Sym("len", Sym("call", "writeuleb128", cm_v, ca)))
        glen = cls.lookup("get_length")
        if not (Lin.of(ln) is not None and lin_eq(ln, exp_ln.simplify())):
            fm.exact(ln, "EncodedCatchHandler.get_length")
            if Lin.of(ln) is None:
                raise AnalysisError("EncodedCatchHandler.get_length() does not evaluate to a sum of lengths (%s)" % show(ln)[:80])
        sink.check("handler/get_length", label, Lin.of(ln) is not None and lin_eq(ln, exp_ln.simplify()), glen, "EncodedCatchHandler.get_length",
                   "get_length() is %s for size %d, expected %s" % (pp(ln)[:200], size, pp(exp_ln.simplify())[:200]),
                   detail="same guard as the reader")
        if size > 0:
            # the attribute does not exist for size > 0: any sibling touching it would raise AttributeError
            for g in ("show", "get_raw", "get_length"):
                f = cls.lookup(g)
                if f is None:
                    continue
                st.attr_reads = []
                try:
                    _call(it, o, g)
                except Raised:
                    pass
                bad = [a for a in st.attr_reads if a not in o.attrs and o.cls.lookup(a) is None and o.cls.lookup_attr(a) is None]
                sink.check("handler/guard-agreement", "%s %s" % (label, g), not bad, f, "EncodedCatchHandler.%s: catch-all guard" % g,
                           "%s() reads %s for size %d although the constructor only sets it when size <= 0" % (g, bad, size))
        sink.count("handler_sizes")


@closed
def check_handler_list(sink, repo, folder, cls):
    init = cls.lookup("__init__")
    for n in (0, 1, 3):
        st = Stream(uleb=n)
        it = SymInterp(repo, folder, asg={}, hooks=st.hooks())
        o = it.new_obj(cls, "self")
        it.call_function(init, [BUFF, CM], recv=o)
        kinds = [e[0] for e in st.events]
        hs = [e[2] for e in st.events if e[0] == "new:EncodedCatchHandler"]
        ok = kinds == ["uleb"] + ["new:EncodedCatchHandler"] * n and _call(it, o, "get_list") == hs and _call(it, o, "get_size") == n \
            and all(e[1] == (BUFF, CM) for e in st.events if e[0].startswith("new:"))
        sink.check("handler/list", "handlers=%d" % n, ok, init, "EncodedCatchHandlerList.__init__",
                   "encoded_catch_handler_list with size %d consumes %s, expected the uleb128 size then %d handlers kept in order" % (n, kinds, n),
                   detail="uleb128 size, handlers in stream order")
        sink.count("handler_lists")


@closed
def check_pair(sink, repo, folder, cls):
    init = cls.lookup("__init__")
    st = Stream()
    it = SymInterp(repo, folder, asg={}, hooks=st.hooks())
    o = it.new_obj(cls, "self")
    it.call_function(init, [CM, BUFF], recv=o)
    ul = [e[2] for e in st.events if e[0] == "uleb"]
    ok = [e[0] for e in st.events] == ["uleb", "uleb"] and _call(it, o, "get_type_idx") == ul[0] and _call(it, o, "get_addr") == ul[1]
    sink.check("handler/pair", "EncodedTypeAddrPair", ok, init, "EncodedTypeAddrPair.__init__",
               "encoded_type_addr_pair must read type_idx then addr (both uleb128); consumption %s, get_type_idx()=%s get_addr()=%s"
               % ([e[0] for e in st.events], pp(_call(it, o, "get_type_idx")), pp(_call(it, o, "get_addr"))), detail="type_idx, addr")
    sink.count("pairs")


# ---------------------------------------------------------------------------
# DalvikCode.__init__ / TryItem
# ---------------------------------------------------------------------------
def _slots(fmt):
    endian, slots, total = parse_format(fmt)
    return endian, [(c, sz, sg) for c, sz, sg in slots], total


@closed
def check_code_item(sink, repo, folder, cls):
    init = cls.lookup("__init__")
    if init is None or init.params()[1:] != ["buff", "cm"]:
        raise AnalysisError("DalvikCode.__init__ no longer takes (buff, cm)")
    for N, T in itertools.product((0, 1, 2, 3), (0, 1, 2)):
        label = "insns_size=%d tries_size=%d" % (N, T)
        header = {}

        def unpack(fmt, arg, node, func, N=N, T=T, header=header):
            endian, slots, total = _slots(fmt)
            codes = [(c, sg) for c, sz, sg in slots]
            if total == 16 and "hdr" not in header:
                header["hdr"] = (fmt, arg)
                if endian not in "<=" or codes != [("H", False)] * 4 + [("I", False)] * 2:
                    header["bad"] = fmt
                # the other header fields get distinct concrete labels so that a field taken from the wrong
                # slot stays decidable (and is reported by the field-order obligation)
                return (7, 9, 11, T, 13, N)
            return tuple(Sym("unpacked", fmt, i) for i in range(len(slots)))

        st = Stream(unpack=unpack)
        it = SymInterp(repo, folder, asg={}, hooks=st.hooks())
        o = it.new_obj(cls, "self")
        try:
            it.call_function(init, [BUFF, CM], recv=o)
        except Raised as ex:
            sink.check("code-item/raises", label, False, init, "DalvikCode.__init__: raises", "constructor raises %s for %s" % (ex, label))
            continue
        ev = st.events
        okh = "hdr" in header and "bad" not in header and ev and ev[0][0] == "read" and ev[0][1] == (16,) and header["hdr"][1] == ev[0][2]
        sink.check("code-item/header", label, bool(okh), init, "DalvikCode.__init__: header",
                   "the code_item header must be the first 16 bytes unpacked little-endian as 4H2I (ushort registers, ins, outs, tries; uint debug_info_off, insns_size); got %s"
                   % (header.get("hdr", ("none",))[0],), detail="4H2I over read(16)")
        okf = _call(it, o, "get_tries_size") == T and _call(it, o, "get_insns_size") == N
        sink.check("code-item/fields", label, okf, init, "DalvikCode.__init__: field order",
                   "get_tries_size()/get_insns_size() return %s/%s; tries_size is the 4th ushort and insns_size the 2nd uint of the header"
                   % (pp(_call(it, o, "get_tries_size")), pp(_call(it, o, "get_insns_size"))), detail="slot 3 -> tries_size, slot 5 -> insns_size")
        seq = [(e[0], e[1][0] if e[0] == "read" and e[1] else None) for e in ev[1:] if e[0] != "new:DCode"]
        pad = [("read", 2)] if (N % 2 == 1 and T > 0) else []
        exp = [("read", 2 * N)] + pad + [("new:TryItem", None)] * T + ([("new:EncodedCatchHandlerList", None)] if T > 0 else [])
        if seq != exp:
            got_pad = ("read", 2) in seq[1:2]
            if seq[:1] != exp[:1]:
                cat, why = "insns", "the instruction array must be read as 2*insns_size = %d bytes right after the header" % (2 * N)
            elif got_pad != bool(pad):
                cat, why = "padding", "two padding bytes are %s; they are present iff insns_size is odd and tries_size > 0" % ("read" if got_pad else "skipped")
            elif [s for s in seq if s[0] == "new:TryItem"] != [("new:TryItem", None)] * T:
                cat, why = "tries", "%d TryItem are read, expected tries_size = %d" % (sum(1 for s in seq if s[0] == "new:TryItem"), T)
            else:
                cat, why = "handlers", "the encoded_catch_handler_list must be read once, after the tries, iff tries_size > 0"
            sink.check("code-item/" + cat, label + " " + cat, False, init, "DalvikCode.__init__: " + cat,
                       "%s: stream consumption after the header is %s, expected %s; %s" % (label, seq, exp, why))
        else:
            dc = [e for e in ev if e[0] == "new:DCode"]
            okd = len(dc) == 1 and N in dc[0][1] and ev[1][2] in dc[0][1]
            sink.check("code-item/insns", label, okd, init, "DalvikCode.__init__: DCode", "DCode must receive insns_size and the 2*insns_size code bytes",
                       detail="read(2*insns) -> DCode; padding iff odd and tries; %d tries; handlers iff tries" % T)
            tries = [e[2] for e in ev if e[0] == "new:TryItem"]
            hl = next((e[2] for e in ev if e[0] == "new:EncodedCatchHandlerList"), None)
            okt = _call(it, o, "get_tries") == tries and _call(it, o, "get_handlers") == hl \
                and all(e[1] == (BUFF, o.attrs.get("CM", CM)) or e[1] == (BUFF, CM) for e in ev if e[0] in ("new:TryItem", "new:EncodedCatchHandlerList"))
            sink.check("code-item/getters", label, okt, init, "DalvikCode: get_tries/get_handlers",
                       "get_tries()/get_handlers() must return the TryItem objects in stream order and the handler list (None without tries)")
        sink.count("code_item_scenarios")


@closed
def check_try_item(sink, repo, folder, cls):
    init = cls.lookup("__init__")
    seen = {}

    def unpack(fmt, arg, node, func):
        endian, slots, total = _slots(fmt)
        seen["fmt"] = (endian, [(c, sg) for c, sz, sg in slots], total, arg)
        return tuple(Sym("slot", i) for i in range(len(slots)))

    st = Stream(unpack=unpack)
    it = SymInterp(repo, folder, asg={}, hooks=st.hooks())
    o = it.new_obj(cls, "self")
    it.call_function(init, [BUFF, CM], recv=o)
    f = seen.get("fmt")
    okf = f is not None and f[0] in "<=" and f[1] == [("I", False), ("H", False), ("H", False)] and st.events and st.events[0][:2] == ("read", (8,)) \
        and f[3] == st.events[0][2]
    sink.check("code-item/try-item", "TryItem format", bool(okf), init, "TryItem.__init__: format",
               "try_item is uint start_addr, ushort insn_count, ushort handler_off (8 bytes, little-endian); the constructor unpacks %s" % (f[:3] if f else None,),
               detail="I2H over read(8)")
    got = [_call(it, o, g) for g in ("get_start_addr", "get_insn_count", "get_handler_off")]
    sink.check("code-item/try-item", "TryItem fields", got == [Sym("slot", 0), Sym("slot", 1), Sym("slot", 2)], init, "TryItem.__init__: field order",
               "get_start_addr/get_insn_count/get_handler_off return %s; expected header slots 0, 1, 2" % pp(got), detail="slots 0,1,2")
    sink.count("try_item")


# ---------------------------------------------------------------------------
def run(ctx):
    ctx.explanation = __doc__
    repo = ctx.repo
    folder = Folder(repo)
    dx = ctx.mod(DEX)
    de = dx.func("determineException")
    ech, ecl, pair = dx.cls("EncodedCatchHandler"), dx.cls("EncodedCatchHandlerList"), dx.cls("EncodedTypeAddrPair")
    dc, ti = dx.cls("DalvikCode"), dx.cls("TryItem")
    for n in ("readsleb128", "readuleb128", "writesleb128", "writeuleb128"):
        dx.func(n)
    ctx.analysed(de)
    for c in (ech, ecl, pair, dc, ti):
        f = c.lookup("__init__")
        ctx.require(f is not None, "anchor vanished: %s.__init__" % c.name)
        ctx.analysed(f)
    for g in ("get_raw", "get_length", "show"):
        ctx.require(ech.lookup(g) is not None, "anchor vanished: EncodedCatchHandler.%s" % g)
        ctx.analysed(ech.lookup(g))

    check_report(ctx, repo, folder, de)
    ctx.floor("report_scenarios", 20)
    ctx.floor("report_paths", 20)
    check_catch_handler(ctx, repo, folder, ech)
    ctx.floor("handler_sizes", 5)
    check_handler_list(ctx, repo, folder, ecl)
    ctx.floor("handler_lists", 3)
    check_pair(ctx, repo, folder, pair)
    ctx.floor("pairs", 1)
    check_code_item(ctx, repo, folder, dc)
    ctx.floor("code_item_scenarios", 12)
    check_try_item(ctx, repo, folder, ti)
    ctx.floor("try_item", 1)
    ctx.assume("readsleb128/readuleb128 decode LEB128 as specified (C03); cm.packer[fmt] is struct.Struct('<'+fmt) (C01/C09); "
               "vm.get_cm_type(idx) resolves the type descriptor of type_ids[idx] (C05)")
    ctx.note("equality with generated code items is not decided; the reported order *between* try items is not constrained by the property")
    # positive controls (every run; stand in for fixtures since today's tree yields no finding)
    canary(ctx, "report units", de, lambda s: check_report(s, repo, folder, de, quick=True), ["drop*2", "add->sub", "const+1"])
    canary(ctx, "catch-all guard", ech.lookup("__init__"), lambda s: check_catch_handler(s, repo, folder, ech), ["negate-if", "const+1"])
    canary(ctx, "padding guard", dc.lookup("__init__"), lambda s: check_code_item(s, repo, folder, dc), ["and->or", "negate-if", "const+1"])
    if ctx.tier == "thorough":
        _mutation_adequacy(ctx, repo, folder, de, ech, dc)


def _mutation_adequacy(ctx, repo, folder, de, ech, dc):
    def de_site(opn, n, par):
        return True

    adequacy(ctx, "determineException", de, lambda s: check_report(s, repo, folder, de),
             ["drop*2", "add->sub", "const+1", "negate-if", "del-call-stmt"],
             [("rename z", rename_local(de.node, "z", "entry")), ("rename h_off", rename_local(de.node, "h_off", "by_off")),
              ("commute", _commute_mult(de.node))], site_ok=de_site)
    for g in ("__init__", "get_raw", "get_length"):
        f = ech.lookup(g)
        adequacy(ctx, "EncodedCatchHandler." + g, f, lambda s: check_catch_handler(s, repo, folder, ech),
                 ["const+1", "negate-if", "del-call-stmt"],
                 [("rename i", rename_local(f.node, "i", "k"))])
    f = dc.lookup("__init__")
    adequacy(ctx, "DalvikCode.__init__", f, lambda s: check_code_item(s, repo, folder, dc),
             ["const+1", "negate-if", "del-call-stmt", "and->or"],
             [("rename ushort", rename_local(f.node, "ushort", "unit")), ("rename i", rename_local(f.node, "i", "k"))])


def _commute_mult(fn_node):
    t = fresh(fn_node)
    for n in ast.walk(t):
        if isinstance(n, ast.BinOp) and isinstance(n.op, ast.Mult):
            n.left, n.right = n.right, n.left
    return t
