import argparse
import importlib
import os
import sys
import traceback

from . import report
from .model import AnalysisError


def run_check(prop, tier, repo, seed, evidence_dir=None, quiet=False):
    ctx = None
    try:
        ctx = report.Ctx(prop, tier, repo, seed=seed, evidence_dir=evidence_dir, quiet=quiet)
        mod = importlib.import_module("agstatic.rules.%s" % prop.lower())
        import time as _t
        from . import absint as _absint
        _absint.DEADLINE = _t.time() + (90 if tier == "quick" else 1500)
        _absint.TIER_NAME = tier
        mod.run(ctx)
        if not getattr(mod, "NO_HISTORY_PASS", False):
            # shared pass: persistent state (module/class-level stores, caching decorators) in the call closure of the analysed functions
            from . import statefx
            statefx.check_sites(ctx)
        if tier == "thorough" and getattr(mod, "MUTATION_TARGETS", None) and not getattr(mod, "OWN_MUTATION_ADEQUACY", False):
            from . import adequacy
            adequacy.run(ctx, mod, prop, seed)
        return report.finish(ctx)
    except AnalysisError as e:
        if ctx is None:
            print("ANALYSIS-ERROR property=%s %s" % (prop, e))
            return 2
        return report.finish(ctx, error=str(e))
    except Exception as e:  # a traceback must never look like a violation
        tb = traceback.format_exc()
        sys.stderr.write(tb)
        msg = "internal checker error: %s: %s" % (type(e).__name__, e)
        if ctx is None:
            print("ANALYSIS-ERROR property=%s %s" % (prop, msg))
            return 2
        return report.finish(ctx, error=msg)


def main(argv=None):
    ap = argparse.ArgumentParser(prog="agstatic")
    sub = ap.add_subparsers(dest="cmd", required=True)
    c = sub.add_parser("check")
    c.add_argument("prop")
    c.add_argument("--tier", default=os.environ.get("VERIF_TIER", "quick"), choices=["quick", "thorough"])
    c.add_argument("--repo", default=os.environ.get("AGSTATIC_REPO", "/repo"))
    c.add_argument("--evidence-dir", default=None)
    c.add_argument("--replay", default=None, help="replay file: re-run the check that produced it")
    a = ap.parse_args(argv)
    try:
        seed = int(os.environ.get("VERIF_SEED", "0"))
    except ValueError:
        seed = 0
    sys.exit(run_check(a.prop.upper(), a.tier, a.repo, seed, a.evidence_dir))


if __name__ == "__main__":
    main()
