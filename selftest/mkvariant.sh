#!/bin/sh
# usage: selftest/mkvariant.sh PROP break_name|benign_name  -- captures the current *uncommitted* diff of /repo
# as a variant patch and restores /repo (git checkout -- .).  Edit /repo, run this, done.
set -e
prop="$1"; name="$2"
d="$(cd "$(dirname "$0")" && pwd)/variants/$prop"
mkdir -p "$d"
git -C "${AGSTATIC_REPO:-/repo}" diff > "$d/$name.patch"
test -s "$d/$name.patch" || { echo "empty diff"; rm "$d/$name.patch"; exit 1; }
git -C "${AGSTATIC_REPO:-/repo}" checkout -- .
echo "wrote $d/$name.patch"
