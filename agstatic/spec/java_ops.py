"""Independent table: what each Dalvik opcode 0x00..0xe2 computes, as a Java
expression over the operand fields of its instruction format.

Written from the public document "Dalvik bytecode" (source.android.com,
"Summary of bytecode set": syntax / arguments / description columns) and the
Java Language Specification (operators), NOT from the repository.  Opcode
numbers, mnemonics and formats come from spec/dalvik.py.

Neutral vocabulary (tuples):

  ("reg", F)                       register named by operand field F
  ("lit", F)                       the (already sign-extended / shifted) literal field F
  ("nop",)                         no effect on registers (nop, goto*: control flow only)
  ("move", dst, src)               dst = src
  ("move-result", dst)             dst = result of the preceding invoke / filled-new-array
  ("move-exception", dst)          dst = caught exception
  ("return-void",) / ("return", v)
  ("assign", dst, value)           dst = value
  ("const", ("lit", F))            literal value
  ("binary", tok, left, right)     Java binary expression  left tok right
  ("unary", tok, arg)              Java prefix operator
  ("cast", "(type)", arg)          Java primitive cast
  ("cmp", left, right)             three-way comparison cmp(left, right) (cmp-long, cmpl/cmpg-float/double)
  ("cond", tok, left, right)       branch condition  left tok right
  ("condz", tok, arg)              branch condition  arg tok 0
  ("switch", v)                    switch on v
  ("aload", array, index) / ("astore", array, index, value) / ("alength", array)
  ("get-instance", obj) / ("put-instance", obj, value) / ("get-static",) / ("put-static", value)
  ("throw", v) / ("monitor-enter", v) / ("monitor-exit", v)

SIG[op]  -> expected signature, or None when only operand roles are decided
TYPE[op] -> Dalvik type letter of the computed value ('I','J','F','D','B','C','S'), when the
            mnemonic fixes it
"""
from . import dalvik


def reg(f):
    return ("reg", f)


def lit(f):
    return ("lit", f)


# ---- operator tokens (JLS 15.15, 15.17-15.22) ---------------------------------
# Dalvik binop description -> Java operator.  ushr is the *unsigned* shift: Java `>>>`
# (JLS 15.19); `>>` is the signed shift and is what shr-* means.
BINOP_TOKEN = {
    "add": "+", "sub": "-", "mul": "*", "div": "/", "rem": "%",
    "and": "&", "or": "|", "xor": "^",
    "shl": "<<", "shr": ">>", "ushr": ">>>",
}
# rsub-int: "reverse subtract": result = literal - register
UNOP_TOKEN = {"neg": "-", "not": "~"}
TEST_TOKEN = {"eq": "==", "ne": "!=", "lt": "<", "ge": ">=", "gt": ">", "le": "<="}
TYPE_LETTER = {"int": "I", "long": "J", "float": "F", "double": "D", "byte": "B", "char": "C", "short": "S"}
JAVA_KEYWORD = {"int": "int", "long": "long", "float": "float", "double": "double", "byte": "byte",
                "char": "char", "short": "short"}

COMMUTATIVE = {"+", "*", "&", "|", "^", "==", "!="}
MIRROR = {"<": ">", ">": "<", "<=": ">=", ">=": "<=", "==": "==", "!=": "!="}

SIG = {}
TYPE = {}

for _op, (_name, _fmt, _kind, _flow) in sorted(dalvik.OPCODES.items()):
    if _op > 0xE2:
        SIG[_op] = None
        continue
    order = dalvik.OPERAND_ORDER.get(_fmt)
    sig = None
    base = _name.split("/")[0]
    if _name == "nop" or _name.startswith("goto"):
        sig = ("nop",)
    elif base in ("move", "move-wide", "move-object"):
        # "move vA, vB  A: destination register, B: source register"
        sig = ("move", reg(order[0]), reg(order[1]))
    elif base in ("move-result", "move-result-wide", "move-result-object"):
        sig = ("move-result", reg("AA"))
    elif _name == "move-exception":
        sig = ("move-exception", reg("AA"))
    elif _name == "return-void":
        sig = ("return-void",)
    elif base in ("return", "return-wide", "return-object"):
        sig = ("return", reg("AA"))
    elif base in ("const", "const-wide"):
        # const/4 vA,#+B  const/16 vAA,#+BBBB  const vAA,#+BBBBBBBB  const/high16 vAA,#+BBBB0000
        # const-wide/16 /32 (plain) /high16
        sig = ("assign", reg(order[0]), ("const", lit(order[1])))
        TYPE[_op] = "I" if base == "const" else "J"
    elif _name in ("monitor-enter", "monitor-exit"):
        sig = (_name, reg("AA"))
    elif _name == "array-length":
        sig = ("assign", reg("A"), ("alength", reg("B")))
    elif _name == "throw":
        sig = ("throw", reg("AA"))
    elif _name in ("packed-switch", "sparse-switch"):
        sig = ("switch", reg("AA"))
    elif _name.startswith("cmp"):
        # cmpkind vAA, vBB, vCC: A destination, B first source, C second source
        sig = ("assign", reg("AA"), ("cmp", reg("BB"), reg("CC")))
        TYPE[_op] = TYPE_LETTER[_name.split("-")[1]]
    elif _name.startswith("if-") and _name.endswith("z"):
        sig = ("condz", TEST_TOKEN[_name[3:-1]], reg("AA"))
    elif _name.startswith("if-"):
        sig = ("cond", TEST_TOKEN[_name[3:]], reg("A"), reg("B"))
    elif _name.startswith("aget"):
        # arrayop vAA, vBB, vCC: A value, B array, C index
        sig = ("assign", reg("AA"), ("aload", reg("BB"), reg("CC")))
    elif _name.startswith("aput"):
        sig = ("astore", reg("BB"), reg("CC"), reg("AA"))
    elif _name.startswith("iget"):
        # iinstanceop vA, vB, field@CCCC: A value, B object
        sig = ("assign", reg("A"), ("get-instance", reg("B")))
    elif _name.startswith("iput"):
        sig = ("put-instance", reg("B"), reg("A"))
    elif _name.startswith("sget"):
        sig = ("assign", reg("AA"), ("get-static",))
    elif _name.startswith("sput"):
        sig = ("put-static", reg("AA"))
    elif base.split("-")[0] in UNOP_TOKEN and _fmt == "12x":
        o, t = base.split("-")
        sig = ("assign", reg("A"), ("unary", UNOP_TOKEN[o], reg("B")))
        TYPE[_op] = TYPE_LETTER[t]
    elif "-to-" in _name:
        src_t, dst_t = _name.split("-to-")
        sig = ("assign", reg("A"), ("cast", "(%s)" % JAVA_KEYWORD[dst_t], reg("B")))
        TYPE[_op] = TYPE_LETTER[dst_t]
    elif _fmt == "23x" and base.split("-")[0] in BINOP_TOKEN:
        o, t = base.split("-")
        sig = ("assign", reg("AA"), ("binary", BINOP_TOKEN[o], reg("BB"), reg("CC")))
        TYPE[_op] = TYPE_LETTER[t]
    elif _fmt == "12x" and _name.endswith("/2addr"):
        # binop/2addr vA, vB: A destination and first source, B second source
        o, t = base.split("-")
        sig = ("assign", reg("A"), ("binary", BINOP_TOKEN[o], reg("A"), reg("B")))
        TYPE[_op] = TYPE_LETTER[t]
    elif _fmt in ("22s", "22b"):
        d, s, l = order
        o = base.split("-")[0]
        if o == "rsub":
            sig = ("assign", reg(d), ("binary", "-", lit(l), reg(s)))
        else:
            sig = ("assign", reg(d), ("binary", BINOP_TOKEN[o], reg(s), lit(l)))
        TYPE[_op] = "I"
    SIG[_op] = sig

# ---- register types fixed by the mnemonic ("binop vAA, vBB, vCC: ... int / long / float / double", unop / conversion tables
# of the Dalvik bytecode document).  Shift distances are always int (shl-long vAA, vBB(long), vCC(int)).
REGTYPE = {}
for _op, (_name, _fmt, _kind, _flow) in sorted(dalvik.OPCODES.items()):
    if _op > 0xE2:
        continue
    base = _name.split("/")[0]
    parts = base.split("-")
    t = {}
    if "-to-" in _name:
        src_t, dst_t = _name.split("-to-")
        t = {"A": TYPE_LETTER[dst_t], "B": TYPE_LETTER[src_t]}
    elif parts[0] in UNOP_TOKEN and _fmt == "12x":
        t = {"A": TYPE_LETTER[parts[1]], "B": TYPE_LETTER[parts[1]]}
    elif parts[0] in BINOP_TOKEN and len(parts) == 2 and parts[1] in TYPE_LETTER:
        L = TYPE_LETTER[parts[1]]
        shift = parts[0] in ("shl", "shr", "ushr")
        if _fmt == "23x":
            t = {"AA": L, "BB": L, "CC": "I" if shift else L}
        elif _fmt == "12x":
            t = {"A": L, "B": "I" if shift else L}
        elif _fmt == "22s":
            t = {"A": "I", "B": "I"}
        elif _fmt == "22b":
            t = {"AA": "I", "BB": "I"}
    elif parts[0] == "rsub":
        t = {"A": "I", "B": "I"} if _fmt == "22s" else {"AA": "I", "BB": "I"}
    elif _name.startswith("cmp"):
        L = TYPE_LETTER[_name.split("-")[1]]
        t = {"AA": "I", "BB": L, "CC": L}
    REGTYPE[_op] = t

# opcodes whose signature is left open: const-string(/jumbo), const-class, check-cast, instance-of,
# new-instance, new-array, filled-new-array(/range), fill-array-data, invoke-*: only operand roles.
ROLE_ONLY = sorted(op for op, s in SIG.items() if s is None and op <= 0xE2)

assert len([op for op in SIG if op <= 0xE2]) == 218, len(SIG)
assert SIG[0x9A] == ("assign", ("reg", "AA"), ("binary", ">>>", ("reg", "BB"), ("reg", "CC")))
assert SIG[0xD1][2] == ("binary", "-", ("lit", "CCCC"), ("reg", "B"))
assert SIG[0xBA][2] == ("binary", ">>>", ("reg", "A"), ("reg", "B"))
assert SIG[0xE2][2] == ("binary", ">>>", ("reg", "BB"), ("lit", "CC"))
assert REGTYPE[0x81] == {"A": "J", "B": "I"} and REGTYPE[0xA3] == {"AA": "J", "BB": "J", "CC": "I"} and REGTYPE[0xC4]["B"] == "I"
