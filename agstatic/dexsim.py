"""Bounded simulation of the DEX lookup helpers (C05 clause 5).

The helpers ``DEX.get_class``, ``get_encoded_method_descriptor`` ... are executed by the checker's
own abstract interpreter on a small *universe* of items whose role getters (get_name,
get_class_name, get_descriptor, get_method_idx ...) answer with constants chosen to discriminate
equality from prefix / substring / normalised matches, key order, array dimensions and
first-match / all-matches.  The result of every query is compared with the answer the property
defines (exactly the matching items).  A violation is a concrete query with a concrete wrong
answer; anything the interpreter cannot evaluate exactly gives AnalysisError (exit 2).

Nothing of the repository is executed by CPython: the interpreter walks the ast; the only code
run natively is the standard library's ``re`` on the universe's constant strings.
"""
from __future__ import annotations

import ast
import re as _re

from .absint import Sym, Obj, Comp, Raised, Bound, LambdaV, Split, _Return, explore, show
from .bits import Bits
from .consts import Ref, EnumVal
from .dexmodel import DexInterp
from .model import DEX, AnalysisError


class LocalFunc:
    def __init__(self, node, env, func):
        self.node, self.env, self.func = node, env, func


class MethodCaller:
    def __init__(self, name, args):
        self.name, self.args = name, list(args)


class PyCallable:
    """a bound method of a standard-library object over constants (pattern.match, list.__getitem__ ...)"""

    def __init__(self, fn):
        self.fn = fn


def _const(v):
    if isinstance(v, Bits) and v.is_const():
        return v.value()
    return v


def _is_plain(v):
    return v is None or isinstance(v, (bool, int, str, bytes, float)) and not isinstance(v, Bits)


class SimInterp(DexInterp):
    """DexInterp plus the concrete library fragment the lookup helpers use: nested defs, lambdas, filter / map /
    itertools.chain / operator.methodcaller, next(), sorted with key, list += (in place), dict.update, str.join, re"""

    def __init__(self, *a, universe=None, class_state=None, **k):
        super().__init__(*a, **k)
        self.universe = universe
        # (class, attr) -> the mutable container a class-level `attr = {}` / `[]` / `set()` denotes: ONE object for the whole
        # simulated process (shared by all instances and all later constructions)
        self.class_state = class_state if class_state is not None else {}

    def class_container(self, base, attr, func):
        cls = base.cls if isinstance(base, Obj) else base.obj if isinstance(base, Ref) and base.kind == "class" else None
        if cls is None or (isinstance(base, Obj) and self.mangle(attr, func) in base.attrs) or cls.lookup(attr) is not None:
            return None
        init = cls.lookup_attr(attr)
        call = isinstance(init, ast.Call) and isinstance(init.func, ast.Name) and init.func.id in ("dict", "list", "set", "OrderedDict") and not init.args
        if not (isinstance(init, (ast.Dict, ast.List, ast.Set)) or call):
            return None
        if isinstance(init, ast.Dict) and init.keys or isinstance(init, (ast.List, ast.Set)) and init.elts:
            return None
        holder = next((c for c in cls.mro() if attr in c.attrs), cls)
        key = (holder.name, attr)
        if key not in self.class_state:
            kind = "dict" if isinstance(init, ast.Dict) or (call and init.func.id in ("dict", "OrderedDict")) else \
                "list" if isinstance(init, ast.List) or (call and init.func.id == "list") else "set"
            self.class_state[key] = {} if kind == "dict" else [] if kind == "list" else set()
        return self.class_state[key]

    # ---- statements ---------------------------------------------------------------------------------
    def exec_stmt(self, s, env, func):
        if isinstance(s, ast.FunctionDef):
            env[s.name] = LocalFunc(s, env, func)
            return
        if isinstance(s, ast.Delete):
            for t in s.targets:
                if isinstance(t, ast.Subscript):
                    o = self.eval(t.value, env, func)
                    k = _const(self.eval(t.slice, env, func))
                    if isinstance(o, (dict, list)):
                        try:
                            del o[k]
                        except (KeyError, IndexError) as ex:
                            raise Raised(type(ex).__name__, s)
                        continue
                    raise AnalysisError("%s: del on a non-concrete container" % func.loc(s))
                if isinstance(t, ast.Name):
                    env.pop(t.id, None)
            return
        if isinstance(s, ast.AugAssign) and isinstance(s.op, ast.Add):
            cur = self.eval(ast.copy_location(_load(s.target), s.target), env, func)
            if isinstance(cur, list):
                add = self.iterate(self.eval(s.value, env, func))
                if add is None:
                    raise AnalysisError("%s: += of a non-concrete sequence" % func.loc(s))
                cur.extend(add)     # list += is an in-place extend (aliases see it)
                return
        return super().exec_stmt(s, env, func)

    def iterate(self, v):
        if isinstance(v, (list, tuple)):
            return list(v)
        if isinstance(v, dict):
            return list(v)
        if isinstance(v, range):
            return list(v)
        return None

    # ---- callables ------------------------------------------------------------------------------------
    def apply(self, fv, args, e, func):
        return self.call_value(fv, None, list(args), {}, e, None, func)

    def call_value(self, callee, name, args, kwargs, e, env, func):
        if isinstance(callee, LocalFunc):
            env2 = dict(callee.env)
            a = callee.node.args
            params = [x.arg for x in a.posonlyargs + a.args]
            for p_, v in zip(params, args):
                env2[p_] = v
            for p_ in params[len(args):]:
                if kwargs and p_ in kwargs:
                    env2[p_] = kwargs[p_]
            env2["__func__"] = callee.func
            try:
                self.exec_block(callee.node.body, env2, callee.func)
            except _Return as r:
                return r.value
            return None
        if isinstance(callee, MethodCaller):
            if len(args) != 1:
                raise AnalysisError("methodcaller applied to %d arguments" % len(args))
            return self.call_method(args[0], callee.name, list(callee.args), {}, e, env, func) if not isinstance(args[0], Obj) \
                else self._obj_call(args[0], callee.name, list(callee.args), e, env, func)
        if isinstance(callee, Bound) and isinstance(callee.recv, Obj) and self.universe is not None:
            r = self.universe.answer(callee.recv, callee.func.name, args)
            if r is not NotImplemented:
                return r
        if isinstance(callee, PyCallable):
            vals = [_const(a) for a in args]
            if all(_is_plain(v) for v in vals):
                return callee.fn(*vals)
            raise AnalysisError("library call on a non-constant argument: %s" % show(args)[:60])
        return super().call_value(callee, name, args, kwargs, e, env, func)

    def _obj_call(self, obj, name, args, e, env, func):
        h = self._h_method(self, obj, name, args, {}, e, func)
        if h is not NotImplemented:
            return h
        return self.call_method(obj, name, args, {}, e, env, func)

    # ---- expressions ------------------------------------------------------------------------------------
    def e_Attribute(self, e, env, func):
        base_node = e.value
        if isinstance(base_node, ast.Name):
            b0 = self.eval(base_node, env, func)
            if isinstance(b0, (Obj, Ref)):
                cc = self.class_container(b0, e.attr, func)
                if cc is not None:
                    return cc
        # class-level constants built by a call (re.compile(...), {True: methodcaller(...)}): evaluate the initialiser
        if isinstance(base_node, ast.Name) and base_node.id in ("self", "cls") or isinstance(base_node, ast.Name):
            base = self.eval(base_node, env, func)
            cls = base.cls if isinstance(base, Obj) else base.obj if isinstance(base, Ref) and base.kind == "class" else None
            if cls is not None and not (isinstance(base, Obj) and self.mangle(e.attr, func) in base.attrs) and cls.lookup(e.attr) is None:
                init = cls.lookup_attr(e.attr)
                if init is not None and any(isinstance(x, ast.Call) for x in ast.walk(init)):
                    holder = next((c for c in cls.mro() if e.attr in c.attrs), cls)
                    pseudo = next(iter(holder.methods.values()), func)
                    return self.eval(init, {"__func__": pseudo}, pseudo)
        if self.universe is not None and isinstance(base_node, ast.Name):
            base = self.eval(base_node, env, func)
            if isinstance(base, Obj) and id(base) in self.universe.roles and e.attr not in base.attrs and base.cls.lookup(e.attr) is None:
                # a plain attribute of an item: defined iff a role getter is exactly `return self.<attr>`
                for g, val in self.universe.roles[id(base)].items():
                    gf = base.cls.lookup(g)
                    if gf is None:
                        continue
                    body = [s0 for s0 in gf.node.body if not (isinstance(s0, ast.Expr) and isinstance(s0.value, ast.Constant))]
                    if len(body) == 1 and isinstance(body[0], ast.Return) and isinstance(body[0].value, ast.Attribute) \
                            and isinstance(body[0].value.value, ast.Name) and body[0].value.value.id == "self" and body[0].value.attr == e.attr:
                        return list(val) if isinstance(val, list) else val
                raise AnalysisError("%s: attribute .%s of an item is read directly; no role getter is `return self.%s` (it may be a lazily filled cache)" % (
                    func.loc(e), e.attr, e.attr))
        if isinstance(base_node, ast.Name) and base_node.id == "re" and e.attr.isupper() and hasattr(_re, e.attr) and "re" not in env:
            b1 = self.eval(base_node, env, func)
            if isinstance(b1, Sym) and b1.op in ("module", "name"):
                return int(getattr(_re, e.attr))
        if e.attr in ("match", "search", "fullmatch", "findall", "sub", "split", "__getitem__"):
            base = self.eval(base_node, env, func)
            if isinstance(base, _re.Pattern) or (e.attr == "__getitem__" and isinstance(base, (list, tuple, dict))):
                return PyCallable(getattr(base, e.attr))
        return super().e_Attribute(e, env, func)

    def e_Name(self, e, env, func):
        if e.id not in env and func is not None and e.id in func.module.assigns and func.module.resolve_name(e.id) is not None:
            init = func.module.assigns[e.id]
            if any(isinstance(x, ast.Call) for x in ast.walk(init)):
                v = super().e_Name(e, env, func)
                if isinstance(v, Sym):
                    return self.eval(init, {"__func__": func}, func)
                return v
        return super().e_Name(e, env, func)

    # ---- calls ----------------------------------------------------------------------------------------------
    def _h_call(self, it, name, callee, args, kwargs, e, func):
        if isinstance(callee, (Ref, Bound, LocalFunc, LambdaV)):
            return super()._h_call(it, name, callee, args, kwargs, e, func)
        if name == "methodcaller" and args and isinstance(args[0], str):
            return MethodCaller(args[0], args[1:])
        if name == "filter" and len(args) == 2:
            seq = self.iterate(args[1])
            if seq is None:
                raise AnalysisError("%s: filter over a non-concrete sequence" % func.loc(e))
            out = []
            for x in seq:
                keep = x if args[0] is None else self.apply(args[0], [x], e, func)
                if self.truth(keep, e, func):
                    out.append(x)
            return out
        if name == "map" and len(args) == 2:
            seq = self.iterate(args[1])
            if seq is None:
                raise AnalysisError("%s: map over a non-concrete sequence" % func.loc(e))
            return [self.apply(args[0], [x], e, func) for x in seq]
        if name == "chain":
            out = []
            for a in args:
                seq = self.iterate(a)
                if seq is None:
                    raise AnalysisError("%s: chain of a non-concrete sequence" % func.loc(e))
                out.extend(seq)
            return out
        if name == "next" and args:
            seq = self.iterate(args[0])
            if seq is None:
                raise AnalysisError("%s: next() of a non-concrete iterator" % func.loc(e))
            if seq:
                return seq[0]
            if len(args) > 1:
                return args[1]
            raise Raised("StopIteration", e)
        if name in ("list", "tuple", "iter") and len(args) == 1 and self.iterate(args[0]) is not None:
            seq = self.iterate(args[0])
            return tuple(seq) if name == "tuple" else seq
        if name == "object" and not args:
            return Obj(None, "sentinel")
        if name == "sorted" and args and self.iterate(args[0]) is not None:
            seq = self.iterate(args[0])
            key = (kwargs or {}).get("key")
            keys = [_const(x if key is None else self.apply(key, [x], e, func)) for x in seq]
            if all(_is_plain(k_) and k_ is not None for k_ in keys):
                idx = sorted(range(len(seq)), key=keys.__getitem__, reverse=bool((kwargs or {}).get("reverse", False)))
                return [seq[i] for i in idx]
        if name in ("any", "all") and len(args) == 1 and self.iterate(args[0]) is not None:
            vals = [self.truth(x, e, func) for x in self.iterate(args[0])]
            return any(vals) if name == "any" else all(vals)
        if name == "bool" and len(args) == 1:
            return self.truth(args[0], e, func)
        return super()._h_call(it, name, callee, args, kwargs, e, func)

    def _h_method(self, it, recv, name, args, kwargs, e, func):
        # module functions: re.compile / re.match ..., itertools.chain.from_iterable
        if isinstance(recv, Sym) and recv.op in ("module", "name") and recv.args and recv.args[0] == "re":
            vals = [_const(a) for a in args]
            if all(_is_plain(v) for v in vals) and hasattr(_re, name):
                try:
                    return getattr(_re, name)(*vals)
                except Exception:
                    pass
            return Sym("call", "re." + name, *args)   # opaque: judged by whoever consumes the value
        if name == "from_iterable" and len(args) == 1:
            outer = self.iterate(args[0])
            if outer is None or any(self.iterate(x) is None for x in outer):
                raise AnalysisError("%s: chain.from_iterable of a non-concrete sequence" % func.loc(e))
            return [y for x in outer for y in self.iterate(x)]
        if isinstance(recv, _re.Pattern):
            vals = [_const(a) for a in args]
            if all(_is_plain(v) for v in vals):
                return getattr(recv, name)(*vals)
            return Sym("call", "re.Pattern." + name, *args)   # opaque result (a test on it is an unevaluated condition)
        if isinstance(recv, str) and name == "join" and len(args) == 1 and self.iterate(args[0]) is not None \
                and all(isinstance(x, str) for x in self.iterate(args[0])):
            return recv.join(self.iterate(args[0]))
        if isinstance(recv, dict):
            if name == "update" and len(args) == 1:
                src = args[0]
                pairs = list(src.items()) if isinstance(src, dict) else self.iterate(src)
                if pairs is None:
                    raise AnalysisError("%s: dict.update with a non-concrete argument" % func.loc(e))
                for kv in pairs:
                    k_, v_ = kv
                    recv[_const(k_)] = v_
                return None
            if name == "get" and args:
                k_ = _const(args[0])
                if _is_plain(k_) or isinstance(k_, (tuple, EnumVal)):
                    try:
                        return recv.get(k_, args[1] if len(args) > 1 else None)
                    except TypeError:
                        pass
            if name == "pop" and args:
                k_ = _const(args[0])
                try:
                    if len(args) > 1:
                        return recv.pop(k_, args[1])
                    if k_ in recv:
                        return recv.pop(k_)
                    raise Raised("KeyError", e)
                except TypeError:
                    raise AnalysisError("%s: dict.pop with an unhashable abstract key" % func.loc(e))
            if name == "clear" and not args:
                recv.clear()
                return None
            if name in ("items", "values", "keys") and not args:
                return [tuple(x) if name == "items" else x for x in getattr(recv, name)()]
            if name == "setdefault" and len(args) == 2:
                return recv.setdefault(_const(args[0]), args[1])
        if isinstance(recv, list) and name == "extend" and len(args) == 1 and self.iterate(args[0]) is not None:
            recv.extend(self.iterate(args[0]))
            return None
        u = self.universe
        if u is not None and isinstance(recv, Obj):
            r = u.answer(recv, name, args)
            if r is not NotImplemented:
                return r
        return super()._h_method(it, recv, name, args, kwargs, e, func)


def _load(t):
    import copy
    t2 = copy.copy(t)
    t2.ctx = ast.Load()
    return t2


# ---------------------------------------------------------------------------
METHODS = [  # (class, name, descriptor)
    ("LA;", "foo", "(I)V"), ("LA;", "foo", "([I)V"), ("LA;", "foo", "([[I)V"), ("LA;", "foobar", "(I)V"),
    ("LA;", "bar", "(I Ljava/lang/String;)V"), ("LAB;", "foo", "(I)V"), ("LAB;", "<init>", "()V"),
    ("LB;", "oo", "(I)V"), ("LB;", "foo", "(I)V"), ("LB;", "foo", "(I I)V"),
]
FIELDS = [("LA;", "a", "I"), ("LA;", "ab", "I"), ("LAB;", "a", "I"), ("LB;", "a", "[I"), ("LB;", "a", "J"), ("LB;", "b", "[[I")]
CLASSES = ["LA;", "LAB;", "LB;"]


class Universe:
    """items answer their role getters with constants; DEX section getters hand out the item lists"""

    def __init__(self, m):
        self.m = m
        self.roles = {}
        mk = lambda cname, label: Obj(m.cls(cname), label)
        self.enc_methods = []
        self.id_methods = []
        for i, (c, n, d) in enumerate(METHODS):
            em = mk("EncodedMethod", "encoded_method#%d" % i)
            self.roles[id(em)] = {"get_class_name": c, "get_name": n, "get_descriptor": d, "get_method_idx": 10 + i}
            self.enc_methods.append(em)
            im = mk("MethodIdItem", "method_id#%d" % i)
            self.roles[id(im)] = {"get_class_name": c, "get_name": n, "get_descriptor": d}
            self.id_methods.append(im)
        self.enc_fields = []
        self.id_fields = []
        for i, (c, n, d) in enumerate(FIELDS):
            ef = mk("EncodedField", "encoded_field#%d" % i)
            self.roles[id(ef)] = {"get_class_name": c, "get_name": n, "get_descriptor": d, "get_field_idx": 20 + i}
            self.enc_fields.append(ef)
            if_ = mk("FieldIdItem", "field_id#%d" % i)
            self.roles[id(if_)] = {"get_class_name": c, "get_name": n, "get_descriptor": d, "get_type": d}
            self.id_fields.append(if_)
        self.classes = []
        for c in CLASSES:
            k = mk("ClassDefItem", "class_def %s" % c)
            self.roles[id(k)] = {"get_name": c,
                                 "get_methods": [x for x in self.enc_methods if self.roles[id(x)]["get_class_name"] == c],
                                 "get_fields": [x for x in self.enc_fields if self.roles[id(x)]["get_class_name"] == c]}
            self.classes.append(k)
        self.dex = None
        self.dex_roles = {"get_classes": self.classes, "get_methods": self.id_methods, "get_fields": self.id_fields}

    def answer(self, recv, name, args):
        r = self.roles.get(id(recv))
        if r is not None:
            if name in r and not args:
                v = r[name]
                return list(v) if isinstance(v, list) else v
            raise AnalysisError("the simulation universe has no answer for %s.%s() (an item is queried outside its role getters)" % (recv.name, name))
        if recv is self.dex and name in self.dex_roles and not args:
            return list(self.dex_roles[name])
        return NotImplemented

    def role(self, item, g):
        return self.roles[id(item)][g]


def _match(pattern, s):
    return _re.compile(pattern).match(s) is not None


def queries(u):
    """helper -> list of (args, expected result) over the universe"""
    q = {}
    R = u.role
    q["get_class"] = [((n,), next((k for k in u.classes if R(k, "get_name") == n), None)) for n in CLASSES + ["L", "A;", "LC;", "LA", "XLA;", "LA;X", "LA;LB;"]]
    cm = []
    for c in CLASSES + ["LC;", "XLA;", "LA;LB;"]:
        for n in ("foo", "oo", "foobar", "<init>", "fo", "nope", "xfoo", "foox"):
            cm.append(((c, n), next((x for x in u.enc_methods if R(x, "get_class_name") == c and R(x, "get_name") == n), None)))
    q["get_encoded_methods_class_method"] = cm
    q["get_encoded_methods_class"] = [((c,), [x for x in u.enc_methods if R(x, "get_class_name") == c]) for c in CLASSES + ["L", "LC;", "XLA;", "LA;LB;"]]
    q["get_encoded_fields_class"] = [((c,), [x for x in u.enc_fields if R(x, "get_class_name") == c]) for c in CLASSES + ["L", "LC;", "XLA;", "LA;LB;"]]
    md = []
    for x in u.enc_methods:
        t = (R(x, "get_class_name"), R(x, "get_name"), R(x, "get_descriptor"))
        md.append((t, x))
    # well-formed queries only (class descriptors end in ';', method descriptors start with '(')
    for t in (("LA;", "fo", "(I)V"), ("LC;", "foo", "(I)V"), ("LA;", "foo", "([[[I)V"), ("LA;", "foo", "(J)V"), ("LB;", "foo", "(II)V")):
        md.append((t, next((x for x in u.enc_methods if (R(x, "get_class_name"), R(x, "get_name"), R(x, "get_descriptor")) == t), None)))
    q["get_encoded_method_descriptor"] = md
    fd = []
    for x in u.enc_fields:
        t = (R(x, "get_class_name"), R(x, "get_name"), R(x, "get_descriptor"))
        fd.append((t, x))
    for t in (("LA;", "a", "J"), ("LC;", "a", "I"), ("LB;", "b", "[I"), ("LA;", "b", "I")):
        fd.append((t, next((x for x in u.enc_fields if (R(x, "get_class_name"), R(x, "get_name"), R(x, "get_descriptor")) == t), None)))
    q["get_encoded_field_descriptor"] = fd
    q["get_encoded_method_by_idx"] = [((R(x, "get_method_idx"),), x) for x in u.enc_methods] + [((0,), None), ((99,), None)]
    pats = ["foo", "foo$", "oo", "f.*r$", "<init>", "a", "a$", "nope", ".*"]
    q["get_method"] = [((p,), [x for x in u.id_methods if _match(p, R(x, "get_name"))]) for p in pats]
    q["get_field"] = [((p,), [x for x in u.id_fields if _match(p, R(x, "get_name"))]) for p in pats]
    q["get_encoded_method"] = [((p,), [x for x in u.enc_methods if _match(p, R(x, "get_name"))]) for p in pats]
    q["get_encoded_field"] = [((p,), [x for x in u.enc_fields if _match(p, R(x, "get_name"))]) for p in pats]
    return q


def _describe(u, v):
    if v is None:
        return "None"
    if isinstance(v, Obj):
        r = u.roles.get(id(v))
        if r is None:
            return v.name
        return "%s->%s%s" % (r.get("get_class_name", ""), r.get("get_name", ""), " " + r["get_descriptor"] if "get_descriptor" in r else "")
    if isinstance(v, (list, tuple)):
        return "[" + ", ".join(_describe(u, x) for x in v) + "]"
    return show(v)[:60]


def check_lookups_sim(ctx, repo, folder):
    m = repo.mod(DEX)
    dex_cls = m.cls("DEX")
    flush = dex_cls.lookup("_flush")
    u0 = Universe(m)
    n_helpers = 0
    for helper, qs in queries(u0).items():
        f = dex_cls.methods.get(helper)
        if f is None:
            continue
        ctx.analysed(f)
        if len(f.params()) - 1 != len(qs[0][0]):
            raise AnalysisError("DEX.%s takes %d parameters, the simulation expects %d" % (helper, len(f.params()) - 1, len(qs[0][0])))
        u = Universe(m)
        qs = queries(u)[helper]
        it = SimInterp(repo, folder, asg={}, construct=lambda c: False, inline_module=m, universe=u)
        d = Obj(dex_cls, "dex")
        u.dex = d
        d.attrs["CM"] = Sym("cm")
        try:
            if flush is not None:
                it.call_function(flush, [], recv=d)
            bad = None
            n_ok = 0
            for args, exp in qs:
                got = it.call_function(f, list(args), recv=d)
                if isinstance(got, tuple):
                    got = list(got)
                exact = got is None or isinstance(got, Obj) or (isinstance(got, list) and all(isinstance(x, Obj) for x in got))
                if not exact:
                    raise AnalysisError("DEX.%s%r evaluates to %s, not to items of the universe" % (helper, args, show(got)[:80]))
                same = (got is exp) if not isinstance(exp, list) else (isinstance(got, list) and len(got) == len(exp) and all(a is b for a, b in zip(got, exp)))
                if same:
                    n_ok += 1
                elif bad is None:
                    bad = (args, exp, got)
        except Split as sp:
            raise AnalysisError("DEX.%s: a test depends on an opaque value in the simulation (%s)" % (helper, str(sp.keys)[:80]))
        except Raised as r:
            raise AnalysisError("DEX.%s raises %s in the simulation" % (helper, r))
        n_helpers += 1
        ctx.count("lookup_helpers")
        ctx.check("lookup/sim", "DEX.%s" % helper, bad is None, f, "DEX.%s lookup semantics" % helper,
                  "DEX.%s%r returns %s; exactly the matching item(s) are %s (universe of %d methods / %d fields / %d classes with names that are "
                  "prefixes of each other, shared names, array dimensions)" % (
                      helper, bad[0] if bad else (), _describe(u, bad[2]) if bad else "", _describe(u, bad[1]) if bad else "",
                      len(METHODS), len(FIELDS), len(CLASSES)),
                  detail="%d/%d queries answered with exactly the matching items" % (n_ok, len(qs)))
    return n_helpers
