"""C15 -- string and class-usage cross-references are exact.

Decided by abstract execution on model DEX files (agstatic/xref_model.py): `Analysis.__init__`, `Analysis.add`,
`Analysis.create_xref` and everything they call are executed by the shared abstract interpreter (nothing of androguard
is imported or run) on small model DEX objects -- classes, methods, fields, aligned reference pools, instructions with
a concrete opcode, a reference index and a symbolic byte offset.  Then every public xref getter of every analysis
object (and the lookup API) is evaluated the same way and the complete state is compared with the state the property
prescribes for the model, computed independently from the Dalvik opcode table (agstatic/spec/dalvik.py).  Only computed
results are judged, so helper methods, generators, dispatch tables, getattr through name tables, equivalent opcode
tests, get-or-create idioms are all the same to the check; a VIOLATION is a positively computed difference (absent /
unexpected record in an exactly evaluated set, wrong number of analysis objects, the analysed code raises); whatever
the interpreter cannot evaluate is an analysis error (exit 2).

Scenarios for C15: F1 one instruction of every opcode -- only const-string(/jumbo) may produce string xrefs, only
new-instance / const-class the instantiation / class-reference records (each in its own list) and the mirrored
class-level records; F4 new-instance and const-class on another internal class, an external class, the class itself
(excluded) and repeated; F4a const-class on array types; F5 the same string loaded twice, by the jumbo form, and another
string; F6 user and used class in different DEX files.
"""
from __future__ import annotations

from ..model import ANALYSIS
from ..spec import dalvik
from ..xref_model import check_property
from ..xref_engine import (Engine, XrefModel, XrefRules, Collector, Mut, rule_ref_type_members, run_mutants,
                           m_swap_args, m_set_arg, m_set_receiver, m_rename_call, m_delete_call, m_const, m_replace_src, b_rename_local)

# the thorough tier runs its own in-memory mutation adequacy (MUTANTS / BENIGN below, via xref_engine.run_mutants)
OWN_MUTATION_ADEQUACY = True


def core(sink, eng):
    check_property(sink, eng.repo, "C15")
    sink.floor("scenarios", 4)
    sink.floor("prescribed_records", 100)



CX = "Analysis._create_xref"
MUTANTS = [
    Mut(ANALYSIS, CX, "const-string/jumbo not handled", m_const(0x1B, 0x1A)),
    Mut(ANALYSIS, CX, "check-cast treated as class usage", m_replace_src("op_value in [28, 34]", "op_value in [28, 31, 34]")),
    Mut(ANALYSIS, CX, "new-instance recorded as const-class", m_replace_src("if op_value == 34:", "if op_value == 28:")),
    Mut(ANALYSIS, CX, "self-reference guard removed", m_replace_src("if type_info == cur_cls_name:", "if False:")),
    Mut(ANALYSIS, CX, "class-side new-instance record dropped", m_delete_call("add_xref_new_instance", 1)),
    Mut(ANALYSIS, CX, "string xref from the target class", m_replace_src("self.strings[string_value].add_xref_from(cur_cls, cur_meth, off)", "self.strings[string_value].add_xref_from(cur_meth, cur_cls, off)")),
    Mut(ANALYSIS, CX, "string decoded from the type pool", m_replace_src("get_cm_string(instruction.get_ref_kind())", "get_cm_type(instruction.get_ref_kind())")),
    Mut(ANALYSIS, CX, "const-class offset is the type index", m_set_arg("add_xref_const_class", 1, "idx_type")),
    Mut(ANALYSIS, CX, "strings skipped for own-named class", m_replace_src("if string_value not in self.strings:", "if string_value == cur_cls_name:\n    continue\nif string_value not in self.strings:")),
    Mut(ANALYSIS, CX, "class xref_from without xref_to", m_delete_call("add_xref_to", 0)),
    Mut(ANALYSIS, "ClassAnalysis.add_xref_const_class", "recorder files const-class under new-instance", m_replace_src("self.xrefconstclass.add", "self.xrefnewinstance.add")),
    Mut(ANALYSIS, "StringAnalysis.add_xref_from", "recorder drops the offset", m_replace_src("(classobj, methodobj, off)", "(classobj, methodobj)")),
    Mut(ANALYSIS, "REF_TYPE", "REF_CLASS_USAGE renumbered", None),
]
MUTANTS = [m for m in MUTANTS if m.fn is not None]
BENIGN = [
    Mut(ANALYSIS, CX, "rename type_info", b_rename_local("type_info", "tname")),
    Mut(ANALYSIS, CX, "rename string_value", b_rename_local("string_value", "sv")),
    Mut(ANALYSIS, CX, "equivalent string test", m_replace_src("26 <= op_value <= 27", "op_value == 0x1A or op_value == 0x1B")),
    Mut(ANALYSIS, CX, "set literal in the class test", m_replace_src("op_value in [28, 34]", "op_value in {0x22, 0x1C}")),
    Mut(ANALYSIS, CX, "reorder const-class records", m_replace_src(
        "cur_meth.add_xref_const_class(oth_cls, off)\noth_cls.add_xref_const_class(cur_meth, off)",
        "oth_cls.add_xref_const_class(cur_meth, off)\ncur_meth.add_xref_const_class(oth_cls, off)")),
    Mut(ANALYSIS, CX, "negated self test", m_replace_src("if type_info == cur_cls_name:\ncontinue", "if not type_info != cur_cls_name:\n    continue")),
]


def run(ctx):
    ctx.explanation = __doc__
    ctx.mod(ANALYSIS)
    eng = Engine(ctx.repo)
    core(ctx, eng)
    # getter; recorder; getter sequences: an instance memo of a record container must be dropped by every recorder (agstatic/memo.py)
    from .. import memo
    for _c in ['ClassAnalysis', 'MethodAnalysis']:
        memo.check_class(ctx, ctx.mod(ANALYSIS), _c)
    ctx.note("not decided: equality of the xref sets with the instructions of concrete DEX files (run-time data)")
    if ctx.tier == "thorough":
        base = Collector()
        core(base, Engine(ctx.repo))
        run_mutants(ctx, ctx.repo, core, MUTANTS, BENIGN, base.keys())
