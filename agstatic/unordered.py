"""Unordered-iteration analysis (used by C22).

Three layers, all purely syntactic/abstract (nothing is executed):

1. `Pkg` -- a flow-insensitive, context-insensitive *type inference* over a
   set of modules (allocation-site abstraction for containers, class-based
   abstraction for instances).  A type is a frozenset of atoms:
   'int' (any number/bool), 'str' (str/bytes), 'none', 'top' (unknown),
   ('obj', Class), ('site', sid) (a list/set/dict/iterator allocation site),
   ('tup', (T0, T1, ...)), ('tupv', T).  Element types of container sites grow
   monotonically through every alias until a fixpoint is reached.
2. effect summaries of functions: which objects (self / a parameter / a free
   variable) receive *ordered* mutations (list.append ...), *keyed* mutations
   (set.add, d[k] = v ...) or attribute rebinding.
3. `classify(...)`: for every expression that may evaluate to a `set`, what the
   context does with it -- order-insensitive or order-sensitive.
"""
from __future__ import annotations

import ast

import networkx as nx

from .cfg import CFG
from .model import AnalysisError

TOP = frozenset(["top"])
INT = frozenset(["int"])
STR = frozenset(["str"])
NONE = frozenset(["none"])
BOT = frozenset()

MAX_DEPTH = 5


def _depth(t, d=0):
    m = d
    for a in t:
        if isinstance(a, tuple):
            if a[0] == "tup":
                for c in a[1]:
                    m = max(m, _depth(c, d + 1))
            elif a[0] == "tupv":
                m = max(m, _depth(a[1], d + 1))
    return m


def join(a, b):
    if not b:
        return a
    if not a:
        return b
    if a == b or b <= a:
        return a
    r = a | b
    tups = [x for x in r if isinstance(x, tuple) and x[0] in ("tup", "tupv")]
    if len(tups) > 1:
        by = {}
        var = None
        rest = [x for x in r if not (isinstance(x, tuple) and x[0] in ("tup", "tupv"))]
        for x in tups:
            if x[0] == "tupv":
                var = x[1] if var is None else join(var, x[1])
            else:
                k = len(x[1])
                if k in by:
                    by[k] = tuple(join(p, q) for p, q in zip(by[k], x[1]))
                else:
                    by[k] = x[1]
        if var is not None or len(by) > 2:
            for comps in by.values():
                for c in comps:
                    var = c if var is None else join(var, c)
            rest.append(("tupv", var if var is not None else BOT))
        else:
            for comps in by.values():
                rest.append(("tup", comps))
        r = frozenset(rest)
    if _depth(r) > MAX_DEPTH:
        return TOP
    return r


def joins(ts):
    r = BOT
    for t in ts:
        r = join(r, t)
    return r


def tup(*comps):
    return frozenset([("tup", tuple(comps))])


class Scope:
    def __init__(self, sid, kind, node, parent, relpath, cls, qualname):
        self.id = sid
        self.kind = kind  # 'module' | 'func' | 'lambda'
        self.node = node
        self.parent = parent
        self.relpath = relpath
        self.cls = cls  # class name for methods
        self.qualname = qualname
        self.bound = set()
        self.params = []
        self.vararg = None
        self.kwarg = None
        self.is_gen = False
        self.is_static = False
        self.is_property = False
        self.declared_free = set()

    def __repr__(self):
        return "<Scope %s:%s>" % (self.relpath, self.qualname)


class ClsInfo:
    def __init__(self, name, relpath, node):
        self.name = name
        self.relpath = relpath
        self.node = node
        self.bases = []
        self.methods = {}
        self.attrs = {}
        self.custom_hash = False


PURE_BUILTINS = {
    "len", "isinstance", "issubclass", "hasattr", "getattr", "min", "max", "any", "all", "sum", "abs", "int", "str",
    "repr", "bool", "float", "range", "enumerate", "zip", "sorted", "reversed", "list", "tuple", "set", "frozenset",
    "dict", "defaultdict", "iter", "next", "ord", "chr", "hex", "type", "id", "hash", "map", "filter", "format",
    "bytes", "bytearray", "round", "divmod", "callable", "super", "object", "OrderedDict", "deque", "print",
    "NotImplementedError", "RuntimeWarning", "ValueError", "TypeError", "KeyError", "IndexError", "Exception",
    "RuntimeError", "StopIteration", "AssertionError",
}

BUILTIN_TYPES = {"dict", "list", "set", "frozenset", "tuple", "str", "int", "float", "bytes", "bool", "object"}
LIST_ORDERED = {"append", "extend", "insert", "appendleft", "extendleft"}
KEYED_MUT = {"add", "discard", "update", "setdefault", "remove", "clear", "difference_update", "intersection_update",
             "symmetric_difference_update", "popitem", "sort", "reverse"}
SET_ALGEBRA = {"union", "intersection", "difference", "symmetric_difference", "copy"}
SET_PRED = {"issubset", "issuperset", "isdisjoint"}
STR_TO_STR = {"join", "format", "strip", "lstrip", "rstrip", "lower", "upper", "replace", "title", "capitalize",
              "zfill", "ljust", "rjust", "center", "decode", "encode", "format_map", "expandtabs", "swapcase",
              "casefold", "translate", "removeprefix", "removesuffix"}
STR_TO_INT = {"startswith", "endswith", "find", "rfind", "index", "rindex", "count", "isdigit", "isalpha",
              "isalnum", "isspace", "isupper", "islower", "isidentifier", "isnumeric", "isdecimal"}
STR_TO_LIST = {"split", "rsplit", "splitlines", "partition", "rpartition"}


BUILTIN_METHOD_NAMES = (STR_TO_STR | STR_TO_INT | STR_TO_LIST | LIST_ORDERED | KEYED_MUT | SET_ALGEBRA | SET_PRED
                        | {"pop", "get", "items", "keys", "values", "index", "count", "read", "write", "close", "seek", "tell"})


class ExtModel:
    """what the getters of the (not type-analysed) DEX object model hand out: for a method name, do the classes
    that define it return one of their own stored mutable containers (`return self.keys`) or a fresh value?"""

    def __init__(self, trees):
        self.classes = {}  # name -> (relpath, ClassDef)
        for rp, tree in trees.items():
            for n in tree.body:
                if isinstance(n, ast.ClassDef):
                    self.classes.setdefault(n.name, (rp, n))
        self.by_method = {}
        for cname, (rp, c) in self.classes.items():
            for m in c.body:
                if isinstance(m, (ast.FunctionDef, ast.AsyncFunctionDef)):
                    self.by_method.setdefault(m.name, []).append((cname, m))
        self._attr_kind = {}
        self._cache = {}

    def _mro(self, cname, seen=None):
        seen = seen if seen is not None else []
        if cname in seen or cname not in self.classes:
            return seen
        seen.append(cname)
        for b in self.classes[cname][1].bases:
            bn = b.id if isinstance(b, ast.Name) else (b.attr if isinstance(b, ast.Attribute) else None)
            if bn:
                self._mro(bn, seen)
        return seen

    def method(self, cname, name):
        for k in self._mro(cname):
            for m in self.classes[k][1].body:
                if isinstance(m, (ast.FunctionDef, ast.AsyncFunctionDef)) and m.name == name:
                    return k, m
        return None, None

    def attr_kind(self, cname, attr):
        """'list' | 'dict' | 'set' when the class provably stores such a container in self.<attr>, else None"""
        key = (cname, attr)
        if key in self._attr_kind:
            return self._attr_kind[key]
        kind = None
        other = False
        for k in self._mro(cname):
            for n in ast.walk(self.classes[k][1]):
                if isinstance(n, (ast.Assign, ast.AnnAssign)) and getattr(n, "value", None) is not None:
                    tg = n.targets if isinstance(n, ast.Assign) else [n.target]
                    for t in tg:
                        if isinstance(t, ast.Attribute) and t.attr == attr and isinstance(t.value, ast.Name) and t.value.id == "self":
                            v = n.value
                            if isinstance(v, (ast.List, ast.ListComp)) or (isinstance(v, ast.Call) and isinstance(v.func, ast.Name) and v.func.id in ("list", "sorted")):
                                kind = kind or "list"
                            elif isinstance(v, (ast.Dict, ast.DictComp)) or (isinstance(v, ast.Call) and isinstance(v.func, ast.Name) and v.func.id in ("dict", "defaultdict", "OrderedDict")):
                                kind = kind or "dict"
                            elif isinstance(v, (ast.Set, ast.SetComp)) or (isinstance(v, ast.Call) and isinstance(v.func, ast.Name) and v.func.id == "set"):
                                kind = kind or "set"
                            elif not (isinstance(v, ast.Constant) and v.value is None):
                                other = True
                elif isinstance(n, ast.Call) and isinstance(n.func, ast.Attribute) and n.func.attr in ("append", "extend", "insert") \
                        and isinstance(n.func.value, ast.Attribute) and n.func.value.attr == attr \
                        and isinstance(n.func.value.value, ast.Name) and n.func.value.value.id == "self":
                    kind = kind or "list"
        self._attr_kind[key] = kind
        return kind

    def returns(self, cname, fn, depth=0):
        """-> list of ('stored', class, attr, kind) | ('fresh',) | ('unknown',) for each return of fn"""
        out = []
        for n in ast.walk(fn):
            if isinstance(n, (ast.Yield, ast.YieldFrom)):
                return [("fresh",)]
        for n in ast.walk(fn):
            if not isinstance(n, ast.Return) or n.value is None:
                continue
            v = n.value
            if isinstance(v, ast.Attribute) and isinstance(v.value, ast.Name) and v.value.id == "self":
                k = self.attr_kind(cname, v.attr)
                out.append(("stored", cname, v.attr, k) if k else ("unknown",))
            elif isinstance(v, ast.Call) and isinstance(v.func, ast.Attribute) and isinstance(v.func.value, ast.Name) \
                    and v.func.value.id == "self" and not v.args and not v.keywords and depth < 3:
                k2, m2 = self.method(cname, v.func.attr)
                out += self.returns(cname, m2, depth + 1) if m2 is not None else [("unknown",)]
            elif isinstance(v, (ast.List, ast.ListComp, ast.Dict, ast.DictComp, ast.Set, ast.SetComp, ast.Tuple, ast.Constant, ast.JoinedStr,
                                ast.BinOp, ast.Compare, ast.BoolOp, ast.UnaryOp, ast.GeneratorExp)):
                out.append(("fresh",))
            elif isinstance(v, ast.Subscript) and isinstance(v.slice, ast.Slice):
                out.append(("fresh",))
            elif isinstance(v, ast.Call) and isinstance(v.func, ast.Name) and v.func.id in ("list", "sorted", "dict", "set", "tuple", "str", "int", "len", "bytes", "bytearray", "frozenset"):
                out.append(("fresh",))
            elif isinstance(v, ast.Call) and isinstance(v.func, ast.Attribute) and v.func.attr in ("copy", "format", "join", "decode", "encode"):
                out.append(("fresh",))
            else:
                out.append(("unknown",))
        return out or [("fresh",)]

    def getter(self, name):
        """summary over every class that defines method `name`: list of ('stored', class, attr, kind)"""
        r = self._cache.get(name)
        if r is None:
            r = []
            for cname, fn in self.by_method.get(name, ()):
                for x in self.returns(cname, fn):
                    if x[0] == "stored" and x not in r:
                        r.append(x)
            self._cache[name] = r
        return r


class Table(dict):
    """dict that records which scope read which key (dependency tracking for the worklist)."""

    def __init__(self, pkg, name):
        super().__init__()
        self.pkg = pkg
        self.name = name

    def get(self, key, default=None):
        cur = self.pkg._cur
        if cur is not None:
            self.pkg._deps.setdefault((self.name, key), set()).add(cur)
        return dict.get(self, key, default)


class Pkg:
    """type inference over `trees` (relpath -> ast.Module)."""

    def __init__(self, trees, dotted_of=None, closed_world=True, ext=None):
        self.trees = trees
        self.closed_world = closed_world
        self.ext = ext  # ExtModel of the object model outside the analysed package (or None)
        self.ext_sites = {}
        self.dotted = dotted_of or {rp: (rp[:-len("/__init__.py")] if rp.endswith("/__init__.py") else rp[:-3]).replace("/", ".") for rp in trees}
        self.by_dotted = {v: k for k, v in self.dotted.items()}
        self.scopes = {}
        self.scope_of_node = {}  # id(FunctionDef/Lambda/Module) -> Scope
        self.classes = {}
        self.modfuncs = {}  # (relpath, name) -> Scope
        self.imports = {}  # relpath -> {name: (dotted module, attr|None)}
        self.methods_by_name = {}
        self._cur = None
        self._deps = {}
        self._dirty = set()
        self._stmt = None
        self.trace = None  # set to {} to record where 'top' first entered a table entry
        self.env = Table(self, "env")
        self.ret = Table(self, "ret")
        self.yields = Table(self, "yields")
        self.attr = Table(self, "attr")
        self.attr_wild = Table(self, "wild")
        self.site_kind = {}
        self.elem = Table(self, "elem")
        self.val = Table(self, "val")
        self.unord = Table(self, "unord")  # list/iterator site -> element type of the set(s) whose iteration order it carries
        self.site_node = {}
        self.site_scope = {}
        self.changed = False
        self.passes = 0
        self._nscope = 0
        for rp, tree in trees.items():
            self._index_module(rp, tree)
        for c in self.classes.values():
            for m in c.methods:
                self.methods_by_name.setdefault(m, []).append(c.methods[m])
        self._sub = {}
        for c in self.classes.values():
            for b in c.bases:
                self._sub.setdefault(b, set()).add(c.name)
        self._mro_cache = {}
        self._rel_cache = {}
        self._root_cache = {}
        self._calls_by_name = {}
        for tree in trees.values():
            for n in ast.walk(tree):
                if isinstance(n, ast.Call):
                    nm = n.func.id if isinstance(n.func, ast.Name) else (n.func.attr if isinstance(n.func, ast.Attribute) else None)
                    if nm:
                        self._calls_by_name.setdefault(nm, []).append(n)
        self._desugared = {}
        self._cur_call = None
        self._cur_call_scope = None
        # names that occur as the callee of some call / as a plain value somewhere in the package
        self.called_names, self.value_names = set(), set()
        for tree in trees.values():
            for n in ast.walk(tree):
                if isinstance(n, ast.Call):
                    if isinstance(n.func, ast.Name):
                        self.called_names.add(n.func.id)
                    elif isinstance(n.func, ast.Attribute):
                        self.called_names.add(n.func.attr)
            for n in ast.walk(tree):
                if isinstance(n, ast.Name) and isinstance(n.ctx, ast.Load):
                    par = getattr(n, "_parent", None)
                    if not (isinstance(par, ast.Call) and par.func is n):
                        self.value_names.add(n.id)
                elif isinstance(n, ast.Attribute) and isinstance(n.ctx, ast.Load):
                    par = getattr(n, "_parent", None)
                    if not (isinstance(par, ast.Call) and par.func is n):
                        self.value_names.add(n.attr)

    # ------------------------------------------------------------------ index
    def _new_scope(self, kind, node, parent, relpath, cls, qualname):
        self._nscope += 1
        s = Scope(self._nscope, kind, node, parent, relpath, cls, qualname)
        self.scopes[s.id] = s
        self.scope_of_node[id(node)] = s
        return s

    def _index_module(self, rp, tree):
        for par in ast.walk(tree):
            for ch in ast.iter_child_nodes(par):
                ch._parent = par
        tree._parent = None
        ms = self._new_scope("module", tree, None, rp, None, "<module>")
        self.imports[rp] = {}
        self._module_scope = getattr(self, "_module_scope", {})
        self._module_scope[rp] = ms
        self._index_body(tree.body, ms, rp, None, "")
        self._collect_bound(ms)

    def _index_body(self, body, sc, rp, cls, prefix):
        for n in body:
            self._index_stmt(n, sc, rp, cls, prefix)

    def _index_stmt(self, n, sc, rp, cls, prefix):
        if isinstance(n, (ast.FunctionDef, ast.AsyncFunctionDef)):
            self._index_func(n, sc, rp, cls, prefix)
        elif isinstance(n, ast.ClassDef):
            if sc.kind == "module":
                ci = self.classes.get(n.name)
                if ci is None:
                    ci = ClsInfo(n.name, rp, n)
                    self.classes[n.name] = ci
                for b in n.bases:
                    if isinstance(b, ast.Name):
                        ci.bases.append(b.id)
                    elif isinstance(b, ast.Attribute):
                        ci.bases.append(b.attr)
                for m in n.body:
                    if isinstance(m, (ast.FunctionDef, ast.AsyncFunctionDef)):
                        fs = self._index_func(m, sc, rp, n.name, n.name + ".")
                        ci.methods[m.name] = fs
                        if m.name in ("__hash__", "__eq__"):
                            ci.custom_hash = True
                    elif isinstance(m, ast.Assign):
                        for t in m.targets:
                            if isinstance(t, ast.Name):
                                ci.attrs[t.id] = m.value
                                if t.id in ("__hash__", "__eq__"):
                                    ci.custom_hash = True
                    elif isinstance(m, ast.AnnAssign) and isinstance(m.target, ast.Name) and m.value is not None:
                        ci.attrs[m.target.id] = m.value
                for k in n.keywords:
                    if k.arg == "metaclass":
                        ci.metaclass = True
            # nested classes inside functions: not modelled (instances are 'top')
        elif isinstance(n, ast.Import):
            for a in n.names:
                if a.asname:
                    self.imports[rp][a.asname] = (a.name, None)
                else:
                    self.imports[rp][a.name.split(".")[0]] = (a.name.split(".")[0], None)
        elif isinstance(n, ast.ImportFrom):
            base = n.module or ""
            if n.level:
                pk = self.dotted[rp].split(".")
                pk = pk[: len(pk) - n.level]
                base = ".".join(pk + ([n.module] if n.module else []))
            for a in n.names:
                self.imports[rp][a.asname or a.name] = (base, a.name)
        elif isinstance(n, (ast.If, ast.Try, ast.With, ast.For, ast.While)):
            for sub in ast.iter_child_nodes(n):
                if isinstance(sub, ast.stmt):
                    self._index_stmt(sub, sc, rp, cls, prefix)
                elif isinstance(sub, ast.ExceptHandler):
                    for s2 in sub.body:
                        self._index_stmt(s2, sc, rp, cls, prefix)
        # lambdas anywhere in this statement (not inside nested defs -- those are indexed with their def)
        if not isinstance(n, (ast.FunctionDef, ast.AsyncFunctionDef, ast.ClassDef)):
            self._index_lambdas(n, sc, rp, cls, prefix)

    def _index_lambdas(self, n, sc, rp, cls, prefix):
        stack = [n]
        while stack:
            x = stack.pop()
            for ch in ast.iter_child_nodes(x):
                if isinstance(ch, (ast.FunctionDef, ast.AsyncFunctionDef, ast.ClassDef)):
                    continue
                if isinstance(ch, ast.stmt) and ch is not n:
                    # nested statements are indexed by _index_stmt for compound statements of interest,
                    # but statements inside other compound bodies (e.g. while inside for) need lambdas too
                    pass
                if isinstance(ch, ast.Lambda):
                    ls = self._new_scope("lambda", ch, sc, rp, cls, prefix + "<lambda>")
                    self._set_params(ls, ch.args)
                    self._index_lambdas(ch.body, ls, rp, cls, prefix)
                    if isinstance(ch.body, ast.Lambda):
                        pass
                    continue
                stack.append(ch)

    def _set_params(self, fs, a):
        fs.params = [x.arg for x in a.posonlyargs + a.args]
        fs.kwonly = [x.arg for x in a.kwonlyargs]
        fs.vararg = a.vararg.arg if a.vararg else None
        fs.kwarg = a.kwarg.arg if a.kwarg else None
        fs.bound.update(fs.params)
        fs.bound.update(fs.kwonly)
        if fs.vararg:
            fs.bound.add(fs.vararg)
        if fs.kwarg:
            fs.bound.add(fs.kwarg)

    def _index_func(self, n, sc, rp, cls, prefix):
        qn = prefix + n.name
        fs = self._new_scope("func", n, sc, rp, cls if sc.kind == "module" else sc.cls, qn)
        fs.defcls = cls if sc.kind == "module" else None  # class whose body directly contains the def
        self._set_params(fs, n.args)
        for d in n.decorator_list:
            ds = ast.unparse(d)
            if ds == "staticmethod":
                fs.is_static = True
            elif ds == "classmethod":
                fs.is_classmethod = True
            elif ds == "property":
                fs.is_property = True
            elif ds.endswith(".setter"):
                fs.is_setter = True
        if sc.kind == "module" and cls is None:
            self.modfuncs[(rp, n.name)] = fs
        fs.nested = {}
        # body: nested defs, lambdas
        stack = list(n.body)
        while stack:
            x = stack.pop()
            if isinstance(x, (ast.FunctionDef, ast.AsyncFunctionDef)):
                sub = self._index_func(x, fs, rp, None, qn + ".")
                fs.nested[x.name] = sub
                continue
            if isinstance(x, ast.ClassDef):
                continue
            if isinstance(x, ast.Lambda):
                ls = self._new_scope("lambda", x, fs, rp, fs.cls, qn + ".<lambda>")
                self._set_params(ls, x.args)
                self._index_lambdas(x.body, ls, rp, fs.cls, qn + ".")
                continue
            if isinstance(x, (ast.Yield, ast.YieldFrom)):
                fs.is_gen = True
            stack.extend(ast.iter_child_nodes(x))
        self._collect_bound(fs)
        return fs

    def _collect_bound(self, sc):
        body = sc.node.body if not isinstance(sc.node, ast.Lambda) else []
        stack = list(body)
        while stack:
            x = stack.pop()
            if isinstance(x, (ast.FunctionDef, ast.AsyncFunctionDef, ast.ClassDef)):
                sc.bound.add(x.name)
                continue
            if isinstance(x, ast.Lambda):
                continue
            if isinstance(x, ast.Name) and isinstance(x.ctx, (ast.Store, ast.Del)):
                sc.bound.add(x.id)
            elif isinstance(x, (ast.Global, ast.Nonlocal)):
                sc.declared_free.update(x.names)
            elif isinstance(x, (ast.Import, ast.ImportFrom)):
                for a in x.names:
                    sc.bound.add(a.asname or a.name.split(".")[0])
            elif isinstance(x, ast.ExceptHandler) and x.name:
                sc.bound.add(x.name)
            stack.extend(ast.iter_child_nodes(x))
        sc.bound -= sc.declared_free

    # ------------------------------------------------------------ class tools
    def mro(self, name):
        r = self._mro_cache.get(name)
        if r is None:
            r, seen = [], set()

            def walk(c):
                if c in seen:
                    return
                seen.add(c)
                r.append(c)
                ci = self.classes.get(c)
                if ci:
                    for b in ci.bases:
                        walk(b)

            walk(name)
            self._mro_cache[name] = r
        return r

    def descendants(self, name):
        out, stack = set(), [name]
        while stack:
            c = stack.pop()
            for d in self._sub.get(c, ()):
                if d not in out:
                    out.add(d)
                    stack.append(d)
        return out

    def related(self, name):
        r = self._rel_cache.get(name)
        if r is None:
            r = list(self.mro(name))
            for d in sorted(self.descendants(name)):
                for k in self.mro(d):
                    if k not in r:
                        r.append(k)
            self._rel_cache[name] = r
        return r

    def narrow_self(self, f, atom):
        """receiver atom ('obj', C) dispatched to method f defined in class D: if D is a proper
        descendant of C the instance is a D (or below), not any C"""
        d = getattr(f, "defcls", None)
        if d and d != atom[1] and atom[1] in self.mro(d):
            return frozenset([("obj", d)])
        return frozenset([atom])

    def closed_class(self, cname):
        """every class related to cname is defined in the package, without metaclass"""
        for k in self.related(cname):
            ci = self.classes.get(k)
            if ci is None:
                if k != "object":
                    return False
            elif getattr(ci, "metaclass", False):
                return False
        return True

    def lookup_method(self, cname, m, after=None):
        """definers of method m visible from an instance whose static class is cname
        (own MRO first definer + overrides in descendants)."""
        out = []
        mro = self.mro(cname)
        if after is not None:
            mro = mro[mro.index(after) + 1:] if after in mro else []
        for k in mro:
            ci = self.classes.get(k)
            if ci and m in ci.methods:
                out.append(ci.methods[m])
                break
        if after is None:
            for d in sorted(self.descendants(cname)):
                ci = self.classes.get(d)
                if ci and m in ci.methods and ci.methods[m] not in out:
                    out.append(ci.methods[m])
        return out

    # ------------------------------------------------------------------ tables
    def root_class(self, cname):
        r = self._root_cache.get(cname)
        if r is None:
            r = cname
            for k in self.mro(cname):
                if k in self.classes:
                    r = k
            # single-inheritance chains only: otherwise keep the class itself
            ci = self.classes.get(cname)
            if ci is None or any(len(self.classes[k].bases) > 1 for k in self.mro(cname) if k in self.classes):
                r = cname
            self._root_cache[cname] = r
        return r

    def widen(self, t):
        """more than 6 instance atoms: replace each class by the root of its (package) hierarchy --
        sound because attribute/method lookup on ('obj', C) already covers every descendant of C."""
        objs = [a for a in t if isinstance(a, tuple) and a[0] == "obj"]
        if len(objs) <= 1:
            return t
        if len(objs) > 6:
            return frozenset(a for a in t if a not in objs) | frozenset(("obj", self.root_class(a[1])) for a in objs)
        # absorption: a class whose hierarchy root is already present adds nothing
        drop = [a for a in objs if self.root_class(a[1]) != a[1] and ("obj", self.root_class(a[1])) in t]
        return t - frozenset(drop) if drop else t

    def upd(self, table, key, t):
        if not t:
            return
        old = dict.get(table, key, BOT)
        new = self.widen(join(old, t))
        if new != old:
            table[key] = new
            self.changed = True
            d = self._deps.get((table.name, key))
            if d:
                self._dirty |= d
            if table.name == "attr":
                d = self._deps.get(("attrname", key[1]))
                if d:
                    self._dirty |= d
            if self.trace is not None and "top" in new and "top" not in old:
                self.trace[(table.name, key)] = (self.scopes[self._cur].qualname if self._cur else None,
                                                 getattr(self._stmt, "lineno", None))

    def new_site(self, node, kind, sc, tag=""):
        spec = getattr(sc, "spec", None)
        if spec:
            tag += "@" + ",".join("%s=%s" % kv for kv in sorted(spec.items()))  # sites of an analysis clone are its own
        sid = (sc.relpath, getattr(node, "lineno", 0), getattr(node, "col_offset", 0), kind + tag)
        if sid not in self.site_kind:
            self.site_kind[sid] = kind
            self.site_node[sid] = node
            self.site_scope[sid] = sc
            self.changed = True
        return sid

    def site_ty(self, sid):
        return frozenset([("site", sid)])

    def sites(self, t, kind=None):
        return [a[1] for a in t if isinstance(a, tuple) and a[0] == "site" and (kind is None or self.site_kind[a[1]] == kind)]

    def elem_of(self, t):
        """type of the elements produced by iterating a value of type t"""
        r = BOT
        for a in t:
            if a == "top":
                r = join(r, TOP)
            elif a == "str":
                r = join(r, STR)
            elif isinstance(a, tuple):
                if a[0] == "site":
                    r = join(r, self.elem.get(a[1], BOT))
                elif a[0] == "tup":
                    r = joins([r] + list(a[1]))
                elif a[0] == "tupv":
                    r = join(r, a[1])
                elif a[0] == "obj":
                    for f in self.lookup_method(a[1], "__iter__"):
                        r = join(r, self.elem_of(self.ret_of(f)))
                    if a[1] not in self.classes:
                        r = join(r, TOP)
        return r

    def loop_order(self, n, sc):
        """order source of the for-loops (over sets / sequences in set order) that syntactically enclose n"""
        r = BOT
        p = getattr(n, "_parent", None)
        while p is not None and not isinstance(p, (ast.FunctionDef, ast.AsyncFunctionDef, ast.Lambda, ast.Module)):
            if isinstance(p, (ast.For, ast.AsyncFor)):
                r = join(r, self.order_source(self.ev(p.iter, sc)))
            p = getattr(p, "_parent", None)
        return r

    def order_source(self, t):
        """element type of the sets whose iteration order a value of type t carries (bottom: none)"""
        r = BOT
        for sid in self.sites(t):
            if self.site_kind[sid] == "set":
                r = join(r, self.elem.get(sid, BOT))
            else:
                r = join(r, self.unord.get(sid, BOT))
        return r

    def carry(self, sid, *types):
        for t in types:
            self.upd(self.unord, sid, self.order_source(t))

    def ret_of(self, fs):
        if fs.is_gen:
            sid = self.new_site(fs.node, "iter", fs, "gen")
            self.upd(self.elem, sid, self.yields.get(fs.id, BOT))
            return self.site_ty(sid)
        return self.ret.get(fs.id, BOT)

    # ------------------------------------------------------------- name lookup
    def lookup(self, name, sc):
        s = sc
        while s is not None:
            if name in s.bound:
                if s.kind != "module":
                    nested = getattr(s, "nested", {})
                    if name in nested and not self.env.get((s.id, name)):
                        return frozenset([("func", nested[name].id)])
                    return self.env.get((s.id, name), BOT)
                break
            s = s.parent
        # module level
        ms = self._module_scope[sc.relpath]
        r = self.resolve_global(name, ms.relpath)
        if r is not None:
            return r
        if name in ms.bound:
            return self.env.get((ms.id, name), BOT)
        if name in ("True", "False"):
            return INT
        return TOP

    def resolve_global(self, name, rp, _seen=None):
        """package function / class / module referenced by a global name -> marker type, else None"""
        if (rp, name) in self.modfuncs:
            return frozenset([("func", self.modfuncs[(rp, name)].id)])
        if name in self.classes and self.classes[name].relpath == rp:
            return frozenset([("cls", name)])
        imp = self.imports.get(rp, {}).get(name)
        if imp is not None:
            mod, attr = imp
            if attr is None:
                if mod in self.by_dotted:
                    return frozenset([("mod", self.by_dotted[mod])])
                return TOP
            if mod + "." + attr in self.by_dotted:
                return frozenset([("mod", self.by_dotted[mod + "." + attr])])
            if mod in self.by_dotted:
                _seen = _seen or set()
                if (mod, attr) in _seen:
                    return TOP
                _seen.add((mod, attr))
                rp2 = self.by_dotted[mod]
                r = self.resolve_global(attr, rp2, _seen)
                if r is not None:
                    return r
                ms = self._module_scope[rp2]
                if attr in ms.bound:
                    return self.env.get((ms.id, attr), BOT)
                return TOP
            return TOP
        return None

    # ------------------------------------------------------------------ attrs
    def attr_of_class(self, cname, a):
        if cname not in self.classes:
            return TOP
        r = BOT
        known = False
        for k in self.related(cname):
            t = self.attr.get((k, a))
            if t is not None:
                r = join(r, t)
                known = True
            ci = self.classes.get(k)
            if ci is None:
                r = join(r, TOP)  # external base class
                continue
            if a in ci.attrs:
                known = True
                r = join(r, self.ev(ci.attrs[a], self._module_scope[ci.relpath]))
            m = ci.methods.get(a)
            if m is not None:
                known = True
                if m.is_property:
                    r = join(r, self.ret_of(m))
                elif not getattr(m, "is_setter", False):
                    r = join(r, frozenset([("func", m.id)]))
            if getattr(ci, "metaclass", False):
                r = join(r, TOP)
        r = join(r, self.attr_wild.get(a, BOT))
        if not known and not r:
            return TOP
        return r

    def attr_by_name(self, a):
        r = BOT
        known = False
        if self._cur is not None:
            self._deps.setdefault(("attrname", a), set()).add(self._cur)
        for (k, an), t in self.attr.items():
            if an == a:
                r = join(r, t)
                known = True
        for ci in self.classes.values():
            if a in ci.attrs:
                r = join(r, self.ev(ci.attrs[a], self._module_scope[ci.relpath]))
                known = True
            m = ci.methods.get(a)
            if m is not None and m.is_property:
                r = join(r, self.ret_of(m))
                known = True
        w = self.attr_wild.get(a, BOT)
        if w:
            known = True
        r = join(r, w)
        if not known or not self.closed_world:
            r = join(r, TOP)
        return r

    def load_attr(self, t, a):
        r = BOT
        unknown = False
        for x in t:
            if x == "top":
                unknown = True
            elif isinstance(x, tuple) and x[0] == "obj":
                r = join(r, self.attr_of_class(x[1], a))
            elif isinstance(x, tuple) and x[0] == "mod":
                g = self.resolve_global(a, x[1])
                if g is None:
                    ms = self._module_scope[x[1]]
                    g = self.env.get((ms.id, a), BOT) if a in ms.bound else TOP
                r = join(r, g)
            elif x == "none":
                pass
            elif x in ("int", "str"):
                r = join(r, TOP)
            elif isinstance(x, tuple) and x[0] in ("site", "tup", "tupv", "func", "cls"):
                r = join(r, TOP)
        if unknown:
            r = join(r, self.attr_by_name(a))
        return r

    def store_attr(self, t, a, v):
        unknown = False
        for x in t:
            if x == "top":
                unknown = True
            elif isinstance(x, tuple) and x[0] == "obj":
                if x[1] in self.classes:
                    self.upd(self.attr, (x[1], a), v)
        if unknown:
            self.upd(self.attr_wild, a, v)

    # ------------------------------------------------------------------- calls
    def bind_call(self, fs, pos, kws, self_t=None, star=False):
        params = list(fs.params)
        if params and (self_t is not None or (getattr(fs, "defcls", None) and not fs.is_static)):
            if self_t is not None:
                self.upd(self.env, (fs.id, params[0]), self_t)
            params = params[1:]
        for p, t in zip(params, pos):
            self.upd(self.env, (fs.id, p), t if t else BOT)
        if len(pos) > len(params) and fs.vararg:
            self.upd(self.env, (fs.id, fs.vararg), TOP)
        for k, t in kws.items():
            if k is None:
                continue
            if k in fs.params or k in getattr(fs, "kwonly", ()):
                self.upd(self.env, (fs.id, k), t)
        if star:
            for p in params[len(pos):]:
                self.upd(self.env, (fs.id, p), TOP)

    def name_params(self, fs):
        """parameters of fs that are used as the attribute name of a getattr() in its body"""
        r = getattr(fs, "_name_params", None)
        if r is None:
            r = []
            if fs.kind == "func":
                for x in ast.walk(fs.node):
                    if isinstance(x, ast.Call) and isinstance(x.func, ast.Name) and x.func.id == "getattr" and len(x.args) >= 2 \
                            and isinstance(x.args[1], ast.Name) and x.args[1].id in fs.params and x.args[1].id not in r:
                        r.append(x.args[1].id)
            fs._name_params = r
        return r

    def specialise(self, fs):
        """polyvariance for 'call the method whose name is passed in' helpers: one analysis clone of fs per constant
        value of its name parameters (otherwise results of unrelated getters would be merged)"""
        nps = self.name_params(fs)
        c = self._cur_call
        if not nps or c is None or getattr(fs, "spec", None):
            return fs
        ps = list(fs.params)
        if getattr(fs, "defcls", None) and not fs.is_static and ps:
            ps = ps[1:]
        spec = []
        csc = self.scope_of_expr(c)
        for p in nps:
            arg = None
            if p in ps:
                i = ps.index(p)
                if i < len(c.args) and not any(isinstance(x, ast.Starred) for x in c.args[: i + 1]):
                    arg = c.args[i]
            for k in c.keywords:
                if k.arg == p:
                    arg = k.value
            vals = self.const_strings(arg, self._cur_call_scope or csc) if arg is not None else None
            if not vals or len(vals) != 1:
                return fs
            spec.append((p, next(iter(vals))))
        key = tuple(spec)
        clones = fs.__dict__.setdefault("clones", {})
        cl = clones.get(key)
        if cl is None:
            self._nscope += 1
            cl = Scope(self._nscope, fs.kind, fs.node, fs.parent, fs.relpath, fs.cls, fs.qualname)
            for a in ("bound", "params", "vararg", "kwarg", "is_gen", "is_static", "is_property", "declared_free"):
                setattr(cl, a, getattr(fs, a))
            for a in ("kwonly", "defcls", "nested", "is_classmethod", "is_setter"):
                if hasattr(fs, a):
                    setattr(cl, a, getattr(fs, a))
            cl.spec = dict(spec)
            cl._name_params = nps
            clones[key] = cl
            self.scopes[cl.id] = cl
            self._dirty.add(cl.id)
            self.changed = True
        return cl

    def call_scope(self, fs, pos, kws, self_t=None, star=False):
        fs = self.specialise(fs)
        self.bind_call(fs, pos, kws, self_t, star)
        return self.ret_of(fs)

    def instantiate(self, cname, pos, kws, star=False):
        me = frozenset([("obj", cname)])
        for f in self.lookup_method(cname, "__init__")[:1]:
            self.bind_call(f, pos, kws, me, star)
        return me

    # ---- dynamic attribute access with statically known names -------------------------------
    def const_strings(self, e, sc, _d=0):
        """the set of string constants an expression can evaluate to, or None if unknown.
        Parameters are resolved through every call of the function inside the package."""
        if _d > 3:
            return None
        if isinstance(e, ast.Constant):
            return {e.value} if isinstance(e.value, str) else None
        if isinstance(e, ast.IfExp):
            a, b = self.const_strings(e.body, sc, _d + 1), self.const_strings(e.orelse, sc, _d + 1)
            return a | b if a is not None and b is not None else None
        if isinstance(e, ast.Name):
            fs = sc
            while fs is not None and fs.kind == "lambda" and e.id not in fs.bound:
                fs = fs.parent
            spec = getattr(fs, "spec", None) if fs is not None else None
            if spec and e.id in spec:
                return {spec[e.id]}
            if fs is not None and fs.kind in ("func", "lambda") and e.id in fs.params:
                # must not be re-assigned inside the function
                for x in ast.walk(fs.node):
                    if isinstance(x, ast.Name) and x.id == e.id and isinstance(x.ctx, ast.Store):
                        return None
                if fs.kind != "func":
                    return None
                ps = list(fs.params)
                if getattr(fs, "defcls", None) and not fs.is_static and ps:
                    ps = ps[1:]
                if e.id not in ps:
                    return None
                i = ps.index(e.id)
                out = set()
                a = fs.node.args
                pos = a.posonlyargs + a.args
                dflt = dict(zip([x.arg for x in pos[len(pos) - len(a.defaults):]], a.defaults))
                calls = self._calls_by_name.get(fs.node.name, [])
                if not calls or fs.node.name in self.value_names:
                    return None
                for c in calls:
                    arg = None
                    if i < len(c.args) and not any(isinstance(x, ast.Starred) for x in c.args[: i + 1]):
                        arg = c.args[i]
                    for k in c.keywords:
                        if k.arg == e.id:
                            arg = k.value
                        if k.arg is None:
                            return None
                    if arg is None:
                        arg = dflt.get(e.id)
                    if arg is None:
                        return None
                    csc = self.scope_of_expr(c)
                    r = self.const_strings(arg, csc, _d + 1) if csc is not None else None
                    if r is None:
                        return None
                    out |= r
                return out
            ms = self._module_scope[sc.relpath]
            owner = self.owner_scope(e.id, sc)
            if owner is ms:
                vals = [st.value for st in ms.node.body if isinstance(st, ast.Assign)
                        and any(isinstance(t, ast.Name) and t.id == e.id for t in st.targets)]
                if len(vals) == 1:
                    return self.const_strings(vals[0], ms, _d + 1)
        return None

    def scope_of_expr(self, n):
        p = n
        while p is not None:
            s = self.scope_of_node.get(id(p))
            if s is not None and (isinstance(p, (ast.FunctionDef, ast.AsyncFunctionDef, ast.Lambda, ast.Module))):
                return s
            p = getattr(p, "_parent", None)
        return None

    def desugar(self, n, sc):
        """`getattr(recv, NAME)(args)` with NAME one of a known set of constants -> [recv.n1(args), recv.n2(args), ...]"""
        f = n.func
        if not (isinstance(f, ast.Call) and isinstance(f.func, ast.Name) and f.func.id == "getattr" and len(f.args) == 2
                and not f.keywords and self.lookup("getattr", sc) == TOP):
            return None
        key = (id(n), sc.id)
        if key in self._desugared:
            return self._desugared[key]
        names = self.const_strings(f.args[1], sc)
        out = None
        if names:
            out = []
            for nm in sorted(names):
                attr = ast.Attribute(value=f.args[0], attr=nm, ctx=ast.Load())
                call = ast.Call(func=attr, args=n.args, keywords=n.keywords)
                for x in (attr, call):
                    ast.copy_location(x, n)
                attr._parent = call
                call._parent = getattr(n, "_parent", None)
                out.append(call)
        self._desugared[key] = out
        return out

    def callees(self, n, sc):
        """package scopes a call may invoke: list of (Scope, receiver expr|None, bind_self: bool)"""
        ds = self.desugar(n, sc)
        if ds:
            out = []
            for c in ds:
                for x in self.callees(c, sc):
                    if not any(x[0] is y[0] for y in out):
                        out.append(x)
            return out
        f = n.func
        out = []
        if isinstance(f, ast.Name):
            t = self.lookup(f.id, sc)
            for a in t:
                if isinstance(a, tuple) and a[0] == "func":
                    out.append((self.scopes[a[1]], None, False))
                elif isinstance(a, tuple) and a[0] == "cls":
                    for i in self.lookup_method(a[1], "__init__")[:1]:
                        out.append((i, None, "ctor"))
        elif isinstance(f, ast.Attribute):
            if isinstance(f.value, ast.Call) and isinstance(f.value.func, ast.Name) and f.value.func.id == "super":
                cur = self._method_scope(sc)
                if cur is not None and cur.cls:
                    for m in self.lookup_method(cur.cls, f.attr, after=cur.cls):
                        out.append((m, "super", True))
                return out
            rt = self.ev(f.value, sc)
            unknown = False
            for a in sorted(rt, key=repr):
                if a == "top":
                    unknown = True
                elif isinstance(a, tuple) and a[0] == "obj":
                    ms = self.lookup_method(a[1], f.attr)
                    for m in ms:
                        if (m, f.value, True) not in out:
                            out.append((m, f.value, not m.is_static))
                    if a[1] not in self.classes:
                        unknown = True
                elif isinstance(a, tuple) and a[0] == "mod":
                    g = self.resolve_global(f.attr, a[1])
                    for b in g or ():
                        if isinstance(b, tuple) and b[0] == "func":
                            out.append((self.scopes[b[1]], None, False))
                        elif isinstance(b, tuple) and b[0] == "cls":
                            for i in self.lookup_method(b[1], "__init__")[:1]:
                                out.append((i, None, "ctor"))
                elif isinstance(a, tuple) and a[0] == "cls":
                    ms = self.lookup_method(a[1], f.attr)
                    for m in ms[:1]:
                        out.append((m, None, False))
            if unknown and not self.sites(rt):
                for m in self.methods_by_name.get(f.attr, ()):
                    if not any(o[0] is m for o in out):
                        out.append((m, f.value, not m.is_static))
        return out

    def _method_scope(self, sc):
        s = sc
        while s is not None and s.kind != "module":
            if s.kind == "func" and getattr(s, "defcls", None):
                return s
            s = s.parent
        return None

    def self_type(self, sc):
        m = self._method_scope(sc)
        if m is None or not m.params:
            return BOT
        return self.env.get((m.id, m.params[0]), BOT)

    def ev_call(self, n, sc):
        ds = self.desugar(n, sc)
        if ds:
            return joins([self.ev_call(c, sc) for c in ds])
        prev = (self._cur_call, self._cur_call_scope)
        try:
            return self._ev_call(n, sc)
        finally:
            self._cur_call, self._cur_call_scope = prev

    def _ev_call(self, n, sc):
        f = n.func
        pos, star = [], False
        for a in n.args:
            if isinstance(a, ast.Starred):
                star = True
                self.ev(a.value, sc)
            else:
                pos.append(self.ev(a, sc))
        kws = {}
        for k in n.keywords:
            kws[k.arg] = self.ev(k.value, sc)
            if k.arg is None:
                star = True
        self._cur_call, self._cur_call_scope = n, sc
        if isinstance(f, ast.Name):
            t = self.lookup(f.id, sc)
            marker = [a for a in t if isinstance(a, tuple) and a[0] in ("func", "cls")]
            if marker:
                r = BOT
                for a in marker:
                    if a[0] == "func":
                        r = join(r, self.call_scope(self.scopes[a[1]], pos, kws, None, star))
                    else:
                        r = join(r, self.instantiate(a[1], pos, kws, star))
                if "top" in t:
                    r = join(r, TOP)
                return r
            if not t:
                return BOT  # no value reaches this name (yet)
            if t == TOP:
                return self.builtin_call(f.id, n, pos, kws, sc)
            return TOP
        if isinstance(f, ast.Attribute):
            if isinstance(f.value, ast.Call) and isinstance(f.value.func, ast.Name) and f.value.func.id == "super":
                cur = self._method_scope(sc)
                r = BOT
                if cur is not None and cur.cls:
                    ms = self.lookup_method(cur.cls, f.attr, after=cur.cls)
                    for m in ms:
                        r = join(r, self.call_scope(m, pos, kws, self.self_type(sc), star))
                    if not ms:
                        r = TOP
                else:
                    r = TOP
                return r
            if isinstance(f.value, ast.Name) and f.value.id in BUILTIN_TYPES and self.lookup(f.value.id, sc) == TOP:
                if f.value.id == "dict" and f.attr == "fromkeys":
                    sid = self.new_site(n, "dict", sc, "fromkeys")
                    self.upd(self.elem, sid, self.elem_of(pos[0] if pos else BOT))
                    self.upd(self.val, sid, pos[1] if len(pos) > 1 else NONE)
                    return self.site_ty(sid)
                if f.value.id == "str":
                    return STR
                if f.value.id in ("int", "float"):
                    return INT
                return TOP
            rt = self.ev(f.value, sc)
            return self.method_call(rt, f.attr, n, pos, kws, sc, star)
        self.ev(f, sc)
        return TOP

    def method_call(self, rt, m, n, pos, kws, sc, star=False):
        r = BOT
        unknown = False
        a0 = pos[0] if pos else BOT
        for a in rt:
            if a == "top":
                unknown = True
            elif a == "str":
                if m in STR_TO_STR:
                    r = join(r, STR)
                elif m in STR_TO_INT:
                    r = join(r, INT)
                elif m in STR_TO_LIST:
                    sid = self.new_site(n, "list", sc, "split")
                    self.upd(self.elem, sid, STR)
                    r = join(r, self.site_ty(sid))
                else:
                    r = join(r, TOP)
            elif a in ("int", "none"):
                if a == "int":
                    r = join(r, INT)
            elif isinstance(a, tuple) and a[0] == "site":
                r = join(r, self.container_call(a[1], m, n, pos, kws, sc))
            elif isinstance(a, tuple) and a[0] == "obj":
                ms = self.lookup_method(a[1], m)
                for f in ms:
                    r = join(r, self.call_scope(f, pos, kws, None if f.is_static else self.narrow_self(f, a), star))
                if not ms:
                    if a[1] not in self.classes:
                        unknown = True
                    elif not self.closed_class(a[1]) or any((k, m) in self.attr for k in self.related(a[1])) or m in self.attr_wild:
                        r = join(r, TOP)  # callable attribute / external base class
                    # else: no such method anywhere in a closed hierarchy -> the call raises: no value
            elif isinstance(a, tuple) and a[0] == "mod":
                g = self.resolve_global(m, a[1])
                got = False
                for b in g or ():
                    if isinstance(b, tuple) and b[0] == "func":
                        r = join(r, self.call_scope(self.scopes[b[1]], pos, kws, None, star))
                        got = True
                    elif isinstance(b, tuple) and b[0] == "cls":
                        r = join(r, self.instantiate(b[1], pos, kws, star))
                        got = True
                if not got:
                    r = join(r, TOP)
            elif isinstance(a, tuple) and a[0] == "cls":
                ms = self.lookup_method(a[1], m)
                for f in ms[:1]:
                    if f.is_static or getattr(f, "is_classmethod", False):
                        r = join(r, self.call_scope(f, pos, kws, frozenset([a]) if getattr(f, "is_classmethod", False) else None, star))
                    else:
                        r = join(r, self.call_scope(f, pos[1:], kws, pos[0] if pos else BOT, star))
                if not ms:
                    r = join(r, TOP)
            elif isinstance(a, tuple) and a[0] in ("tup", "tupv"):
                r = join(r, INT if m in ("index", "count") else TOP)
            else:
                r = join(r, TOP)
        if unknown:
            defs = self.methods_by_name.get(m, ()) if not self.sites(rt) else ()
            for f in defs:
                r = join(r, self.call_scope(f, pos, kws, None, star))
            if not defs and self.ext is not None and not self.sites(rt) and m not in BUILTIN_METHOD_NAMES:
                stored = self.ext.getter(m)
                for kind in sorted({x[3] for x in stored}):
                    # the getter of some class of the object model returns its own container: an object that outlives this call
                    sid = self.new_site(n, kind, sc, "ext:" + m)
                    self.upd(self.elem, sid, TOP)
                    if kind == "dict":
                        self.upd(self.val, sid, TOP)
                    self.ext_sites[sid] = (m, [x for x in stored if x[3] == kind])
                    r = join(r, self.site_ty(sid))
            if not defs or not self.closed_world or m in BUILTIN_METHOD_NAMES:
                # closed world by name: a method name defined by the analysed package, used on a receiver of
                # unknown type inside the package, denotes one of those definitions (declared assumption)
                r = join(r, TOP)
        return r

    def container_call(self, sid, m, n, pos, kws, sc):
        k = self.site_kind[sid]
        a0 = pos[0] if pos else BOT
        a1 = pos[1] if len(pos) > 1 else BOT
        me = self.site_ty(sid)
        if k == "list":
            if m in ("append", "extend", "insert"):
                self.upd(self.unord, sid, self.loop_order(n, sc))
            if m == "append":
                self.upd(self.elem, sid, a0)
                return NONE
            if m == "extend":
                self.upd(self.elem, sid, self.elem_of(a0))
                self.carry(sid, a0)
                return NONE
            if m == "insert":
                self.upd(self.elem, sid, a1)
                return NONE
            if m == "pop":
                return self.elem.get(sid, BOT)
            if m == "copy":
                ns = self.new_site(n, "list", sc, "copy")
                self.upd(self.elem, ns, self.elem.get(sid, BOT))
                self.upd(self.unord, ns, self.unord.get(sid, BOT))
                return self.site_ty(ns)
            if m in ("index", "count"):
                return INT
            if m in ("remove", "sort", "reverse", "clear"):
                return NONE
            return TOP
        if k == "set":
            if m == "add":
                self.upd(self.elem, sid, a0)
                return NONE
            if m in ("update", "symmetric_difference_update"):
                for p in pos:
                    self.upd(self.elem, sid, self.elem_of(p))
                return NONE
            if m in ("discard", "remove", "clear", "difference_update", "intersection_update"):
                return NONE
            if m == "pop":
                return self.elem.get(sid, BOT)
            if m in SET_ALGEBRA:
                ns = self.new_site(n, "set", sc, m)
                self.upd(self.elem, ns, self.elem.get(sid, BOT))
                if m in ("union", "symmetric_difference"):
                    for p in pos:
                        self.upd(self.elem, ns, self.elem_of(p))
                return self.site_ty(ns)
            if m in SET_PRED:
                return INT
            return TOP
        if k == "dict":
            if m == "get":
                self.upd(self.elem, sid, a0)
                r = self.val.get(sid, BOT)
                return join(r, a1 if len(pos) > 1 else NONE)
            if m == "setdefault":
                self.upd(self.elem, sid, a0)
                self.upd(self.val, sid, a1 if len(pos) > 1 else NONE)
                return self.val.get(sid, BOT)
            if m == "pop":
                r = self.val.get(sid, BOT)
                return join(r, a1) if len(pos) > 1 else r
            if m == "popitem":
                return tup(self.elem.get(sid, BOT), self.val.get(sid, BOT))
            if m in ("items", "keys", "values"):
                ns = self.new_site(n, "iter", sc, m)
                if m == "items":
                    self.upd(self.elem, ns, tup(self.elem.get(sid, BOT), self.val.get(sid, BOT)))
                elif m == "keys":
                    self.upd(self.elem, ns, self.elem.get(sid, BOT))
                else:
                    self.upd(self.elem, ns, self.val.get(sid, BOT))
                return self.site_ty(ns)
            if m == "copy":
                ns = self.new_site(n, "dict", sc, "copy")
                self.upd(self.elem, ns, self.elem.get(sid, BOT))
                self.upd(self.val, ns, self.val.get(sid, BOT))
                return self.site_ty(ns)
            if m == "update":
                for p in pos:
                    for s2 in self.sites(p, "dict"):
                        self.upd(self.elem, sid, self.elem.get(s2, BOT))
                        self.upd(self.val, sid, self.val.get(s2, BOT))
                return NONE
            if m == "clear":
                return NONE
            return TOP
        return TOP

    def default_factory(self, f, sc, n):
        """type produced by a defaultdict factory expression"""
        if isinstance(f, ast.Name):
            if f.id in ("set", "frozenset"):
                return self.site_ty(self.new_site(n, "set", sc, "dflt"))
            if f.id == "list":
                return self.site_ty(self.new_site(n, "list", sc, "dflt"))
            if f.id == "dict":
                return self.site_ty(self.new_site(n, "dict", sc, "dflt"))
            if f.id in ("int", "float", "bool"):
                return INT
            if f.id == "str":
                return STR
            t = self.lookup(f.id, sc)
            r = BOT
            for a in t:
                if isinstance(a, tuple) and a[0] == "func":
                    r = join(r, self.ret_of(self.scopes[a[1]]))
                elif isinstance(a, tuple) and a[0] == "cls":
                    r = join(r, frozenset([("obj", a[1])]))
            return r or TOP
        if isinstance(f, ast.Lambda):
            ls = self.scope_of_node.get(id(f))
            if ls is not None:
                return self.ev(f.body, ls)
        return TOP

    def builtin_call(self, name, n, pos, kws, sc):
        a0 = pos[0] if pos else BOT
        if name in ("set", "frozenset"):
            sid = self.new_site(n, "set", sc)
            self.upd(self.elem, sid, self.elem_of(a0))
            return self.site_ty(sid)
        if name in ("list", "sorted", "reversed", "deque"):
            sid = self.new_site(n, "list", sc)
            self.upd(self.elem, sid, self.elem_of(a0))
            if name != "sorted":
                self.carry(sid, a0)
            return self.site_ty(sid)
        if name == "tuple":
            if self.order_source(a0):
                sid = self.new_site(n, "list", sc, "tuple")  # a tuple in set order: tracked like a list
                self.upd(self.elem, sid, self.elem_of(a0))
                self.carry(sid, a0)
                return self.site_ty(sid)
            return frozenset([("tupv", self.elem_of(a0))])
        if name in ("dict", "OrderedDict"):
            sid = self.new_site(n, "dict", sc)
            for s2 in self.sites(a0, "dict"):
                self.upd(self.elem, sid, self.elem.get(s2, BOT))
                self.upd(self.val, sid, self.val.get(s2, BOT))
            for k, v in kws.items():
                if k is not None:
                    self.upd(self.elem, sid, STR)
                    self.upd(self.val, sid, v)
            return self.site_ty(sid)
        if name == "defaultdict":
            sid = self.new_site(n, "dict", sc)
            if n.args and not isinstance(n.args[0], ast.Starred):
                self.upd(self.val, sid, self.default_factory(n.args[0], sc, n.args[0]))
            return self.site_ty(sid)
        if name == "enumerate":
            sid = self.new_site(n, "iter", sc)
            self.upd(self.elem, sid, tup(INT, self.elem_of(a0)))
            self.carry(sid, a0)
            return self.site_ty(sid)
        if name == "zip":
            sid = self.new_site(n, "iter", sc)
            self.upd(self.elem, sid, tup(*[self.elem_of(p) for p in pos]) if pos else BOT)
            self.carry(sid, *pos)
            return self.site_ty(sid)
        if name == "range":
            sid = self.new_site(n, "iter", sc)
            self.upd(self.elem, sid, INT)
            return self.site_ty(sid)
        if name in ("iter", "filter"):
            sid = self.new_site(n, "iter", sc)
            self.upd(self.elem, sid, self.elem_of(pos[-1] if pos else BOT))
            self.carry(sid, pos[-1] if pos else BOT)
            return self.site_ty(sid)
        if name == "map":
            sid = self.new_site(n, "iter", sc)
            self.upd(self.elem, sid, TOP)
            self.carry(sid, *pos[1:])
            return self.site_ty(sid)
        if name in ("len", "int", "abs", "sum", "ord", "id", "hash", "bool", "float", "isinstance", "issubclass",
                    "hasattr", "any", "all", "round", "callable"):
            return INT
        if name in ("str", "repr", "chr", "hex", "format", "bytes", "bytearray", "oct", "bin"):
            return STR
        if name in ("min", "max"):
            r = self.elem_of(a0) if len(pos) == 1 else joins(pos)
            if "default" in kws:
                r = join(r, kws["default"])
            return r
        if name == "next":
            r = self.elem_of(a0)
            if len(pos) > 1:
                r = join(r, pos[1])
            return r
        if name == "print":
            return NONE
        if name == "getattr" and len(n.args) >= 2:
            names = self.const_strings(n.args[1], sc)
            if names:
                r = joins([self.load_attr(a0, nm) for nm in sorted(names)])
                return join(r, pos[2]) if len(pos) > 2 else r
        return TOP

    # -------------------------------------------------------------- expressions
    def ev(self, n, sc):
        m = getattr(self, "ev_" + n.__class__.__name__, None)
        if m is None:
            for ch in ast.iter_child_nodes(n):
                if isinstance(ch, ast.expr):
                    self.ev(ch, sc)
            return TOP
        return m(n, sc)

    def ev_Constant(self, n, sc):
        v = n.value
        if v is None:
            return NONE
        if isinstance(v, (bool, int, float, complex)):
            return INT
        if isinstance(v, (str, bytes)):
            return STR
        return TOP

    def ev_Name(self, n, sc):
        return self.lookup(n.id, sc)

    def ev_Attribute(self, n, sc):
        return self.load_attr(self.ev(n.value, sc), n.attr)

    def ev_Call(self, n, sc):
        return self.ev_call(n, sc)

    def ev_Subscript(self, n, sc):
        t = self.ev(n.value, sc)
        is_slice = isinstance(n.slice, ast.Slice)
        kt = BOT
        if is_slice:
            for p in (n.slice.lower, n.slice.upper, n.slice.step):
                if p is not None:
                    self.ev(p, sc)
        else:
            kt = self.ev(n.slice, sc)
        r = BOT
        for a in t:
            if a == "top":
                r = join(r, TOP)
            elif a == "str":
                r = join(r, STR)
            elif isinstance(a, tuple) and a[0] == "site":
                k = self.site_kind[a[1]]
                if k == "dict":
                    self.upd(self.elem, a[1], kt)
                    r = join(r, self.val.get(a[1], BOT))
                elif is_slice:
                    if k == "list":
                        ns = self.new_site(n, "list", sc, "slice")  # a slice is a new list
                        self.upd(self.elem, ns, self.elem.get(a[1], BOT))
                        self.upd(self.unord, ns, self.unord.get(a[1], BOT))
                        r = join(r, self.site_ty(ns))
                    else:
                        r = join(r, frozenset([a]))
                else:
                    r = join(r, self.elem.get(a[1], BOT))
            elif isinstance(a, tuple) and a[0] == "tup":
                if is_slice:
                    r = join(r, frozenset([("tupv", joins(a[1]))]))
                elif isinstance(n.slice, ast.Constant) and isinstance(n.slice.value, int) and -len(a[1]) <= n.slice.value < len(a[1]):
                    r = join(r, a[1][n.slice.value])
                else:
                    r = join(r, joins(a[1]))
            elif isinstance(a, tuple) and a[0] == "tupv":
                r = join(r, frozenset([a]) if is_slice else a[1])
            elif isinstance(a, tuple) and a[0] == "obj":
                ms = self.lookup_method(a[1], "__getitem__")
                for f in ms:
                    r = join(r, self.call_scope(f, [kt], {}, frozenset([a])))
                if not ms:
                    r = join(r, TOP)
            elif a == "none":
                pass
            else:
                r = join(r, TOP)
        return r

    def ev_BinOp(self, n, sc):
        l = self.ev(n.left, sc)
        r = self.ev(n.right, sc)
        return self.binop(l, n.op, r, n, sc)

    def binop(self, l, op, r, n, sc):
        out = BOT
        if isinstance(op, ast.Mod) and "str" in l:
            out = join(out, STR)
            if l == STR:
                return out
        lsets, rsets = self.sites(l, "set"), self.sites(r, "set")
        if isinstance(op, (ast.BitOr, ast.BitAnd, ast.Sub, ast.BitXor)) and (lsets or rsets):
            ns = self.new_site(n, "set", sc, "op")
            for s in lsets:
                self.upd(self.elem, ns, self.elem.get(s, BOT))
            if isinstance(op, (ast.BitOr, ast.BitXor)) or not lsets:
                for s in rsets:
                    self.upd(self.elem, ns, self.elem.get(s, BOT))
            out = join(out, self.site_ty(ns))
        llists, rlists = self.sites(l, "list"), self.sites(r, "list")
        if isinstance(op, ast.Add) and (llists or rlists):
            ns = self.new_site(n, "list", sc, "op")
            for s in llists + rlists:
                self.upd(self.elem, ns, self.elem.get(s, BOT))
                self.upd(self.unord, ns, self.unord.get(s, BOT))
            out = join(out, self.site_ty(ns))
        if isinstance(op, ast.Mult) and (llists or rlists):
            out = join(out, frozenset(("site", s) for s in llists + rlists))
        if isinstance(op, ast.Add):
            if "str" in l and "str" in r:
                out = join(out, STR)
            if any(isinstance(a, tuple) and a[0] in ("tup", "tupv") for a in l | r):
                out = join(out, frozenset([("tupv", join(self.elem_of(l), self.elem_of(r)))]))
        if isinstance(op, ast.Mult) and ("str" in l or "str" in r):
            out = join(out, STR)
        if not l or not r:
            return out  # an operand has no value (yet): strict
        lu = "top" in l
        ru = "top" in r
        if "int" in l and "int" in r:
            out = join(out, INT)
        elif ("int" in l and ru) or ("int" in r and lu):
            # number (op) unknown: a number, or TypeError -- the analysed package defines no reflected operators
            out = join(out, INT)
        if lu and ru:
            out = join(out, TOP)
        elif not out:
            out = TOP
        return out

    def ev_UnaryOp(self, n, sc):
        self.ev(n.operand, sc)
        return INT

    def ev_BoolOp(self, n, sc):
        return joins([self.ev(v, sc) for v in n.values])

    def ev_Compare(self, n, sc):
        self.ev(n.left, sc)
        for c in n.comparators:
            self.ev(c, sc)
        return INT

    def ev_IfExp(self, n, sc):
        self.ev(n.test, sc)
        return join(self.ev(n.body, sc), self.ev(n.orelse, sc))

    def _seq_elems(self, elts, sc):
        r = BOT
        for e in elts:
            if isinstance(e, ast.Starred):
                r = join(r, self.elem_of(self.ev(e.value, sc)))
            else:
                r = join(r, self.ev(e, sc))
        return r

    def ev_List(self, n, sc):
        sid = self.new_site(n, "list", sc)
        self.upd(self.elem, sid, self._seq_elems(n.elts, sc))
        return self.site_ty(sid)

    def ev_Set(self, n, sc):
        sid = self.new_site(n, "set", sc)
        self.upd(self.elem, sid, self._seq_elems(n.elts, sc))
        return self.site_ty(sid)

    def ev_Tuple(self, n, sc):
        if any(isinstance(e, ast.Starred) for e in n.elts):
            return frozenset([("tupv", self._seq_elems(n.elts, sc))])
        return frozenset([("tup", tuple(self.ev(e, sc) for e in n.elts))])

    def ev_Dict(self, n, sc):
        sid = self.new_site(n, "dict", sc)
        for k, v in zip(n.keys, n.values):
            if k is None:
                for s2 in self.sites(self.ev(v, sc), "dict"):
                    self.upd(self.elem, sid, self.elem.get(s2, BOT))
                    self.upd(self.val, sid, self.val.get(s2, BOT))
            else:
                self.upd(self.elem, sid, self.ev(k, sc))
                self.upd(self.val, sid, self.ev(v, sc))
        return self.site_ty(sid)

    def _comp_gens(self, gens, sc):
        src = BOT
        for g in gens:
            it = self.ev(g.iter, sc)
            src = join(src, self.order_source(it))
            self.bind(g.target, self.elem_of(it), sc)
            for c in g.ifs:
                self.ev(c, sc)
        return src

    def ev_ListComp(self, n, sc):
        src = self._comp_gens(n.generators, sc)
        sid = self.new_site(n, "list", sc)
        self.upd(self.elem, sid, self.ev(n.elt, sc))
        self.upd(self.unord, sid, src)
        return self.site_ty(sid)

    def ev_SetComp(self, n, sc):
        self._comp_gens(n.generators, sc)
        sid = self.new_site(n, "set", sc)
        self.upd(self.elem, sid, self.ev(n.elt, sc))
        return self.site_ty(sid)

    def ev_GeneratorExp(self, n, sc):
        src = self._comp_gens(n.generators, sc)
        sid = self.new_site(n, "iter", sc)
        self.upd(self.elem, sid, self.ev(n.elt, sc))
        self.upd(self.unord, sid, src)
        return self.site_ty(sid)

    def ev_DictComp(self, n, sc):
        self._comp_gens(n.generators, sc)
        sid = self.new_site(n, "dict", sc)
        self.upd(self.elem, sid, self.ev(n.key, sc))
        self.upd(self.val, sid, self.ev(n.value, sc))
        return self.site_ty(sid)

    def ev_JoinedStr(self, n, sc):
        for v in n.values:
            if isinstance(v, ast.FormattedValue):
                self.ev(v.value, sc)
        return STR

    def ev_FormattedValue(self, n, sc):
        self.ev(n.value, sc)
        return STR

    def ev_Lambda(self, n, sc):
        ls = self.scope_of_node.get(id(n))
        if ls is None:
            return TOP
        return frozenset([("func", ls.id)])

    def ev_Starred(self, n, sc):
        return self.elem_of(self.ev(n.value, sc))

    def ev_NamedExpr(self, n, sc):
        t = self.ev(n.value, sc)
        self.bind(n.target, t, sc)
        return t

    def _yield_order(self, n, sc, fs):
        """a yield inside a loop over a set (or over a sequence in set order): the generator carries that order"""
        p = getattr(n, "_parent", None)
        gsid = self.new_site(fs.node, "iter", fs, "gen")
        while p is not None and p is not fs.node:
            if isinstance(p, (ast.For, ast.AsyncFor)):
                self.carry(gsid, self.ev(p.iter, sc))
            p = getattr(p, "_parent", None)

    def ev_Yield(self, n, sc):
        fs = self._func_scope(sc)
        if n.value is not None and fs is not None:
            self.upd(self.yields, fs.id, self.ev(n.value, sc))
        if fs is not None:
            self._yield_order(n, sc, fs)
        return TOP

    def ev_YieldFrom(self, n, sc):
        fs = self._func_scope(sc)
        if fs is not None:
            t = self.ev(n.value, sc)
            self.upd(self.yields, fs.id, self.elem_of(t))
            self.carry(self.new_site(fs.node, "iter", fs, "gen"), t)
            self._yield_order(n, sc, fs)
        return TOP

    def ev_Await(self, n, sc):
        self.ev(n.value, sc)
        return TOP

    def ev_Slice(self, n, sc):
        return TOP

    def _func_scope(self, sc):
        s = sc
        while s is not None and s.kind == "lambda":
            s = s.parent
        return s if s is not None and s.kind == "func" else None

    # ---------------------------------------------------------------- binding
    def owner_scope(self, name, sc):
        s = sc
        while s is not None:
            if name in s.bound:
                return s
            s = s.parent
        return self._module_scope[sc.relpath]

    def bind(self, target, t, sc):
        if isinstance(target, ast.Name):
            o = self.owner_scope(target.id, sc)
            self.upd(self.env, (o.id, target.id), t)
        elif isinstance(target, ast.Attribute):
            self.store_attr(self.ev(target.value, sc), target.attr, t)
        elif isinstance(target, ast.Subscript):
            bt = self.ev(target.value, sc)
            is_slice = isinstance(target.slice, ast.Slice)
            kt = BOT if is_slice else self.ev(target.slice, sc)
            for s in self.sites(bt):
                k = self.site_kind[s]
                if k == "dict":
                    self.upd(self.elem, s, kt)
                    self.upd(self.val, s, t)
                elif k == "list":
                    self.upd(self.elem, s, self.elem_of(t) if is_slice else t)
        elif isinstance(target, (ast.Tuple, ast.List)):
            n = len(target.elts)
            starred = any(isinstance(e, ast.Starred) for e in target.elts)
            for i, e in enumerate(target.elts):
                ct = BOT
                for a in t:
                    if isinstance(a, tuple) and a[0] == "tup" and len(a[1]) == n and not starred:
                        ct = join(ct, a[1][i])
                    elif isinstance(a, tuple) and a[0] == "tup":
                        ct = join(ct, joins(a[1]))
                    else:
                        ct = join(ct, self.elem_of(frozenset([a])))
                if isinstance(e, ast.Starred):
                    sid = self.new_site(e, "list", sc, "star")
                    self.upd(self.elem, sid, ct)
                    self.bind(e.value, self.site_ty(sid), sc)
                else:
                    self.bind(e, ct, sc)
        elif isinstance(target, ast.Starred):
            self.bind(target.value, t, sc)

    # -------------------------------------------------------------- statements
    def run_body(self, body, sc):
        for s in body:
            self.run_stmt(s, sc)

    def run_stmt(self, s, sc):
        self._stmt = s
        if isinstance(s, ast.Assign):
            t = self.ev(s.value, sc)
            for tg in s.targets:
                self.bind(tg, t, sc)
        elif isinstance(s, ast.AugAssign):
            cur = self.ev(self._as_load(s.target), sc)
            v = self.ev(s.value, sc)
            for sid in self.sites(cur, "list"):
                if isinstance(s.op, ast.Add):
                    self.upd(self.elem, sid, self.elem_of(v))
            for sid in self.sites(cur, "set"):
                if isinstance(s.op, (ast.BitOr, ast.BitXor)):
                    self.upd(self.elem, sid, self.elem_of(v))
            t = self.binop(cur, s.op, v, s, sc)
            keep = frozenset(a for a in cur if isinstance(a, tuple) and a[0] == "site")
            self.bind(s.target, join(t, keep), sc)
        elif isinstance(s, ast.AnnAssign):
            if s.value is not None:
                self.bind(s.target, self.ev(s.value, sc), sc)
        elif isinstance(s, (ast.For, ast.AsyncFor)):
            self.bind(s.target, self.elem_of(self.ev(s.iter, sc)), sc)
            self.run_body(s.body, sc)
            self.run_body(s.orelse, sc)
        elif isinstance(s, ast.While):
            self.ev(s.test, sc)
            self.run_body(s.body, sc)
            self.run_body(s.orelse, sc)
        elif isinstance(s, ast.If):
            self.ev(s.test, sc)
            self.run_body(s.body, sc)
            self.run_body(s.orelse, sc)
        elif isinstance(s, (ast.With, ast.AsyncWith)):
            for it in s.items:
                t = self.ev(it.context_expr, sc)
                if it.optional_vars is not None:
                    r = BOT
                    for a in t:
                        if isinstance(a, tuple) and a[0] == "obj":
                            for f in self.lookup_method(a[1], "__enter__"):
                                r = join(r, self.call_scope(f, [], {}, frozenset([a])))
                    self.bind(it.optional_vars, r or TOP, sc)
            self.run_body(s.body, sc)
        elif isinstance(s, ast.Try):
            self.run_body(s.body, sc)
            for h in s.handlers:
                if h.name:
                    o = self.owner_scope(h.name, sc)
                    self.upd(self.env, (o.id, h.name), TOP)
                self.run_body(h.body, sc)
            self.run_body(s.orelse, sc)
            self.run_body(s.finalbody, sc)
        elif isinstance(s, ast.Return):
            fs = self._func_scope(sc)
            t = self.ev(s.value, sc) if s.value is not None else NONE
            if fs is not None:
                self.upd(self.ret, fs.id, t)
        elif isinstance(s, ast.Expr):
            self.ev(s.value, sc)
        elif isinstance(s, (ast.Raise,)):
            if s.exc is not None:
                self.ev(s.exc, sc)
        elif isinstance(s, ast.Assert):
            self.ev(s.test, sc)
        elif isinstance(s, ast.Delete):
            pass
        elif isinstance(s, (ast.FunctionDef, ast.AsyncFunctionDef)):
            fs = self.scope_of_node.get(id(s))
            if fs is not None:
                a = s.args
                pos = a.posonlyargs + a.args
                for p, d in zip(pos[len(pos) - len(a.defaults):], a.defaults):
                    self.upd(self.env, (fs.id, p.arg), self.ev(d, sc))
                for p, d in zip(a.kwonlyargs, a.kw_defaults):
                    if d is not None:
                        self.upd(self.env, (fs.id, p.arg), self.ev(d, sc))
        elif isinstance(s, ast.ClassDef):
            pass
        elif isinstance(s, ast.Match):
            self.ev(s.subject, sc)
            for c in s.cases:
                self.run_body(c.body, sc)

    @staticmethod
    def _as_load(t):
        import copy
        c = copy.copy(t)
        c.ctx = ast.Load()
        return c

    # ------------------------------------------------------------------ solve
    def _run_scope(self, sc):
        self._cur = sc.id
        if sc.kind == "module":
            self.run_body(sc.node.body, sc)
            for ci in self.classes.values():
                if ci.relpath == sc.relpath:
                    for m in ci.methods.values():
                        self.run_stmt(m.node, sc)  # parameter defaults of methods
        elif sc.kind == "func":
            if getattr(sc, "defcls", None) and not sc.is_static and sc.params:
                self.upd(self.env, (sc.id, sc.params[0]), frozenset([("obj", sc.defcls)]))
            if sc.vararg:
                self.upd(self.env, (sc.id, sc.vararg), frozenset([("tupv", TOP)]))
            if sc.kwarg:
                self.upd(self.env, (sc.id, sc.kwarg), TOP)
            self.run_body(sc.node.body, sc)
        else:
            self.upd(self.ret, sc.id, self.ev(sc.node.body, sc))
        self._cur = None

    def solve(self, max_runs=60):
        """chaotic iteration: a scope is re-run when a table entry it read has grown."""
        order = sorted(self.scopes.values(), key=lambda s: s.id)
        runs = {}
        # entry points: nothing in the package calls them by name (or they are used as values / implicitly
        # through the data model): their parameters are unknown from the start
        for sc in order:
            if sc.kind not in ("func", "lambda"):
                continue
            nm = sc.node.name if sc.kind == "func" else None
            entry = sc.kind == "lambda" or nm not in self.called_names or nm in self.value_names
            if nm and nm.startswith("__") and nm.endswith("__") and nm != "__init__":
                entry = True
            if nm == "__init__" and sc.cls and sc.cls not in self.called_names and not any(
                    d in self.called_names for d in self.descendants(sc.cls)):
                entry = True
            if entry:
                ps = list(sc.params)
                if getattr(sc, "defcls", None) and not sc.is_static and ps:
                    ps = ps[1:]
                for p in ps + list(getattr(sc, "kwonly", ())):
                    self.env[(sc.id, p)] = TOP
        for phase in (1, 2):
            self._dirty = set(self.scopes)
            while self._dirty:
                self.passes += 1
                todo = [self.scopes[i] for i in sorted(self._dirty) if i in self.scopes]
                self._dirty = set()
                for sc in todo:
                    runs[sc.id] = runs.get(sc.id, 0) + 1
                    if runs[sc.id] > max_runs:
                        raise AnalysisError("type inference did not converge (%s re-run %d times)" % (sc.qualname, max_runs))
                    self._run_scope(sc)
            if phase == 1:
                # parameters no call inside the package ever binds are unknown (entry points)
                for sc in order:
                    if sc.kind in ("func", "lambda") and not getattr(sc, "spec", None):
                        ps = list(sc.params)
                        if getattr(sc, "defcls", None) and not sc.is_static and ps:
                            ps = ps[1:]
                        for p in ps + list(getattr(sc, "kwonly", ())):
                            if not dict.get(self.env, (sc.id, p)):
                                self.env[(sc.id, p)] = TOP
        self.total_runs = sum(runs.values())
        return self

    # ------------------------------------------------------- element categories
    def categories(self, t, _d=0):
        """set of categories of a (set-element) type: int | str | obj | custom | unknown"""
        out = set()
        for a in t:
            if a in ("int", "none"):
                out.add("int")
            elif a == "str":
                out.add("str")
            elif a == "top":
                out.add("unknown")
            elif isinstance(a, tuple):
                if a[0] == "obj":
                    ci = self.classes.get(a[1])
                    if ci is None:
                        out.add("unknown")
                    elif any(self.classes[k].custom_hash for k in self.related(a[1]) if k in self.classes):
                        out.add("custom")
                    else:
                        out.add("obj")
                elif a[0] == "tup":
                    if _d > 4:
                        out.add("unknown")
                    for c in a[1]:
                        out |= self.categories(c, _d + 1) if c else {"unknown"}
                elif a[0] == "tupv":
                    out |= self.categories(a[1], _d + 1) if a[1] else set()
                elif a[0] in ("func", "cls", "mod"):
                    out.add("obj")
                else:
                    out.add("unknown")
        return out

    def set_kind(self, t):
        """(kind, categories) of the elements of the set sites in t.
        kind: 'empty' | 'int' (order-deterministic) | 'nondet' (identity/str hashed) | 'unknown'"""
        et = joins(self.elem.get(s, BOT) for s in self.sites(t, "set"))
        cats = self.categories(et)
        if not cats:
            return "empty", cats, et
        if cats & {"obj", "str"}:
            return "nondet", cats, et
        if cats <= {"int"}:
            return "int", cats, et
        return "unknown", cats, et


def show_ty(pkg, t, d=0):
    parts = []
    for a in sorted(t, key=repr):
        if isinstance(a, str):
            parts.append(a)
        elif a[0] == "obj":
            parts.append(a[1])
        elif a[0] == "site":
            k = pkg.site_kind[a[1]]
            if d > 2:
                parts.append(k)
            elif k == "dict":
                parts.append("dict[%s -> %s]" % (show_ty(pkg, pkg.elem.get(a[1], BOT), d + 1), show_ty(pkg, pkg.val.get(a[1], BOT), d + 1)))
            else:
                parts.append("%s[%s]" % (k, show_ty(pkg, pkg.elem.get(a[1], BOT), d + 1)))
        elif a[0] == "tup":
            parts.append("(%s)" % ", ".join(show_ty(pkg, c, d + 1) for c in a[1]))
        elif a[0] == "tupv":
            parts.append("(%s, ...)" % show_ty(pkg, a[1], d + 1))
        else:
            parts.append(a[0])
    parts = sorted(set(parts))
    if len(parts) > 6:
        parts = parts[:6] + ["..."]
    return "|".join(parts) if parts else "bottom"


# =====================================================================================
# effect summaries
# =====================================================================================
def _walk_no_nested(node):
    """walk a statement/expression (or a list of them) without entering nested function / class / lambda
    bodies; a nested def is yielded itself but never entered -- also when it is the node given."""
    stack = list(node) if isinstance(node, list) else [node]
    stack.reverse()
    while stack:
        n = stack.pop()
        yield n
        if isinstance(n, (ast.FunctionDef, ast.AsyncFunctionDef, ast.ClassDef, ast.Lambda)):
            continue
        stack.extend(ast.iter_child_nodes(n))


def _names(e):
    return {n.id for n in ast.walk(e) if isinstance(n, ast.Name)}


def _flat_targets(t):
    if isinstance(t, (ast.Tuple, ast.List)):
        for e in t.elts:
            yield from _flat_targets(e)
    elif isinstance(t, ast.Starred):
        yield from _flat_targets(t.value)
    else:
        yield t


LOGGER_NAMES = {"logger", "logging", "log", "LOGGER", "warnings"}
ACI_FOLDS = {
    # function name -> why folding a set with it does not depend on the order of the elements
    "common_dom": "nearest common dominator: the meet of the dominator tree (associative, commutative, idempotent)",
    "min": "minimum of a total order", "max": "maximum of a total order",
    "min/max": "running minimum/maximum of a value", "sum": "sum of numbers", "bit-or/and": "bitwise accumulation",
}
READONLY_CONTAINER = {"get", "items", "keys", "values", "copy", "index", "count", "union", "intersection", "difference",
                      "symmetric_difference", "issubset", "issuperset", "isdisjoint", "__contains__", "most_common"}
PURE_PREFIXES = ("get_", "is_", "has_")
INJECTIVE_ATTRS = {"num": "reverse-post-order number: Graph.compute_rpo gives every node of a graph a distinct num"}


class Effects:
    def __init__(self, pkg):
        self.pkg = pkg
        self._alias = {}
        self._direct = {}
        self._calls = {}
        self._summ = {}

    # ---- roots -----------------------------------------------------------
    def self_name(self, fs):
        if fs.kind == "func" and getattr(fs, "defcls", None) and not fs.is_static and fs.params:
            return fs.params[0]
        return None

    def alias_map(self, fs):
        am = self._alias.get(fs.id)
        if am is not None:
            return am
        am = {}
        self._alias[fs.id] = am
        if fs.kind != "func":
            return am
        assigns = []
        for n in _walk_no_nested(list(fs.node.body)):
            if isinstance(n, ast.Assign):
                for t in n.targets:
                    for ft in _flat_targets(t):
                        if isinstance(ft, ast.Name):
                            assigns.append((ft.id, n.value))
            elif isinstance(n, (ast.AnnAssign, ast.NamedExpr)) and getattr(n, "value", None) is not None and isinstance(n.target, ast.Name):
                assigns.append((n.target.id, n.value))
            elif isinstance(n, (ast.For, ast.AsyncFor, ast.comprehension)):
                for ft in _flat_targets(n.target):
                    if isinstance(ft, ast.Name):
                        assigns.append((ft.id, n.iter))
            elif isinstance(n, ast.withitem) and n.optional_vars is not None:
                for ft in _flat_targets(n.optional_vars):
                    if isinstance(ft, ast.Name):
                        assigns.append((ft.id, n.context_expr))
        for _ in range(6):
            changed = False
            for name, val in assigns:
                r = self.roots(val, fs, frozenset())
                cur = am.get(name, frozenset())
                if not r <= cur:
                    am[name] = cur | r
                    changed = True
            if not changed:
                break
        return am

    def roots(self, e, fs, stop=frozenset()):
        """objects an expression may denote / be part of: 'self', ('param', p), ('free', n), 'local' (created here),
        ('elem', n) for names in `stop` (loop variables of the loop under analysis)"""
        out = set()
        if isinstance(e, ast.Name):
            if e.id in stop:
                return frozenset([("elem", e.id)])
            if e.id == self.self_name(fs):
                return frozenset(["self"])
            if e.id in fs.params or e.id in getattr(fs, "kwonly", ()) or e.id in (fs.vararg, fs.kwarg):
                out.add(("param", e.id))
                out |= self.alias_map(fs).get(e.id, frozenset())  # re-assigned parameters
                return frozenset(out)
            if e.id in fs.bound:
                am = self.alias_map(fs)
                r = am.get(e.id)
                return r if r else frozenset(["local"])
            return frozenset([("free", e.id)])
        if isinstance(e, (ast.Attribute, ast.Subscript, ast.Starred)):
            return self.roots(e.value, fs, stop)
        if isinstance(e, ast.Call):
            f = e.func
            if isinstance(f, ast.Attribute):
                if isinstance(f.value, ast.Call) and isinstance(f.value.func, ast.Name) and f.value.func.id == "super":
                    out.add("self")
                else:
                    out |= self.roots(f.value, fs, stop)
                if f.attr in ("get", "setdefault", "pop") and len(e.args) > 1:
                    out |= self.roots(e.args[1], fs, stop)
                return frozenset(out)
            if isinstance(f, ast.Name):
                t = self.pkg.lookup(f.id, fs)
                if any(isinstance(a, tuple) and a[0] == "cls" for a in t):
                    return frozenset(["local"])
                if f.id in PURE_BUILTINS and not any(isinstance(a, tuple) and a[0] == "func" for a in t):
                    if f.id in ("next", "min", "max", "iter", "reversed"):
                        for a in e.args:
                            out |= self.roots(a, fs, stop)
                        return frozenset(out)
                    return frozenset(["local"])
                for a in e.args:
                    out |= self.roots(a, fs, stop)
                return frozenset(out) or frozenset(["local"])
            return frozenset(["local"])
        if isinstance(e, (ast.IfExp,)):
            return self.roots(e.body, fs, stop) | self.roots(e.orelse, fs, stop)
        if isinstance(e, ast.BoolOp):
            for v in e.values:
                out |= self.roots(v, fs, stop)
            return frozenset(out)
        if isinstance(e, ast.NamedExpr):
            return self.roots(e.value, fs, stop)
        if isinstance(e, (ast.Constant, ast.JoinedStr, ast.Compare, ast.UnaryOp)):
            return frozenset()
        return frozenset(["local"])

    # ---- classification of one call ------------------------------------------
    def call_kind(self, c, fs):
        """-> list of ('mut', kind, receiver_expr) | ('pkg', [(scope, recv, bindself)]) | ('pure',) | ('unknown', text)"""
        pkg = self.pkg
        ds = pkg.desugar(c, fs)
        if ds:
            out = []
            for x in ds:
                out += self.call_kind(x, fs)
            return out
        f = c.func
        if isinstance(f, ast.Attribute):
            base = f.value
            while isinstance(base, (ast.Attribute, ast.Subscript, ast.Call)):
                base = base.func if isinstance(base, ast.Call) else base.value
            if isinstance(base, ast.Name) and base.id in LOGGER_NAMES:
                return [("pure",)]
            if isinstance(f.value, ast.Name) and f.value.id in BUILTIN_TYPES and pkg.lookup(f.value.id, fs) == TOP:
                return [("pure",)]  # dict.fromkeys, str.join, int.from_bytes ...: constructors / pure helpers
            m = f.attr
            callees = pkg.callees(c, fs)
            rt = pkg.ev(f.value, fs)
            sites = pkg.sites(rt)
            kinds = {pkg.site_kind[s] for s in sites}
            res = []
            if sites or not callees:
                if rt and rt <= (STR | NONE) and "str" in rt:
                    return [("pure",)]
                if m in LIST_ORDERED:
                    res.append(("mut", "ordered", f.value))
                elif m == "pop":
                    if c.args and (kinds <= {"dict"} or not kinds):
                        res.append(("mut", "keyed", f.value))
                    else:
                        res.append(("mut", "ordered", f.value))
                elif m in KEYED_MUT:
                    res.append(("mut", "keyed", f.value))
                elif m in ("write", "writelines", "flush"):
                    res.append(("mut", "ordered", f.value))
                elif m in READONLY_CONTAINER or m in STR_TO_STR or m in STR_TO_INT or m in STR_TO_LIST:
                    res.append(("pure",))
                elif not callees:
                    if m.startswith(PURE_PREFIXES):
                        res.append(("pure",))
                    elif sites:
                        res.append(("pure",))
                    else:
                        res.append(("unknown", "call of %s() which no analysed class defines" % m))
            if callees:
                res.append(("pkg", callees))
            return res
        if isinstance(f, ast.Name):
            t = pkg.lookup(f.id, fs)
            callees = pkg.callees(c, fs)
            if callees:
                return [("pkg", callees)]
            if f.id == "print":
                return [("mut", "ordered", f)]
            if f.id in PURE_BUILTINS or f.id in LOGGER_NAMES:
                return [("pure",)]
            if not t:
                return [("pure",)]  # unreachable
            return [("unknown", "call of %s() (not defined in the analysed package)" % f.id)]
        return [("unknown", "call through %s" % ast.unparse(f)[:60])]

    def arg_for(self, c, callee, p):
        ps = list(callee.params)
        if getattr(callee, "defcls", None) and not callee.is_static and ps:
            ps = ps[1:]
        if p in ps:
            i = ps.index(p)
            if i < len(c.args) and not any(isinstance(a, ast.Starred) for a in c.args[: i + 1]):
                return c.args[i]
        for k in c.keywords:
            if k.arg == p:
                return k.value
        return None

    # ---- direct effects + call list of one function -----------------------------
    def analyse(self, fs):
        if fs.id in self._direct:
            return
        direct, calls = [], []
        self._direct[fs.id] = direct
        self._calls[fs.id] = calls
        body = fs.node.body if fs.kind == "func" else [fs.node.body]
        for top in body:
            for n in _walk_no_nested(top):
                if isinstance(n, (ast.Assign, ast.AugAssign, ast.AnnAssign)):
                    tgts = n.targets if isinstance(n, ast.Assign) else [n.target]
                    if isinstance(n, ast.AugAssign) and isinstance(n.target, (ast.Attribute, ast.Subscript, ast.Name)):
                        # s |= {...} / s -= {...} on a set, n += 1 on a number: commutative, i.e. a keyed update
                        cur = self.pkg.ev(Pkg._as_load(n.target), fs)
                        if (isinstance(n.op, (ast.BitOr, ast.BitAnd, ast.BitXor, ast.Sub)) and self.pkg.sites(cur, "set")
                                and not self.pkg.sites(cur, "list")) or (
                                isinstance(n.op, (ast.Add, ast.Sub, ast.Mult, ast.BitOr, ast.BitAnd)) and cur and cur <= (INT | NONE)):
                            tn = n.target
                            r = self.roots(tn.value, fs) if not isinstance(tn, ast.Name) else (
                                frozenset([("free", tn.id)]) if tn.id not in fs.bound else frozenset())
                            if r:
                                direct.append((r, "keyed"))
                            continue
                    for t in tgts:
                        for ft in _flat_targets(t):
                            if isinstance(ft, ast.Attribute):
                                direct.append((self.roots(ft.value, fs), "attr"))
                            elif isinstance(ft, ast.Subscript):
                                direct.append((self.roots(ft.value, fs), "keyed"))
                            elif isinstance(ft, ast.Name) and ft.id not in fs.bound:
                                direct.append((frozenset([("free", ft.id)]), "attr"))
                elif isinstance(n, ast.Delete):
                    for t in n.targets:
                        if isinstance(t, (ast.Subscript, ast.Attribute)):
                            direct.append((self.roots(t.value, fs), "keyed"))
                elif isinstance(n, ast.Call):
                    for k in self.call_kind(n, fs):
                        if k[0] == "mut":
                            direct.append((self.roots(k[2], fs) if not isinstance(k[2], ast.Name) or k[2].id != "print" else frozenset([("free", "stdout")]), k[1]))
                        elif k[0] == "unknown":
                            r = set()
                            if isinstance(n.func, ast.Attribute):
                                r |= self.roots(n.func.value, fs)
                            for a in n.args:
                                r |= self.roots(a, fs)
                            direct.append((frozenset(r), "unknown"))
                        elif k[0] == "pkg":
                            for callee, recv, bindself in k[1]:
                                calls.append((n, callee, recv, bindself))

    def summary(self, fs):
        """set of (root, kind) -- root in 'self' | ('param', p) | ('free', n); kind in ordered|keyed|attr|unknown"""
        if fs.id in self._summ:
            return self._summ[fs.id]
        # reachable call graph
        reach, stack = {}, [fs]
        while stack:
            g = stack.pop()
            if g.id in reach:
                continue
            reach[g.id] = g
            self.analyse(g)
            for _, callee, _, _ in self._calls[g.id]:
                if callee.id not in reach and callee.id not in self._summ:
                    stack.append(callee)
        S = {gid: set() for gid in reach}
        for gid, g in reach.items():
            for roots, kind in self._direct[gid]:
                for r in roots:
                    if r != "local" and not (isinstance(r, tuple) and r[0] == "elem"):
                        S[gid].add((r, kind))
        changed = True
        rounds = 0
        while changed:
            changed = False
            rounds += 1
            if rounds > 50:
                raise AnalysisError("effect summaries did not converge")
            for gid, g in reach.items():
                for c, callee, recv, bindself in self._calls[gid]:
                    sub = self._summ.get(callee.id)
                    if sub is None:
                        sub = S.get(callee.id, set())
                    for root, kind in list(sub):
                        for r in self.map_root(root, c, g, callee, recv, bindself, frozenset()):
                            if r == "local" or (isinstance(r, tuple) and r[0] == "elem"):
                                continue
                            if (r, kind) not in S[gid]:
                                S[gid].add((r, kind))
                                changed = True
        for gid in reach:
            self._summ[gid] = frozenset(S[gid])
        return self._summ[fs.id]

    def map_root(self, root, c, caller, callee, recv, bindself, stop):
        """translate a root of the callee's summary into roots of the caller at call c"""
        if root == "self":
            if bindself == "ctor":
                return frozenset(["local"])
            if recv == "super":
                return frozenset(["self"]) if self.self_name(caller) else frozenset([("free", "self")])
            if recv is None:
                return frozenset()
            return self.roots(recv, caller, stop)
        if isinstance(root, tuple) and root[0] == "param":
            a = self.arg_for(c, callee, root[1])
            if a is None:
                return frozenset()
            return self.roots(a, caller, stop)
        if isinstance(root, tuple) and root[0] == "free":
            n = root[1]
            # a closure variable of a nested callee that is a local of the caller
            s = callee.parent
            while s is not None and s.kind != "module":
                if s is caller or n in s.bound:
                    break
                s = s.parent
            if s is caller and (n in caller.bound):
                return self.roots(ast.Name(id=n, ctx=ast.Load()), caller, stop)
            return frozenset([root])
        return frozenset([root])


# =====================================================================================
# consumption classification
# =====================================================================================
INSENS = "insensitive"
SENS = "sensitive"
FLOWS = "flows"
UNDET = "undetermined"

ORDER_FREE_FUNCS = {"len", "bool", "any", "all", "set", "frozenset", "isinstance", "type"}
TRANSPARENT_FUNCS = {"list", "tuple", "iter", "reversed", "enumerate", "zip", "map", "filter", "deque"}
FORMAT_FUNCS = {"str", "repr", "print", "format", "ascii"}
SET_MUTATORS = {"add", "discard", "remove", "update", "clear", "difference_update", "intersection_update",
                "symmetric_difference_update"}


def norm_src(n):
    return " ".join(ast.unparse(n).split()) if not isinstance(n, str) else " ".join(n.split())


class Record:
    __slots__ = ("relpath", "qualname", "lineno", "expr", "kind", "cats", "elem", "verdict", "reason", "construct",
                 "node", "scope", "issues")

    def as_dict(self):
        return dict(file=self.relpath, qualname=self.qualname, line=self.lineno, expr=self.expr, kind=self.kind,
                    categories=sorted(self.cats), elem=self.elem, verdict=self.verdict, reason=self.reason,
                    construct=self.construct)


class Classifier:
    def __init__(self, pkg):
        self.pkg = pkg
        self.fx = Effects(pkg)
        self._cfg = {}
        self._loopcache = {}

    # ------------------------------------------------------------------ driver
    def run(self):
        pkg = self.pkg
        pkg._cur = None
        recs = []
        for sc in sorted(pkg.scopes.values(), key=lambda s: s.id):
            if pkg.scope_of_node.get(id(sc.node)) is not sc:
                continue  # duplicate lambda index
            roots = list(sc.node.body) if sc.kind != "lambda" else [sc.node.body]
            if sc.kind == "module":
                # class bodies (class-level statements) belong to the module scope; methods are scopes of their own
                extra = []
                for st in roots:
                    if isinstance(st, ast.ClassDef):
                        extra += [b for b in st.body if not isinstance(b, (ast.FunctionDef, ast.AsyncFunctionDef, ast.ClassDef))]
                roots += extra
            for top in [0]:
                for n in _walk_no_nested(roots):
                    if not isinstance(n, (ast.Name, ast.Attribute, ast.Call, ast.Subscript, ast.BinOp, ast.Set, ast.SetComp,
                                          ast.IfExp, ast.BoolOp, ast.NamedExpr)):
                        continue
                    if isinstance(getattr(n, "ctx", None), (ast.Store, ast.Del)):
                        continue
                    t = pkg.ev(n, sc)
                    if not pkg.sites(t, "set") and not self.carriers(t):
                        continue
                    recs.append(self.record(n, sc, t))
        return recs

    def carriers(self, t):
        """list/iterator sites in t that carry the iteration order of a set"""
        return [s for s in self.pkg.sites(t) if self.pkg.site_kind[s] != "set" and dict.get(self.pkg.unord, s)]

    def record(self, n, sc, t):
        pkg = self.pkg
        r = Record()
        r.node, r.scope = n, sc
        r.relpath, r.qualname, r.lineno = sc.relpath, sc.qualname, getattr(n, "lineno", 0)
        r.expr = norm_src(n)[:100]
        seq = not pkg.sites(t, "set")
        if seq and isinstance(n, ast.Name):
            why0 = self.sorted_before(n, sc)
            if why0:
                r.kind, r.cats, r.elem, r.issues = "int", set(), "sorted", []
                r.verdict, r.reason, r.construct = INSENS, why0, norm_src(n)
                return r
        if seq:
            et = joins(dict.get(pkg.unord, s, BOT) for s in self.carriers(t))
            r.cats = pkg.categories(et)
            r.kind = "nondet" if r.cats & {"obj", "str"} else ("int" if r.cats <= {"int"} else "unknown")
        else:
            r.kind, r.cats, et = pkg.set_kind(t)
        r.elem = show_ty(pkg, et)
        r.issues = []
        try:
            v, why, construct = self.consumption(n, sc, seq)
            if seq and v in (SENS, UNDET):
                org = sorted({"%s: %s" % (pkg.site_scope[s].qualname, norm_src(pkg.site_node[s])[:50]) for s in self.carriers(t)
                              if not isinstance(pkg.site_node[s], (ast.FunctionDef, ast.AsyncFunctionDef))}
                             | {"generator %s" % pkg.site_scope[s].qualname for s in self.carriers(t)
                                if isinstance(pkg.site_node[s], (ast.FunctionDef, ast.AsyncFunctionDef))})
                why = "sequence in set-iteration order (built in %s); %s" % ("; ".join(org[:3]), why)
        except RecursionError:
            v, why, construct = UNDET, "classification recursion too deep", n
        fsc = self.func_scope(sc)
        if v in (SENS, UNDET) and fsc is not None and fsc.node.name == "__repr__" and fsc.parent.kind == "module":
            v, why = INSENS, "debug representation (__repr__ is not emitted text; see rule debug-repr): " + why
        r.verdict, r.reason = v, why
        r.construct = norm_src(construct)[:300]
        return r

    def sorted_before(self, name, sc):
        """`name` is a local list that is sorted in place with an injective key by a statement dominating this use"""
        fs = self.func_scope(sc)
        if fs is None or sc is not fs or name.id not in fs.bound or name.id in fs.params:
            return None
        use = name
        while use is not None and not isinstance(use, ast.stmt):
            use = getattr(use, "_parent", None)
        cfg = self.cfg_of(fs)
        if use is None or use not in cfg.g:
            return None
        for st in _walk_no_nested(list(fs.node.body)):
            if isinstance(st, ast.Expr) and isinstance(st.value, ast.Call) and isinstance(st.value.func, ast.Attribute) \
                    and st.value.func.attr == "sort" and isinstance(st.value.func.value, ast.Name) and st.value.func.value.id == name.id \
                    and st is not use and st in cfg.g and cfg.dominates(st, use):
                # nothing may append to the list between the sort and the use
                muts = [m for m in _walk_no_nested(list(fs.node.body)) if isinstance(m, ast.Call) and isinstance(m.func, ast.Attribute)
                        and isinstance(m.func.value, ast.Name) and m.func.value.id == name.id and m.func.attr in LIST_ORDERED]
                rebinds = [m for m in _walk_no_nested(list(fs.node.body)) if isinstance(m, ast.Name) and m.id == name.id
                           and isinstance(m.ctx, ast.Store)]
                def stmt_of(x):
                    while x is not None and not isinstance(x, ast.stmt):
                        x = getattr(x, "_parent", None)
                    return x
                late = [m for m in muts + rebinds if stmt_of(m) in cfg.g and cfg.reachable(st, stmt_of(m)) and stmt_of(m) is not st]
                if late:
                    continue
                ok, txt = self.key_verdict(st.value, sc, self.seq_elem_cats(name, sc))
                if ok:
                    return "sorted in place before this use (%s)" % txt
        return None

    # ------------------------------------------------------------- key functions
    def module_value(self, name, relpath, _d=0):
        """the expression a module-level name is bound to (following package imports), with its module"""
        if _d > 4:
            return None, None
        tree = self.pkg.trees.get(relpath)
        if tree is None:
            return None, None
        val = None
        n_assign = 0
        for st in tree.body:
            if isinstance(st, ast.Assign) and any(isinstance(t, ast.Name) and t.id == name for t in st.targets):
                val = st.value
                n_assign += 1
            elif isinstance(st, ast.AnnAssign) and isinstance(st.target, ast.Name) and st.target.id == name and st.value is not None:
                val = st.value
                n_assign += 1
        if n_assign == 1:
            return val, relpath
        if n_assign > 1:
            return None, None
        imp = self.pkg.imports.get(relpath, {}).get(name)
        if imp and imp[1] and imp[0] in self.pkg.by_dotted:
            return self.module_value(imp[1], self.pkg.by_dotted[imp[0]], _d + 1)
        return None, None

    def key_body(self, key, sc, _d=0):
        """resolve a key= expression to (parameter name, body expression) | ('attrgetter', [names]) | ('builtin', name)"""
        if _d > 4:
            return None
        if isinstance(key, ast.Lambda) and len(key.args.args) == 1:
            return ("fn", key.args.args[0].arg, key.body)
        if isinstance(key, ast.Call):
            f = key.func
            nm = f.id if isinstance(f, ast.Name) else (f.attr if isinstance(f, ast.Attribute) else None)
            if nm == "attrgetter":
                return ("attrgetter", [a.value for a in key.args if isinstance(a, ast.Constant)])
            if nm == "itemgetter":
                return None
            return None
        if isinstance(key, ast.Name):
            t = self.pkg.lookup(key.id, sc)
            for atom in t:
                if isinstance(atom, tuple) and atom[0] == "func":
                    fs = self.pkg.scopes[atom[1]]
                    if fs.kind == "lambda":
                        return self.key_body(fs.node, sc, _d + 1)
                    ps = list(fs.params)
                    body = [st for st in fs.node.body if not (isinstance(st, ast.Expr) and isinstance(st.value, ast.Constant))]
                    if len(ps) == 1 and len(body) == 1 and isinstance(body[0], ast.Return) and body[0].value is not None:
                        return ("fn", ps[0], body[0].value)
                    return None
            if t == TOP and key.id in ("id", "hash", "repr", "str", "int", "len"):
                fsc = self.func_scope(sc)
                if fsc is None or key.id not in fsc.bound:
                    ms = self.pkg._module_scope[sc.relpath]
                    if key.id not in ms.bound:
                        return ("builtin", key.id)
            # a local or module-level name bound once to a key function
            fsc = self.func_scope(sc)
            if fsc is not None and key.id in fsc.bound:
                vals = [st.value for st in ast.walk(fsc.node) if isinstance(st, ast.Assign)
                        and any(isinstance(t2, ast.Name) and t2.id == key.id for t2 in st.targets)]
                if len(vals) == 1:
                    return self.key_body(vals[0], sc, _d + 1)
                return None
            val, rp = self.module_value(key.id, sc.relpath)
            if val is not None:
                return self.key_body(val, self.pkg._module_scope[rp], _d + 1)
        return None

    def key_verdict(self, call, sc, elem_cats):
        """sorted/min/max(..., key=K): (ok, text).  ok True: K is a total, injective key (by a table entry);
        False: K depends on addresses/hashes; None: not recognised"""
        key = None
        for k in call.keywords:
            if k.arg == "key":
                key = k.value
        fname = call.func.id if isinstance(call.func, ast.Name) else "?"
        if key is None or (isinstance(key, ast.Constant) and key.value is None):
            if elem_cats and elem_cats <= {"int", "str"} and not ({"int", "str"} <= elem_cats):
                return True, "%s() over %s elements uses their natural total order" % (fname, "/".join(sorted(elem_cats)))
            if not elem_cats:
                return True, "empty"
            return None, "%s() without key over elements that have no total order" % fname
        kb = self.key_body(key, sc)
        ksrc = norm_src(key)[:60]
        if kb is None:
            return None, "key %s not recognised" % ksrc
        if kb[0] == "builtin":
            if kb[1] in ("id", "hash", "repr"):
                return False, "key=%s orders by address/hash" % kb[1]
            if elem_cats <= {"int", "str"}:
                return True, "key=%s on scalar elements" % kb[1]
            return None, "key=%s on elements that are not scalars" % kb[1]
        if kb[0] == "attrgetter":
            hit = [a for a in kb[1] if a in INJECTIVE_ATTRS]
            if hit:
                return True, "key %s = attrgetter(%s): %s" % (ksrc, ", ".join(map(repr, kb[1])), INJECTIVE_ATTRS[hit[0]])
            return None, "key attrgetter(%s) not known to be injective" % kb[1]
        _, p, body = kb
        bad = [c for c in ast.walk(body) if isinstance(c, ast.Call) and isinstance(c.func, ast.Name) and c.func.id in ("id", "hash", "repr")]
        if bad:
            return False, "key %s calls %s(): orders by address/hash" % (ksrc, bad[0].func.id)
        comps = body.elts if isinstance(body, ast.Tuple) else [body]
        inj = None
        for c in comps:
            while isinstance(c, ast.Call) and isinstance(c.func, ast.Name) and c.func.id in ("str", "int", "abs") and len(c.args) == 1:
                c = c.args[0]
            if isinstance(c, ast.Call) and isinstance(c.func, ast.Name) and c.func.id == "getattr" and len(c.args) >= 2 \
                    and isinstance(c.args[0], ast.Name) and c.args[0].id == p and isinstance(c.args[1], ast.Constant) and len(c.args) == 2:
                c = ast.Attribute(value=c.args[0], attr=c.args[1].value, ctx=ast.Load())
            if isinstance(c, ast.Attribute) and isinstance(c.value, ast.Name) and c.value.id == p and c.attr in INJECTIVE_ATTRS:
                inj = c.attr
            if isinstance(c, ast.Name) and c.id == p and elem_cats <= {"int", "str"}:
                inj = inj or "<element>"
        if inj == "<element>":
            return True, "key is the (scalar) element itself"
        if inj:
            return True, "key %s -> .%s: %s" % (ksrc, inj, INJECTIVE_ATTRS[inj])
        return None, "key %s not known to be injective" % ksrc

    # ------------------------------------------------------------ consumption
    def elem_cats(self, node, sc):
        t = self.pkg.ev(node, sc)
        et = joins(self.pkg.elem.get(s, BOT) for s in self.pkg.sites(t))
        return self.pkg.categories(et)

    def is_builtin(self, name_node, sc):
        t = self.pkg.lookup(name_node.id, sc)
        return t == TOP

    def consumption(self, node, sc, seq, depth=0):
        """what the context does with `node`, an expression whose value is a set (seq=False) or a sequence /
        iterator in set-iteration order (seq=True).  -> (verdict, reason, construct)"""
        if depth > 12:
            return UNDET, "expression nesting too deep", node
        pkg = self.pkg
        p = getattr(node, "_parent", None)
        what = "sequence in set order" if seq else "set"
        if p is None:
            return UNDET, "no context", node

        # ---- call argument -------------------------------------------------
        if isinstance(p, ast.Call) and (node in p.args or any(k.value is node for k in p.keywords)):
            fn = p.func
            if isinstance(fn, ast.Name) and self.is_builtin(fn, sc):
                name = fn.id
                if name in ORDER_FREE_FUNCS:
                    return INSENS, "%s(...) does not depend on the order" % name, p
                if name == "sum":
                    cats = self.sum_cats(node, sc)
                    if cats <= {"int"}:
                        return INSENS, "sum() of numbers", p
                    return SENS, "sum() concatenates/accumulates non-numbers in iteration order", p
                if name in ("sorted", "min", "max"):
                    if p.args and p.args[0] is node:
                        ok, txt = self.key_verdict(p, sc, self.seq_elem_cats(node, sc))
                        if ok:
                            return INSENS, "%s(): %s" % (name, txt), p
                        if ok is False:
                            return SENS, "%s(): %s" % (name, txt), p
                        return UNDET, "%s(): %s" % (name, txt), p
                    return FLOWS, "argument of %s()" % name, p
                if name == "next":
                    return SENS, "next() takes an arbitrary (address-ordered) element", p
                if name in TRANSPARENT_FUNCS:
                    v, why, c = self.consumption(p, sc, True, depth + 1)
                    if v == SENS:
                        why = "%s(<set>) materialises the iteration order; %s" % (name, why)
                    return v, why, c
                if name in FORMAT_FUNCS:
                    return SENS, "%s() renders the elements in iteration order" % name, p
                if name in ("dict", "defaultdict", "OrderedDict"):
                    return SENS, "dict insertion order follows the set order", p
                if name in ("isinstance", "hasattr", "callable"):
                    return INSENS, "type test", p
                return UNDET, "passed to builtin %s()" % name, p
            if isinstance(fn, ast.Attribute):
                m = fn.attr
                base = fn.value
                while isinstance(base, (ast.Attribute, ast.Subscript, ast.Call)):
                    base = base.func if isinstance(base, ast.Call) else base.value
                if isinstance(base, ast.Name) and base.id in LOGGER_NAMES:
                    return INSENS, "logging only (not emitted text)", p
                rt = pkg.ev(fn.value, sc)
                rk = {pkg.site_kind[s] for s in pkg.sites(rt)}
                if "set" in rk and (m in SET_MUTATORS or m in SET_ALGEBRA or m in SET_PRED):
                    return INSENS, "set algebra: %s()" % m, p
                if m == "extend" or (m in ("append", "insert", "appendleft") and seq):
                    if seq and m != "extend":
                        return SENS, "a sequence in set order is stored in a list", p
                    return SENS, "list.extend(<set>) appends the elements in iteration order", p
                if m == "join" and "str" in rt:
                    return SENS, "str.join renders the elements in iteration order", p
                if m in ("format", "format_map") and "str" in rt:
                    return SENS, "str.format renders the set in iteration order", p
                if m in ("write", "writelines"):
                    return SENS, "written in iteration order", p
                if m == "update" and "dict" in rk:
                    return SENS, "dict insertion order follows the set order", p
            callees = pkg.callees(p, sc)
            if callees:
                return FLOWS, "passed to %s (parameter types are tracked)" % callees[0][0].qualname, p
            if isinstance(fn, ast.Attribute) and fn.attr in ("append", "add", "setdefault", "get", "insert") and not seq:
                return FLOWS, "the set itself is stored in a container (element types are tracked)", p
            return UNDET, "passed to %s, which is not analysed" % norm_src(fn)[:50], p

        # ---- method of the set ---------------------------------------------
        if isinstance(p, ast.Attribute) and p.value is node:
            gp = getattr(p, "_parent", None)
            m = p.attr
            if isinstance(gp, ast.Call) and gp.func is p:
                if seq:
                    if m in ("count", "__contains__", "__len__"):
                        return INSENS, "sequence method %s()" % m, gp
                    if m == "copy":
                        return self.consumption(gp, sc, True, depth + 1)
                    if m == "sort":
                        ok, txt = self.key_verdict(gp, sc, self.seq_elem_cats(node, sc))
                        if any(k.arg == "reverse" for k in gp.keywords) or gp.args:
                            pass
                        if ok:
                            return INSENS, "sorted in place: %s" % txt, gp
                        if ok is False:
                            return SENS, "sort(): %s" % txt, gp
                        return UNDET, "sort(): %s" % txt, gp
                    if m in LIST_ORDERED or m in ("remove", "clear", "reverse"):
                        return INSENS, "mutation of the list itself (the loop that does it is classified separately)", gp
                    return SENS, "sequence method %s() on a sequence in set order" % m, gp
                if m in SET_MUTATORS or m in SET_PRED or m == "__contains__":
                    return INSENS, "set %s()" % m, gp
                if m in SET_ALGEBRA:
                    return INSENS, "set algebra %s() (the result is again a set)" % m, gp
                if m == "pop":
                    return self.pop_consumption(gp, node, sc)
                return UNDET, "method %s() of a set" % m, gp
            return UNDET, "attribute %s of a set" % m, p

        # ---- comparisons / truthiness ----------------------------------------
        if isinstance(p, ast.Compare):
            ops = p.ops
            if node in p.comparators:
                i = p.comparators.index(node)
                if isinstance(ops[i], (ast.In, ast.NotIn)):
                    return INSENS, "membership test", p
            if seq:
                return SENS, "a sequence in set order is compared", p
            return INSENS, "set comparison", p
        if isinstance(p, ast.UnaryOp) and isinstance(p.op, ast.Not):
            return INSENS, "truth test", p
        if isinstance(p, (ast.If, ast.While, ast.IfExp, ast.Assert)) and p.test is node:
            return INSENS, "truth test", p
        if isinstance(p, ast.BoolOp):
            gp = getattr(p, "_parent", None)
            if isinstance(gp, (ast.If, ast.While, ast.IfExp, ast.Assert)) and gp.test is p:
                return INSENS, "truth test", p
            if isinstance(gp, ast.UnaryOp) and isinstance(gp.op, ast.Not):
                return INSENS, "truth test", p
            if p.values[-1] is not node and isinstance(p.op, ast.And):
                # `S and x`: S is only tested unless it is the last operand
                pass
            return self.consumption(p, sc, seq, depth + 1)
        if isinstance(p, ast.IfExp):
            return self.consumption(p, sc, seq, depth + 1)

        # ---- iteration -----------------------------------------------------------
        if isinstance(p, (ast.For, ast.AsyncFor)) and p.iter is node:
            return self.loop_consumption(p, sc)
        if isinstance(p, ast.comprehension) and p.iter is node:
            comp = getattr(p, "_parent", None)
            if isinstance(comp, ast.SetComp):
                eff = self.comp_effects(comp, p, sc)
                if eff:
                    return eff
                return INSENS, "set comprehension: element-wise map into a set", comp
            if isinstance(comp, ast.DictComp):
                return SENS, "dict comprehension: insertion order follows the set order", comp
            eff = self.comp_effects(comp, p, sc)
            if eff:
                return eff
            v, why, c = self.consumption(comp, sc, True, depth + 1)
            if v == SENS and isinstance(comp, ast.ListComp):
                why = "list comprehension over a set; " + why
            return v, why, c

        # ---- operators ---------------------------------------------------------------
        if isinstance(p, ast.BinOp):
            if isinstance(p.op, ast.Mod) and (p.right is node):
                return SENS, "%%-formatting renders the %s in iteration order" % what, p
            if not seq and isinstance(p.op, (ast.BitOr, ast.BitAnd, ast.Sub, ast.BitXor)):
                return INSENS, "set algebra", p
            if seq or isinstance(p.op, (ast.Add, ast.Mult)):
                return SENS, "sequence concatenation in set order", p
            return UNDET, "operator %s on a set" % p.op.__class__.__name__, p
        if isinstance(p, ast.AugAssign):
            if p.value is node:
                t = pkg.ev(Pkg._as_load(p.target), sc)
                if not seq and pkg.sites(t, "set") and isinstance(p.op, (ast.BitOr, ast.BitAnd, ast.Sub, ast.BitXor)):
                    return INSENS, "set algebra (augmented)", p
                if pkg.sites(t, "list") or seq:
                    return SENS, "list += <set>: appends in iteration order", p
                return UNDET, "augmented assignment with a set", p
        if isinstance(p, ast.Starred):
            v, why, c = self.consumption(p, sc, True, depth + 1)
            return v, ("star-unpacking in iteration order; " + why) if v == SENS else why, c
        if isinstance(p, (ast.FormattedValue, ast.JoinedStr)):
            return SENS, "f-string renders the %s in iteration order" % what, p
        if isinstance(p, ast.Subscript):
            if p.value is node:
                return SENS, "indexing a sequence in set order", p
            if seq:
                return SENS, "a sequence in set order is used as a key", p
            return FLOWS, "used as a key", p

        # ---- bindings / escapes --------------------------------------------------------
        if isinstance(p, (ast.Assign, ast.AnnAssign, ast.NamedExpr)):
            tg = p.targets if isinstance(p, ast.Assign) else [p.target]
            if any(isinstance(t, (ast.Tuple, ast.List)) for t in tg):
                return SENS, "unpacking assigns the elements in iteration order", p
            if seq and not all(isinstance(t, ast.Name) and t.id in getattr(self.func_scope(sc), "bound", ()) for t in tg):
                return SENS, "the order-dependent sequence is stored in %s" % ", ".join(norm_src(t)[:40] for t in tg), p
            return FLOWS, "bound to %s (types are tracked)" % ", ".join(norm_src(t)[:40] for t in tg), p
        if isinstance(p, ast.Return):
            if seq:
                fs = self.func_scope(sc)
                nm = fs.node.name if fs is not None else None
                if nm and nm in pkg.called_names and nm not in pkg.value_names and not (nm.startswith("__") and nm.endswith("__")):
                    return FLOWS, "a sequence in set order is returned to the callers inside the package (its uses are classified there)", p
                return SENS, "the order-dependent sequence is returned to callers outside the analysed package", p
            return FLOWS, "returned (return types are tracked)", p
        if isinstance(p, (ast.Yield, ast.YieldFrom)):
            if seq or isinstance(p, ast.YieldFrom):
                return SENS, "yields in set order", p
            return FLOWS, "yielded", p
        if isinstance(p, (ast.Tuple, ast.List, ast.Set)):
            if seq:
                gp = getattr(p, "_parent", None)
                return SENS, "the order-dependent sequence is stored in a %s" % p.__class__.__name__.lower(), (gp if isinstance(gp, ast.expr) else p)
            if isinstance(p, ast.Tuple) and isinstance(getattr(p, "_parent", None), ast.BinOp) and isinstance(p._parent.op, ast.Mod) and p._parent.right is p:
                return SENS, "%-formatting renders the set in iteration order", p._parent
            return FLOWS, "element of a literal (types are tracked)", p
        if isinstance(p, ast.Dict):
            if seq:
                return SENS, "the order-dependent sequence is stored in a dict", p
            return FLOWS, "dict value", p
        if isinstance(p, ast.keyword):
            gp = getattr(p, "_parent", None)
            return UNDET, "keyword argument", gp or p
        if isinstance(p, ast.Expr):
            return INSENS, "value discarded", p
        if isinstance(p, ast.Lambda):
            return FLOWS, "lambda result", p
        if isinstance(p, ast.withitem) or isinstance(p, ast.Delete):
            return UNDET, "unusual context", p
        return UNDET, "context %s not understood" % p.__class__.__name__, p

    def sum_cats(self, node, sc):
        return self.seq_elem_cats(node, sc)

    def seq_elem_cats(self, node, sc):
        t = self.pkg.ev(node, sc)
        return self.pkg.categories(self.pkg.elem_of(t))

    def comp_effects(self, comp, gen, sc):
        """side effects inside a comprehension over a set (calls that mutate other objects in order)"""
        parts = [comp.elt] if hasattr(comp, "elt") else [comp.key, comp.value]
        parts += gen.ifs
        tn = {n.id for ft in _flat_targets(gen.target) for n in [ft] if isinstance(n, ast.Name)}
        fs = self.func_scope(sc)
        if fs is None:
            return None
        issues = []
        for part in parts:
            for c in ast.walk(part):
                if isinstance(c, ast.Call):
                    self.call_issue(c, fs, sc, tn, tn, issues)
        bad = [i for i in issues if i[0] == SENS]
        if bad:
            return SENS, "comprehension over a set: " + bad[0][1], comp
        und = [i for i in issues if i[0] == UNDET]
        if und:
            return UNDET, "comprehension over a set: " + und[0][1], comp
        return None

    def func_scope(self, sc):
        s = sc
        while s is not None and s.kind == "lambda":
            s = s.parent
        return s if s is not None and s.kind == "func" else None

    # ------------------------------------------------------------------ pop
    def pop_consumption(self, call, setexpr, sc):
        st = call
        while st is not None and not isinstance(st, ast.stmt):
            st = getattr(st, "_parent", None)
        if isinstance(st, ast.Expr) and st.value is call:
            return SENS, "pop() removes an arbitrary (address-ordered) element", call
        if isinstance(st, ast.Assign) and st.value is call and len(st.targets) == 1 and isinstance(st.targets[0], ast.Name):
            x = st.targets[0].id
            par = getattr(st, "_parent", None)
            src = ast.dump(setexpr)
            # drain loop: while S: x = S.pop(); ...
            if isinstance(par, ast.While) and st in par.body:
                test = par.test
                if isinstance(test, ast.Compare) and len(test.ops) == 1 and isinstance(test.ops[0], (ast.Gt, ast.NotEq)) \
                        and isinstance(test.comparators[0], ast.Constant) and test.comparators[0].value == 0:
                    test = test.left  # len(S) > 0 / len(S) != 0
                if isinstance(test, ast.Call) and isinstance(test.func, ast.Name) and test.func.id == "len" and test.args:
                    test = test.args[0]
                if ast.dump(test) == src and par.body.index(st) == 0 and not par.orelse:
                    v, why, c = self.loop_body_verdict(par, [x], par.body[1:], sc, setexpr)
                    return v, "drain loop (while S: x = S.pop()): " + why, "while %s: %s = %s.pop()" % (norm_src(par.test), x, norm_src(setexpr))
            # fold: x = S.pop(); for y in S: x = F(.., x, y)
            body = getattr(par, "body", None)
            for blk in ("body", "orelse", "finalbody"):
                b = getattr(par, blk, None)
                if isinstance(b, list) and st in b:
                    i = b.index(st)
                    # skip statements that do not touch x or S
                    j = i + 1
                    while j < len(b) and not (_names(b[j]) & ({x} | _names(setexpr))):
                        j += 1
                    if j < len(b) and isinstance(b[j], ast.For) and ast.dump(b[j].iter) == src and not b[j].orelse:
                        loop = b[j]
                        if len(loop.body) == 1 and isinstance(loop.body[0], ast.Assign):
                            f = self.fold_of(loop.body[0], sc)
                            if f and isinstance(loop.body[0].targets[0], ast.Name) and loop.body[0].targets[0].id == x:
                                return INSENS, "seed of a fold with %s (%s)" % (f, ACI_FOLDS[f]), call
            return SENS, "pop() yields an arbitrary (address-ordered) element that is used afterwards", call
        return SENS, "pop() yields an arbitrary (address-ordered) element", call

    def fold_of(self, st, sc):
        """`t = F(.., t, ..)` with F an order-independent fold -> F's name"""
        if not isinstance(st, ast.Assign) or not isinstance(st.value, ast.Call):
            return None
        f = st.value.func
        name = f.id if isinstance(f, ast.Name) else (f.attr if isinstance(f, ast.Attribute) else None)
        if name not in ACI_FOLDS:
            return None
        if name in ("min", "max"):
            if not (isinstance(f, ast.Name) and self.is_builtin(f, sc)):
                return None
            if any(k.arg == "key" for k in st.value.keywords):
                ok, _ = self.key_verdict(st.value, sc, set())
                if not ok:
                    return None
        else:
            callees = self.pkg.callees(st.value, sc)
            if not callees or any(c[0].node.name != name for c in callees):
                return None
        argd = {ast.dump(a) for a in st.value.args}
        hit = False
        for t in st.targets:
            if ast.dump(Pkg._as_load(t)) in argd:
                hit = True
            elif not isinstance(t, ast.Name):
                return None
        return name if hit else None

    # ----------------------------------------------------------------- loops
    def loop_consumption(self, loop, sc):
        tnames = [ft.id for ft in _flat_targets(loop.target) if isinstance(ft, ast.Name)]
        if any(not isinstance(ft, ast.Name) for ft in _flat_targets(loop.target)):
            return SENS, "loop target is an attribute/subscript: last element wins", "for %s in %s" % (norm_src(loop.target), norm_src(loop.iter))
        v, why, _ = self.loop_body_verdict(loop, tnames, loop.body, sc, loop.iter)
        if loop.orelse and v == INSENS:
            pass
        return v, why, "for %s in %s" % (norm_src(loop.target), norm_src(loop.iter))

    def cfg_of(self, fs):
        c = self._cfg.get(fs.id)
        if c is None:
            c = CFG(fs.node)
            self._cfg[fs.id] = c
        return c

    def loop_body_verdict(self, loop, tnames, body, sc, setexpr):
        key = (id(loop), tuple(tnames))
        if key in self._loopcache:
            return self._loopcache[key]
        fs = self.func_scope(sc)
        if fs is None or sc.kind != "func":
            res = (UNDET, "loop outside a function body", loop)
            self._loopcache[key] = res
            return res
        issues, notes = [], []
        self.loop_issues(loop, tnames, body, fs, issues, notes)
        bad = [i for i in issues if i[0] == SENS]
        und = [i for i in issues if i[0] == UNDET]
        if bad:
            res = (SENS, "; ".join(dict.fromkeys(i[1] for i in bad[:3])), loop)
        elif und:
            res = (UNDET, "; ".join(dict.fromkeys(i[1] for i in und[:3])), loop)
        else:
            res = (INSENS, "loop body commutes: " + ("; ".join(list(dict.fromkeys(notes))[:4]) or "no effects"), loop)
        self._loopcache[key] = res
        return res

    def dependent_names(self, tnames, body):
        D = set(tnames)
        changed = True
        stmts = [n for s in body for n in _walk_no_nested(s)]
        while changed:
            changed = False
            for n in stmts:
                val, tg = None, []
                if isinstance(n, ast.Assign):
                    val, tg = n.value, n.targets
                elif isinstance(n, (ast.AugAssign, ast.AnnAssign)) and n.value is not None:
                    val, tg = n.value, [n.target]
                elif isinstance(n, (ast.For, ast.comprehension)):
                    val, tg = n.iter, [n.target]
                elif isinstance(n, ast.NamedExpr):
                    val, tg = n.value, [n.target]
                if val is None:
                    continue
                if _names(val) & D:
                    for t in tg:
                        for ft in _flat_targets(t):
                            if isinstance(ft, ast.Name) and ft.id not in D:
                                D.add(ft.id)
                                changed = True
        return D

    def loop_issues(self, loop, tnames, body, fs, issues, notes):
        pkg = self.pkg
        T = frozenset(tnames)
        D = self.dependent_names(tnames, body)
        stmts = [n for s in body for n in _walk_no_nested(s) if isinstance(n, ast.stmt)]
        body_ids = {id(n) for s in body for n in _walk_no_nested(s)}
        nonflag_effect = [False]

        def dep(e):
            return e is not None and bool(_names(e) & D)

        def effect(sev, text):
            issues.append((sev, text))

        early = []
        for st in stmts:
            if isinstance(st, (ast.Assign, ast.AugAssign, ast.AnnAssign)):
                if isinstance(st, ast.AnnAssign) and st.value is None:
                    continue
                tgts = st.targets if isinstance(st, ast.Assign) else [st.target]
                fold = self.fold_of(st, fs) if isinstance(st, ast.Assign) else self.aug_fold(st, fs)
                if fold == "?":
                    effect(UNDET, "%s: cannot tell whether the augmented assignment is a numeric accumulation or a concatenation" % norm_src(st)[:60])
                    continue
                if fold is None and isinstance(st, ast.Assign):
                    fold = self.extremum_fold(st)
                for t in tgts:
                    for ft in _flat_targets(t):
                        if isinstance(ft, ast.Name):
                            self.local_write(loop, st, ft.id, st.value, fold, T, D, fs, body_ids, issues, notes, nonflag_effect)
                        elif isinstance(ft, (ast.Attribute, ast.Subscript)):
                            r = self.fx.roots(ft.value, fs, T)
                            own = bool(r) and all(isinstance(x, tuple) and x[0] == "elem" for x in r)
                            if own:
                                notes.append("writes the element's own state (%s)" % norm_src(ft)[:40])
                                nonflag_effect[0] = True
                                continue
                            if fold:
                                notes.append("%s is a %s-fold (%s)" % (norm_src(ft)[:40], fold, ACI_FOLDS.get(fold, "commutative accumulation")))
                                nonflag_effect[0] = True
                                continue
                            if isinstance(st, ast.AugAssign):
                                effect(SENS, "%s %s= ... accumulates in iteration order" % (norm_src(ft)[:40], st.op.__class__.__name__))
                                continue
                            if isinstance(ft, ast.Subscript) and dep(ft.slice):
                                notes.append("keyed write %s (key depends on the element)" % norm_src(ft)[:40])
                                nonflag_effect[0] = True
                            elif dep(st.value):
                                effect(SENS, "last writer wins: %s = %s (the value depends on the element)" % (norm_src(ft)[:50], norm_src(st.value)[:50]))
                            else:
                                notes.append("idempotent write %s" % norm_src(ft)[:40])
            elif isinstance(st, ast.Return):
                early.append(st)
                if dep(st.value):
                    effect(SENS, "returns an element-dependent value from inside the loop (first match wins)")
            elif isinstance(st, ast.Break):
                early.append(st)
            elif isinstance(st, ast.Delete):
                for t in st.targets:
                    if isinstance(t, (ast.Subscript, ast.Attribute)):
                        notes.append("keyed delete")
                        nonflag_effect[0] = True
            elif isinstance(st, (ast.For, ast.AsyncFor)):
                for ft in _flat_targets(st.target):
                    if isinstance(ft, ast.Name):
                        self.local_write(loop, st, ft.id, None, None, T, D, fs, body_ids, issues, notes, nonflag_effect, is_for=True)
            elif isinstance(st, (ast.With, ast.AsyncWith, ast.Try, ast.Global, ast.Nonlocal, ast.Import, ast.ImportFrom)):
                if isinstance(st, (ast.With, ast.AsyncWith)):
                    effect(UNDET, "with-statement inside the loop body")
        # yields and calls anywhere in the body (expressions of every statement, but not nested defs)
        for s in body:
            for n in _walk_no_nested(s):
                if isinstance(n, (ast.Yield, ast.YieldFrom)):
                    effect(SENS, "yields inside the loop: the generator produces values in set order")
                elif isinstance(n, ast.Call):
                    before = len(issues)
                    nb = len(notes)
                    self.call_issue(n, fs, fs, T, D, issues, notes)
                    if len(notes) > nb:
                        nonflag_effect[0] = True
                elif isinstance(n, (ast.FunctionDef, ast.Lambda)) and n is not s:
                    pass
        if early and nonflag_effect[0] and not any(i[0] == SENS for i in issues):
            effect(SENS, "early exit (%s) leaves the per-element effects applied to an order-dependent subset" % early[0].__class__.__name__.lower())

    def extremum_fold(self, st):
        """`if E < v: v = E` (running minimum/maximum of a value) or `if x.num < v.num: v = x` (arg-min/max by an
        injective key): the final value does not depend on the order of the elements"""
        if len(st.targets) != 1 or not isinstance(st.targets[0], ast.Name):
            return None
        v = st.targets[0].id
        par = getattr(st, "_parent", None)
        if not isinstance(par, ast.If) or st not in par.body:
            return None
        pairs = []
        for c in ast.walk(par.test):
            if isinstance(c, ast.Compare):
                items = [c.left] + list(c.comparators)
                for (l, op, r) in zip(items, c.ops, items[1:]):
                    if isinstance(op, (ast.Lt, ast.LtE, ast.Gt, ast.GtE)):
                        pairs.append((l, r))
        val = ast.dump(st.value)
        for l, r in pairs:
            for a, b in ((l, r), (r, l)):
                if ast.dump(a) == val and isinstance(b, ast.Name) and b.id == v:
                    return "min/max"
                if isinstance(st.value, ast.Name) and isinstance(a, ast.Attribute) and isinstance(b, ast.Attribute) \
                        and a.attr == b.attr and a.attr in INJECTIVE_ATTRS and isinstance(a.value, ast.Name) and isinstance(b.value, ast.Name) \
                        and a.value.id == st.value.id and b.value.id == v:
                    return "arg-min/max by .%s" % a.attr
        return None

    def aug_fold(self, st, fs):
        if not isinstance(st, ast.AugAssign):
            return None
        if isinstance(st.op, (ast.BitOr, ast.BitAnd, ast.BitXor)):
            return "bit-or/and"
        if isinstance(st.op, (ast.Add, ast.Mult, ast.Sub)):
            t = self.pkg.ev(Pkg._as_load(st.target), fs)
            v = self.pkg.ev(st.value, fs)
            seqish = lambda x: "str" in x or any(isinstance(a, tuple) and a[0] in ("site", "tup", "tupv") for a in x)
            if seqish(t) or seqish(v):
                return None  # concatenation: ordered
            if "int" in t or "int" in v:
                return "sum"  # number (+) anything that is not a sequence: a number (or TypeError)
            return "?"
        return None

    def local_write(self, loop, st, name, value, fold, T, D, fs, body_ids, issues, notes, nonflag, is_for=False):
        if name in T:
            return
        if name not in fs.bound:
            # closure / global variable
            if fold:
                notes.append("%s is a fold" % name)
            elif value is not None and _names(value) & D:
                issues.append((SENS, "last writer wins: non-local %s = %s" % (name, norm_src(value)[:50])))
            return
        if fold:
            notes.append("%s is a %s-fold (%s)" % (name, fold, ACI_FOLDS.get(fold, "commutative accumulation")))
            return
        carried, escapes = self.reach(loop, st, name, fs, body_ids)
        captured = self.captured(name, fs)
        elem_dep = is_for or (value is not None and bool(_names(value) & D)) or (value is not None and self.has_impure_call(value, fs))
        if isinstance(st, ast.AugAssign):
            elem_dep = True
            carried = True
        if carried:
            issues.append((SENS, "loop-carried state: %s is read in a later iteration before it is reassigned" % name))
            return
        if (escapes or captured) and elem_dep:
            issues.append((SENS, "last writer wins: %s = %s is read after the loop" % (name, norm_src(value)[:50] if value is not None else "<loop variable>")))
            return
        if escapes and not elem_dep:
            notes.append("idempotent flag %s" % name)

    def has_impure_call(self, e, fs):
        for c in ast.walk(e):
            if isinstance(c, ast.Call):
                ks = self.fx.call_kind(c, fs)
                for k in ks:
                    if k[0] in ("mut", "unknown"):
                        return True
        return False

    def captured(self, name, fs):
        for sub in getattr(fs, "nested", {}).values():
            for n in ast.walk(sub.node):
                if isinstance(n, ast.Name) and n.id == name and name not in sub.bound:
                    return True
        return False

    @staticmethod
    def _header_exprs(st):
        """expressions evaluated by the CFG node `st` itself"""
        if isinstance(st, (ast.If, ast.While)):
            return [st.test]
        if isinstance(st, (ast.For, ast.AsyncFor)):
            return [st.iter]
        if isinstance(st, (ast.With, ast.AsyncWith)):
            return [i.context_expr for i in st.items]
        if isinstance(st, ast.Try):
            return []
        if isinstance(st, (ast.FunctionDef, ast.AsyncFunctionDef, ast.ClassDef)):
            return [st]
        return [st]

    def _uses(self, st, name):
        if isinstance(st, ast.AugAssign) and isinstance(st.target, ast.Name) and st.target.id == name:
            return True
        for e in self._header_exprs(st):
            for n in ast.walk(e):
                if isinstance(n, ast.Name) and n.id == name and isinstance(n.ctx, ast.Load):
                    return True
        return False

    @staticmethod
    def _kills(st, name):
        if isinstance(st, ast.Assign):
            return any(isinstance(ft, ast.Name) and ft.id == name for t in st.targets for ft in _flat_targets(t))
        if isinstance(st, (ast.AnnAssign, ast.AugAssign)):
            return isinstance(st.target, ast.Name) and st.target.id == name and getattr(st, "value", None) is not None
        if isinstance(st, (ast.For, ast.AsyncFor)):
            return False  # the target is bound on the body edge only; treated as non-killing (conservative)
        return False

    def _binds_in_header(self, st, name):
        return isinstance(st, (ast.For, ast.AsyncFor)) and any(
            isinstance(ft, ast.Name) and ft.id == name for ft in _flat_targets(st.target))

    def reach(self, loop, defst, name, fs, body_ids):
        """does the definition of `name` at defst reach (a) a use inside the loop in a *later* iteration
        (loop-carried), (b) a use outside the loop body?"""
        cfg = self.cfg_of(fs)
        g = cfg.g
        if defst not in g:
            return True, True
        carried = escapes = False
        seen = set()
        stack = [(m, False) for m in g.successors(defst)]
        while stack:
            n, via_back = stack.pop()
            nxt_back = via_back or (n is loop)
            k = (id(n), nxt_back)
            if k in seen:
                continue
            seen.add(k)
            succ = list(g.successors(n))
            if isinstance(n, ast.AST):
                inside = id(n) in body_ids
                if self._uses(n, name):
                    if n is loop:
                        if isinstance(loop, ast.While):
                            carried = True
                    elif not inside:
                        escapes = True
                    elif via_back:
                        carried = True
                if self._kills(n, name):
                    continue
                if self._binds_in_header(n, name):
                    # entering the body rebinds the name; only the exit edge keeps the old value
                    succ = cfg.succ(n, False)
            for m in succ:
                stack.append((m, nxt_back))
        return carried, escapes

    # ------------------------------------------------------------------ calls in loops
    def call_issue(self, c, fs, sc, T, D, issues, notes=None):
        notes = notes if notes is not None else []
        fx = self.fx
        T = frozenset(T)
        kinds = fx.call_kind(c, fs)
        argdep = any(_names(a) & set(D) for a in list(c.args) + [k.value for k in c.keywords])

        def judge(roots, kind, what, direct=False):
            if not roots:
                return
            own = all((isinstance(x, tuple) and x[0] == "elem") for x in roots)
            if own:
                notes.append("%s only touches the element itself" % what)
                return
            if kind == "keyed":
                notes.append("%s: set/dict-keyed update" % what)
            elif kind == "ordered":
                if direct and roots and all(x == "local" for x in roots):
                    notes.append("%s accumulates into a list local to this function (it carries the set order; its uses are classified)" % what)
                else:
                    issues.append((SENS, "%s appends to an ordered container of another object, once per element, in iteration order" % what))
            elif kind == "attr":
                if argdep or (isinstance(c.func, ast.Attribute) and _names(c.func.value) & set(D)):
                    issues.append((SENS, "%s rebinds an attribute of another object from element-dependent arguments (last writer wins)" % what))
                else:
                    notes.append("%s: idempotent attribute write" % what)
            else:
                issues.append((UNDET, "%s has effects that are not understood" % what))

        for k in kinds:
            if k[0] == "pure":
                continue
            if k[0] == "mut":
                recv = k[2]
                if isinstance(recv, ast.Name) and recv.id == "print":
                    issues.append((SENS, "print() inside the loop"))
                    continue
                direct = isinstance(c.func, ast.Attribute) and c.func.attr in ("append", "extend", "insert") \
                    and isinstance(recv, ast.Name) and bool(self.pkg.sites(self.pkg.ev(recv, fs), "list"))
                judge(fx.roots(recv, fs, T), k[1], "%s()" % norm_src(c.func)[:50], direct)
            elif k[0] == "unknown":
                issues.append((UNDET, k[1]))
            elif k[0] == "pkg":
                for callee, recv, bindself in k[1]:
                    summ = fx.summary(callee)
                    for root, kind in sorted(summ, key=repr):
                        rs = fx.map_root(root, c, fs, callee, recv, bindself, T)
                        rs = frozenset(x for x in rs if x != "local") if bindself == "ctor" or True else rs
                        # 'local' of the enclosing function is another object too, unless created by this call
                        rs2 = fx.map_root(root, c, fs, callee, recv, bindself, T)
                        if rs2 and all(x == "local" for x in rs2) and self.fresh_arg(root, c, callee, recv, bindself):
                            continue
                        judge(rs2, kind, "%s() [%s]" % (norm_src(c.func)[:40], callee.qualname))

    def fresh_arg(self, root, c, callee, recv, bindself):
        """the object the callee mutates is created in the call expression itself"""
        if root == "self":
            return bindself == "ctor" or (isinstance(recv, ast.Call) if recv is not None and recv != "super" else False)
        if isinstance(root, tuple) and root[0] == "param":
            a = self.fx.arg_for(c, callee, root[1])
            return isinstance(a, (ast.Call, ast.List, ast.Dict, ast.Set, ast.ListComp, ast.DictComp, ast.SetComp, ast.Tuple, ast.Constant))
        return False
