#!/venv/bin/python
"""Regenerate the generated blocks of DESIGN.md (between <!-- BEGIN:x --> / <!-- END:x --> markers):
 overview  - one row per property: verdict, technique, state of today's tree
 fixes     - the fix: commits in /repo
 known     - the known findings still reported
 seeded    - which check catches which independently seeded change (from seeded/*/meta.json)
"""
import glob, json, os, re, subprocess, sys
here = os.path.dirname(os.path.dirname(os.path.abspath(__file__)))
sys.path.insert(0, here)
from agstatic import registry

props = [json.loads(l) for l in open(os.path.join(here, "properties.jsonl"))]
known = json.load(open(os.path.join(here, "known_findings.json")))["findings"]
for f in glob.glob(os.path.join(here, "known_findings.d", "*.json")):
    known += json.load(open(f))["findings"]


def block_overview():
    rows = ["| id | verdict | deciding technique | unchanged tree today |", "|----|---------|--------------------|----------------------|"]
    for p in props:
        pid = p["id"]
        if pid in registry.CLAIMED:
            k = [x for x in known if x["property"] == pid and x.get("status", "known") == "known"]
            fx = sorted({x.get("commit") for x in known if x["property"] == pid and x.get("status") == "fixed" and x.get("commit")})
            st = "pass"
            if fx:
                st += "; defect(s) repaired in " + ", ".join(fx)
            if k:
                st += "; %d known finding key(s) still reported" % len(k)
            rows.append("| %s | claim | %s | %s |" % (pid, registry.CLAIMED[pid]["technique"], st))
        else:
            rows.append("| %s | **n/a** | — | %s |" % (pid, registry.NOT_APPLICABLE.get(pid, "not built")[:110]))
    return "\n".join(rows)


def block_fixes():
    out = subprocess.run(["git", "-C", "/repo", "log", "--format=%h %s"], capture_output=True, text=True).stdout.splitlines()
    rows = ["| commit | repair | property |", "|--------|--------|----------|"]
    for l in out:
        h, s = l.split(" ", 1)
        if not s.startswith("fix:"):
            continue
        pr = sorted({x["property"] for x in known if x.get("commit", "").startswith(h[:8])})
        rows.append("| %s | %s | %s |" % (h, s[5:], ", ".join(pr)))
    return "\n".join(rows)


def block_known():
    rows = ["| property | rule | construct (key) | what fails |", "|----------|------|-----------------|------------|"]
    seen = set()
    for x in known:
        if x.get("status", "known") != "known":
            continue
        what = x["what"].split(" -- ")[0]
        key = (x["property"], x["rule"], what[:80])
        if x["property"] == "C04":
            key = (x["property"], x["rule"])
        if key in seen:
            continue
        seen.add(key)
        n = sum(1 for y in known if y.get("status", "known") == "known" and y["property"] == x["property"] and y["rule"] == x["rule"]) if x["property"] == "C04" else 1
        rows.append("| %s | %s | `%s`%s | %s |" % (x["property"], x["rule"], x["construct"][:70].replace("|", "\\|"), " (+%d more keys of this rule)" % (n - 1) if n > 1 else "",
                                                   what[:260].replace("|", "\\|")))
    return "\n".join(rows)


def _matrix(kind):
    mp = os.path.join(here, kind, "MATRIX.json")
    return json.load(open(mp)) if os.path.exists(mp) else None


def block_benign():
    """two states per probe: the first run (recorded in the probe's meta.json when it was delivered, i.e. before the hardening round for
    that property) and the current state (tools/matrix.py)"""
    mx = _matrix("benign")
    rows = ["| probe | kind of refactoring | first run: false alarms (exit 1) | first run: undecided (exit 2) | now: false alarms | now: undecided |",
            "|-------|---------------------|------|------|------|------|"]
    stats = {}
    for d in sorted(glob.glob(os.path.join(here, "benign", "*"))):
        mp = os.path.join(d, "meta.json")
        if not os.path.exists(mp):
            continue
        m = json.load(open(mp))
        name = os.path.basename(d)
        am = m.get("agent_meta") or {}
        first = m.get("nonzero_checks", {})
        res = (mx or {}).get("results", {}).get(name)
        if res is None:
            res = first
        sel = lambda r_, code: sorted(p for p, r in r_.items() if isinstance(r, dict) and r.get("rc") == code)
        a1, a2, f1, f2 = sel(first, 1), sel(first, 2), sel(res, 1), sel(res, 2)
        rnd = "round 1 (A/B/C)" if name[-1] in "ABC" else "round 2 (D, held out after wave 3; deep refactorings)"
        st = stats.setdefault(rnd, dict(n=0, fa0=0, un0=0, fa=0, un=0))
        st["n"] += 1
        st["fa0"] += bool(a1)
        st["un0"] += bool(a2)
        st["fa"] += bool(f1)
        st["un"] += bool(f2)
        rows.append("| %s | %s | %s | %s | %s | %s |" % (name, ((am.get("kind") or am.get("summary") or "")[:110]).replace("|", "\\|").replace("\n", " "),
                                                     ", ".join(a1) or "none", ", ".join(a2) or "none", ", ".join(f1) or "none", ", ".join(f2) or "none"))
    rows.append("")
    for rnd, st in sorted(stats.items()):
        rows.append("%s: %d probes. First run: %d with a false alarm from some check, %d with an undecided check. "
                    "Now: %d with a false alarm, %d with an undecided check." % (rnd, st["n"], st["fa0"], st["un0"], st["fa"], st["un"]))
        rows.append("")
    return "\n".join(rows)


def block_seeded():
    """per seed: what caught it at first contact (recorded in its meta.json when it was confirmed, i.e. before any check was strengthened for
    it) and what catches it now (tools/matrix.py); round 1 = variants A/B, round 2 (held out) = variants C/D"""
    mx = _matrix("seeded")
    rows = ["| seed | breaks | what it needs to manifest | first contact: exit 1 from | first contact: own check | now: exit 1 from | now: exit 2 from |",
            "|------|--------|---------------------------|------|------|------|------|"]
    stats = {}
    for d in sorted(glob.glob(os.path.join(here, "seeded", "*"))):
        mp = os.path.join(d, "meta.json")
        if not os.path.exists(mp):
            continue
        m = json.load(open(mp))
        if not m.get("valid_seed"):
            continue
        name = os.path.basename(d)
        own = name.split("_")[0]
        am = m.get("agent_meta") or {}
        ch = m.get("checks") or {}
        rc_of = lambda v: v.get("rc") if isinstance(v, dict) else v
        first1 = sorted(k for k, v in ch.items() if rc_of(v) == 1) or sorted(m.get("caught_by") or [])
        own_first = {1: "exit 1", 2: "exit 2 (undecided)"}.get(rc_of(ch.get(own)), "exit 0 (silent)") if ch else ("exit 1" if own in first1 else "?")
        now1, now2 = first1, []
        if mx and name in mx.get("results", {}):
            res = mx["results"][name]
            now1 = sorted(p for p, r in res.items() if isinstance(r, dict) and r.get("rc") == 1)
            now2 = sorted(p for p, r in res.items() if isinstance(r, dict) and r.get("rc") == 2)
        rnd = "round 1 (A/B)" if name[-1] in "AB" else "round 2 (C/D, held out)" if name[-1] in "CD" else "round 3 (E, held out after wave 3)"
        st = stats.setdefault(rnd, dict(n=0, first_any=0, first_own=0, now_any=0, now_own=0, now_own2=0))
        st["n"] += 1
        st["first_any"] += bool(first1)
        st["first_own"] += own in first1
        st["now_any"] += bool(now1)
        st["now_own"] += own in now1
        st["now_own2"] += own in now2 and own not in now1
        cb = ", ".join(now1) or "**missed**"
        if m.get("note"):
            cb += " (" + m["note"] + ")"
        rows.append("| %s | %s | %s | %s | %s | %s | %s |" % (name, (am.get("summary") or "")[:170].replace("|", "\\|").replace("\n", " "),
                                                          (am.get("needs_to_manifest") or "")[:150].replace("|", "\\|").replace("\n", " "),
                                                          ", ".join(first1) or "none", own_first, cb, ", ".join(now2) or "none"))
    rows.append("")
    for rnd, st in sorted(stats.items()):
        rows.append("%s: %d valid seeds. First contact: %d caught by the property's own check, %d by some check. Now: %d by the own check "
                    "(%d more: own check undecided, exit 2), %d by some check." % (rnd, st["n"], st["first_own"], st["first_any"], st["now_own"], st["now_own2"], st["now_any"]))
        rows.append("")
    return "\n".join(rows)


def block_wave3():
    import sys
    sys.path.insert(0, here)
    from agstatic import registry
    rows = ["| property | clause / scenario family added in the held-out round |", "|---|---|"]
    for pid, txt in sorted(registry.WAVE3.items()):
        rows.append("| %s | %s |" % (pid, txt.strip().replace("|", "\\|")))
    rows.append("| C02 | `repeat`: a second `DCode.get_instructions` must report what the first did |")
    rows.append("| C03 | readers run on 8 arbitrary bytes followed by end of file (a reader that follows more than five continuation bits is seen) |")
    rows.append("| C04 | `class-binding`: `ClassDefItem.reload` on two class definitions sharing one `encoded_array_item`; exact `a - (a & sign)` arithmetic in the bit domain |")
    rows.append("| C27 | `sequence/A-then-B`: one data word formatted as two types in one interpreter vs a fresh interpreter |")
    rows.append("| C30 | language and region halves with the same packed bytes; `bytes(list)` + `struct.unpack` of the locale word; semantic comparison with witnesses |")
    return "\n".join(rows[:2] + sorted(rows[2:]))


BLOCKS = dict(wave3=block_wave3, overview=block_overview, fixes=block_fixes, known=block_known, seeded=block_seeded, benign=block_benign)
p = os.path.join(here, "DESIGN.md")
t = open(p).read()
for name, fn in BLOCKS.items():
    pat = re.compile(r"(<!-- BEGIN:%s -->\n).*?(<!-- END:%s -->)" % (name, name), re.S)
    if pat.search(t):
        t = pat.sub(lambda m: m.group(1) + fn() + "\n" + m.group(2), t)
open(p, "w").write(t)
print("DESIGN.md tables regenerated")
