"""Per-property metadata used to generate MANIFEST.json (tools/gen_manifest.py)."""

# id -> dict(technique, text, note, design_ref)
CLAIMED = {}

NOT_APPLICABLE = {
    "C06": "MUTF-8 decoding is done by the third-party compiled mutf8 package, not by repository source; nothing to analyse statically (reader termination is decided under C35)",
    "C18": "correctness of Lengauer-Tarjan on every rooted graph is an algorithmic theorem needing inductive invariants over run-time data, not a shape of the code",
    "C19": "validity of the RPO numbering on every graph is an algorithmic theorem and depends on run-time reachability; no sound shape-level clause",
    "C20": "equality with the reaching-definitions fixpoint on every CFG is an algorithmic theorem over run-time data; no sound shape-level clause",
    "C26": "tree equality of arbitrary documents flows through string pools, namespace stacks and lxml at run time; no necessary shape-level clause beyond C27/C35",
    "C28": "which entry a resource id resolves to is a function of the table's run-time data; structural fragments are covered under C27/C35 and do not amount to the property",
    "C31": "every query is an lxml iteration over run-time attributes; any static rule would be a frozen copy of three-line helpers",
}


def claim(pid, technique, text, note, design_ref=None):
    CLAIMED[pid] = dict(technique=technique, text=text, note=note, design_ref=design_ref or ("DESIGN.md section 4, %s" % pid))


claim("C01", "bit-provenance abstract interpretation + opcode-table agreement",
      "Every Instruction class reachable from DALVIK_OPCODES_FORMAT is abstractly interpreted per opcode with all operand bits symbolic: "
      "length, get_raw round trip, operand position/width/sign/shift/role and unused-opcode rejection are decided for all bit patterns at once; "
      "the opcode table is compared row by row with an independent Dalvik table.",
      "Trusted: CPython ast, the abstract transfer functions of agstatic/bits.py, the hand-written spec table agstatic/spec/dalvik.py, "
      "cm.packer[fmt] == struct.Struct('<'+fmt). ODEX-only opcodes are outside the specification and not decided.")

claim("C03", "bit-provenance abstract interpretation of LEB128 readers and writers (write-then-read composed abstractly)",
      "readuleb128/readsleb128/readuleb128p1 are interpreted over symbolic bytes: every 1..5-byte path must be selected exactly by the continuation bits, "
      "consume exactly that many bytes and produce the DEX-specified bit layout truncated to 32 bits with the right extension. The writers are interpreted on a "
      "symbolic 32-bit value (magnitude classes by exact refinement) and their abstract output is run through the abstract reader: identity on every bit, flags correct.",
      "Trusted: agstatic bit domain and interpreter; cm.packer['B'] is an unsigned byte; stream.read(1) yields the next byte (EOF makes unpack raise).")

claim("C04", "abstract interpretation of EncodedValue.__init__ per header byte (bit provenance) + binding and printing provenance",
      "For every (value_type, value_arg) header the constructor is interpreted over symbolic bytes: integers must be the little-endian value of exactly value_arg+1 bytes "
      "with the DEX-specified sign/zero extension, references must resolve the zero-extended index through the right ClassManager accessor, nested values parse from the same stream. "
      "set_static_fields must bind value i to field i, and the conversion DvClass.get_source applies before printing is interpreted on the reader's abstract value.",
      "Trusted: agstatic bit domain; DEX encoded_value table in the rule (from the public format document). FLOAT/DOUBLE/METHOD_TYPE/METHOD_HANDLE not decided. "
      "29 listed known findings (no sign extension) stay reported as KNOWN-FINDING.")

claim("C27", "abstract interpretation of format_value per Res_value type with a symbolic 32-bit datum; formatting results normalised to pieces",
      "format_value (and ARSCParser.get_resource_dimen/color) are interpreted for each defined type over all 2^32 data values at once (paths split on radix, unit, package and sign bits); "
      "the normalised output pieces must be Android's: signed 24-bit mantissa x RADIX_MULTS[radix] (x100) + unit, signed 32-bit decimal, IEEE reinterpretation, 8 hex digits, boolean, '@'/'?' + android: prefix.",
      "Trusted: agstatic bit domain and format normaliser; AOSP constants transcribed in the rule; _data is an unsigned 32-bit value. Unit nibbles outside the AOSP tables are not constrained.")

claim("C30", "abstract interpretation of locale pack/unpack on symbolic strings and words (bit provenance + base+x linear character codes)",
      "set_language_and_region/get_language_and_region and their helpers are interpreted on symbolic locale strings of every shape (2/3-letter language x none/2-letter/2-digit/3-char region) "
      "and on symbolic configuration words of every reader form: get(set(s)) == s character by character, set(get(w)) == w bit by bit, decoded text = AOSP unpackLanguageOrRegion layout, default locale round-trips.",
      "Trusted: agstatic domains (Bits, Lin, StrV); character classes assumed for letters/digits; AOSP packed layout transcribed in the rule.")

claim("C23", "code-point class partition + abstract interpretation of writer.string per class, output read with JLS lexical rules",
      "The code-point domain is partitioned by every constant string() compares with; per class the loop body is interpreted with the code point symbolic "
      "(bit provenance in the BMP, 0x10000+y above) and the appended pieces are lexed by Java's rules: raw/backslash/named/unicode escapes must denote exactly the UTF-16 code unit(s), "
      "four nibble digits per \\u, none for LF/CR/quote/backslash, surrogate pair for supplementary characters. visit_constant must route through string().",
      "Trusted: agstatic domains; JLS 3.3/3.10.5/3.10.6 rules and Python's unicode-escape for TAB/LF/CR as transcribed in the rule; string() is a per-character map.")

claim("C02", "abstract interpretation of the sweep dispatch over the 16-bit unit domain + loop-progress CFG rule + payload constructors interpreted over symbolic buffers",
      "Dispatch: every first code unit (thorough: all 65536 x ODEX on/off; quick: all low bytes x one representative per distinguishable high-byte class) must be routed to the decoder the Dalvik format assigns, independent of position. "
      "Termination: every path round the loop passes idx += get_length() and every reachable get_length() has interval >= 2. Payloads: constructor bytes consumed == get_length() == len(get_raw()), get_raw() reproduces every input bit, "
      "and a buffer shorter than the payload makes the constructor raise.",
      "Trusted: agstatic interpreter and bit domain; payload size agreement is checked on a grid of sizes and extended to all sizes by a syntactic fragment check (affine with parity). "
      "Not decided: equality of the yielded stream with an assembled program.")


# ---- rules written by the cluster builders: texts come from notes/CNN.md (tools/claims_from_notes.py) -------------
TECHNIQUE = {
    "C05": "def-use provenance of API getters to struct slots / LEB reads vs an independent DEX layout table",
    "C07": "map-order independence conditions: single sorted parse loop, absolute seeks, parse-time section reads within the declared dependency closure",
    "C08": "unit typing + affine forms of try/catch ranges and handler addresses; sibling guard agreement",
    "C09": "must-raise guard dominance on the CFG with predicate evaluation over wrong-value partitions; header-before-map ordering",
    "C10": "leader-set dataflow + opcode-class agreement (BasicOPCODES = determineNext domain = spec flow opcodes) + block contiguity",
    "C11": "per-opcode-class successor formulas as affine forms with units vs spec; child/father mirroring",
    "C12": "order-type abstract interpretation of the try-range predicate over all weak orderings of 4 points",
    "C13": "origin typing (CUR/TARGET/OFF) of xref-recording calls, branch opcode sets, to/from pairing, resolution-key agreement",
    "C14": "origin typing of field xref recorders: receiver must be the TARGET field's class",
    "C15": "origin typing of string / new-instance / const-class xref recorders and their opcode sets",
    "C16": "effect discipline of Analysis.add + layering rule (no per-DEX definition lookup while creating xrefs)",
    "C17": "index-domain typing of the rename hook store + cache-invalidation pairing",
    "C21": "symbolic handler-signature extraction for every INSTRUCTION_SET slot vs an independent opcode->Java operator table",
    "C22": "unordered-iteration order-sensitivity analysis (element-kind inference x consumption kind) over the decompiler",
    "C24": "abstract string interpretation of both get_type renderers on symbolic descriptor classes; strip-charset and prefix-guard rules",
    "C25": "truth-table evaluation of the short-circuit merge sites, Condition.neg, CONDS and writer negation",
    "C29": "recursion-SCC rule: a checked, growing, threaded, per-call-fresh visited state on every cycle of the resolver",
    "C32": "verification-gating typestate on the CFG: a certificate reaches a return only through a successful verify on the right data",
    "C33": "constant agreement of signing-block ids, flag/own-id boolean dataflow, first-match selection, guard truth table",
    "C34": "regex-language equivalence (NFA/DFA over re._parser AST) + KeyError->FileNotPresent mapping + unfiltered name list",
    "C35": "loop and recursion termination certificates (checked read, forward seek, monotone counter, finite collection, event consumer, advancing recursion) over the parser call graph",
    "C36": "check-then-act rule on the session table: the primary key may not derive from an unlocked read of the same table",
    "C37": "taint analysis from DEX-derived names to filesystem sinks with containment-sanitizer recognisers",
    "C38": "fact-preservation (typestate) analysis of clean_file_name with regex character-class coverage",
    "C39": "order-type abstract interpretation of the API-level fallback decisions + falsy-zero sentinel rule",
    "C40": "offset provenance from get_instructions_idx, unit typing (code units vs bytes), sibling agreement of payload address computations",
}

# properties whose builder-written rule has been reviewed, is silent on the unchanged tree and passes its self-test
INTEGRATED = ["C21", "C24", "C09", "C32", "C29", "C36", "C12", "C39", "C33", "C13", "C14", "C15", "C16", "C40",
              "C34", "C38", "C37", "C05", "C07", "C17", "C22", "C08", "C10", "C11", "C25", "C35"]


def _load_integrated():
    import json
    import os
    p = os.path.join(os.path.dirname(os.path.abspath(__file__)), "claims_notes.json")
    notes = json.load(open(p)) if os.path.exists(p) else {}
    for pid in INTEGRATED:
        if pid in CLAIMED:
            continue
        n = notes.get(pid) or {}
        import re as _re

        def _clean(t):
            t = t or ""
            t = _re.sub(r"^[/:\s]*(trusted base)?\s*(\(manifest\))?\s*(\*?(Level text|Text)\*?\s*:)?\s*", "", t, flags=_re.I)
            return t.replace("`", "").strip()
        text = _clean(n.get("text")) or TECHNIQUE[pid]
        note = _clean(n.get("note"))
        if not note or note[:40] == text[:40]:
            m = _re.search(r"(?i)trusted base\W+(.*)", text)
            note = m.group(1) if m else "CPython ast, the agstatic engine modules the rule imports, and the spec tables transcribed in the rule."
            text = _re.split(r"(?i)\W*trusted base", text)[0]
        claim(pid, TECHNIQUE[pid], text[:900], ("Trusted base: " + note)[:700])


_load_integrated()
