"""C33, clause 'item lists': APK.parse_signatures_or_digests is abstractly interpreted on symbolic sequences of
length-prefixed (algorithm id, length-prefixed bytes) items -- the encoding the APK Signature Scheme v2/v3 uses for
digests and signatures.  For every shape (0..3 items, various lengths) the result must be exactly the items of the
sequence, in order, with the algorithm id taken from the item's own 4 bytes and the bytes from the item's own payload.
"""
from __future__ import annotations

import struct

from ..absint import Interp, Sym, StreamV, BytesV, Obj, Raised, explore, show
from ..bits import Bits
from ..consts import Folder
from ..model import APK, AnalysisError

SHAPES = [(), (0,), (3,), (32,), (3, 5), (32, 64), (1, 0, 2), (4, 4, 4)]


def _const_bytes(b):
    return [[(x >> i) & 1 for i in range(8)] for x in b]


def _sym_bytes(tag, n):
    return [[("s", "%s.%d" % (tag, k), i) for i in range(8)] for k in range(n)]


def run_clause(ctx):
    repo = ctx.repo
    m = ctx.mod(APK)
    folder = Folder(repo)
    cls = m.cls("APK")
    f = cls.lookup("parse_signatures_or_digests")
    ctx.require(f is not None, "APK.parse_signatures_or_digests vanished")
    ctx.analysed(f)
    rd = cls.lookup("read_uint32_le")
    if rd is not None:
        ctx.analysed(rd)

    def call_hook(it, name, callee, args, kwargs, e, func):
        if isinstance(callee, Sym) and callee.op in ("modattr", "attr") and callee.args[-1] == "BytesIO" and len(args) == 1 and isinstance(args[0], BytesV):
            return StreamV("block", backing=args[0])
        return NotImplemented

    def method_hook(it, recv, name, args, kwargs, e, func):
        if name == "BytesIO" and len(args) == 1 and isinstance(args[0], BytesV):
            return StreamV("block", backing=args[0])
        return NotImplemented

    for shape in SHAPES:
        ctx.count("list_shapes")
        data = []
        exp = []
        for i, n in enumerate(shape):
            algo = _sym_bytes("alg%d" % i, 4)
            dig = _sym_bytes("dig%d" % i, n)
            data += _const_bytes(struct.pack("<I", 8 + n)) + algo + _const_bytes(struct.pack("<I", n)) + dig
            exp.append((Bits.source([b for by in algo for b in by], False), dig))
        inst = "items with payload lengths %s" % (list(shape),)

        def run(asg):
            it = Interp(repo, folder, asg=dict(asg), hooks={"call": call_hook, "method": method_hook})
            it.max_split = 4
            return it.call_function(f, [BytesV(data)], recv=Obj(cls, "apk"))

        res = explore(run)
        if len(res) != 1:
            raise AnalysisError("parse_signatures_or_digests: interpretation of %s split into %d paths" % (inst, len(res)))
        r = res[0][1]
        if isinstance(r, Raised):
            ctx.check("item-list", inst, False, f, "sequence %s raises %s" % (list(shape), r.exc),
                      "parse_signatures_or_digests raises %s on a well-formed sequence of %d item(s)" % (r, len(shape)), node=r.node)
            continue
        if isinstance(r, Sym):
            raise AnalysisError("parse_signatures_or_digests: result %s is outside the interpreter's fragment" % show(r)[:160])
        ok = isinstance(r, list) and len(r) == len(exp)
        why = "returns %s item(s) for a sequence of %d" % (len(r) if isinstance(r, list) else show(r)[:60], len(exp))
        if ok:
            for i, (got, (ealg, edig)) in enumerate(zip(r, exp)):
                if not (isinstance(got, tuple) and len(got) == 2):
                    ok, why = False, "item %d is %s" % (i, show(got)[:80])
                    break
                galg = Bits.const(got[0]) if isinstance(got[0], int) else got[0]
                if not (isinstance(galg, Bits) and galg == ealg):
                    ok, why = False, "algorithm id of item %d is %s, expected the item's own id bytes" % (i, show(got[0])[:100])
                    break
                gd = got[1]
                gbytes = gd.bytes if isinstance(gd, BytesV) else None
                if gbytes is None or [list(b) for b in gbytes] != [list(b) for b in edig]:
                    ok, why = False, "payload of item %d is %s, expected the item's own %d byte(s)" % (i, show(gd)[:80], len(edig))
                    break
        ctx.check("item-list", inst, ok, f, "sequence of %d item(s): %s" % (len(shape), why if not ok else "ok"),
                  "parse_signatures_or_digests on a sequence of %d length-prefixed item(s) %s: %s" % (len(shape), list(shape), why),
                  detail="all %d items returned in order with their own id and bytes" % len(shape))
    ctx.floor("list_shapes", 6)
