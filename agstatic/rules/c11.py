"""C11 -- the control-flow graph has exactly the successors the bytecode allows.

Decided by symbolic interpretation of the repository source (nothing is executed):

(dn/*)  `determineNext(ins, cur_idx, m)` is interpreted once per opcode value 0..255 with
        `ins.get_op_value()` fixed and every other quantity an opaque atom.  The returned list,
        as a list of *linear forms*, must equal the Dalvik semantics: return*/throw -> [-1];
        goto* -> [cur + 2*off]; if* -> [cur + len, cur + 2*off]; packed/sparse-switch ->
        [cur + len] + [cur + 2*t for t in payload.get_targets()] where the payload is the
        instruction fetched with get_ins_off at exactly cur + 2*off and is used iff it is a
        PackedSwitch/SparseSwitch; every other opcode -> [].  The coefficients are the unit
        check (branch offsets are 16-bit code units, cur_idx/get_length are bytes).
(payload/targets) `PackedSwitch/SparseSwitch(cm, buff).get_targets()` interpreted in the bit-provenance domain (size 1, 2,
        every other input bit symbolic) yields the signed little-endian 32-bit words at the positions of the Dalvik format.
(childs/lookup) `BasicBlocks.get_basic_block(addr)` over two contiguous blocks returns the block whose half-open
        range [start, end) contains addr (start of a block -> that block, end of the last block -> None).
(childs/*) `DEXBasicBlock.set_childs(values)` is interpreted for a block holding two generic
        instructions and the value lists [], [-1], [t], [-1,t], [t,u], [t,t], [t,u,w] against an
        opaque block container: -1 is filtered, every other target is looked up as given, the
        fall-through block is looked up just past `end`, each successor is recorded as
        (address of last instruction, target, block) and mirrored on the target block by
        (target, address of last instruction, this block) - for every combination of
        found / not found targets.
(callsite/*) a bounded generic-method model of `MethodAnalysis._create_basic_block` (2-3 symbolic
        instructions, each plain or branching, arbitrary leaders) must call set_childs exactly
        once per final block with determineNext's result for the block's last instruction, or
        with [] when that instruction does not branch; every control-transfer opcode of the Dalvik
        table must be in the (folded) BasicOPCODES set that gates that call.
"""
from __future__ import annotations

# thorough tier: this module runs its own in-memory mutation adequacy (see _mutation_adequacy)
OWN_MUTATION_ADEQUACY = True

import ast
import itertools

from ..absint import Sym, Lin, Raised, show
from ..consts import Folder
from ..model import ANALYSIS, DEX, AnalysisError, Func, norm, clone
from ..spec import dalvik
from .. import flowmodel as fm
from ..flowmodel import CUR, LEN, OFF, BC, INS, lin, lin_eq, pp, exact
from ..symflow import key, mcall, generic_items

CLASS_OF = {"return": "return", "throw": "return", "goto": "goto", "if": "if", "switch": "switch", "next": "other"}
CLASS_TEXT = {
    "return": "[-1]",
    "goto": "[cur_idx + 2*get_ref_off()]",
    "if": "[cur_idx + get_length(), cur_idx + 2*get_ref_off()]",
    "switch": "[cur_idx + get_length()] + [cur_idx + 2*t for t in payload.get_targets()]",
    "other": "[]",
}


class Sink:
    """collects failed checks of a rule core run on a mutated AST (thorough tier)"""

    def __init__(self):
        self.failed = []

    def check(self, rule, instance, ok, func, construct, message, node=None, witness=None, detail=""):
        if not ok:
            self.failed.append((rule, str(instance), message))
        return ok

    def ob(self, *a, **k):
        pass

    def count(self, *a, **k):
        pass

    def analysed(self, *a):
        pass

    def note(self, *a):
        pass


def _ret_node(path, qualname):
    for t in reversed(path.it.trace):
        if t[0] == "return" and t[1] == qualname:
            return t[2]
    return None


def _switch_spec(p, D):
    """possible truth values of 'the fetched instruction is a switch payload' on this path"""
    kd = key(D)
    t = p.asg.get(("c", "truthy", kd))
    pk = p.asg.get(("c", "isa", kd, "PackedSwitch"))
    sp = p.asg.get(("c", "isa", kd, "SparseSwitch"))
    vals = set()
    for tv, pv, sv in itertools.product((0, 1), repeat=3):
        if t is not None and tv != t or pk is not None and pv != pk or sp is not None and sv != sp:
            continue
        if not tv and (pv or sv):
            continue
        vals.add(bool(pv or sv))
    return vals


def check_determine_next(sink, repo, folder, dn, ops=range(256)):
    """the rule core for determineNext; `dn` is a model.Func (possibly with a mutated node)"""
    qn = dn.qualname
    for op in ops:
        spec = dalvik.OPCODES.get(op)
        name = spec[0] if spec else "unused"
        cls = CLASS_OF[spec[3]] if spec else "other"
        inst = "op 0x%02x %s" % (op, name)
        paths = fm.determine_next_paths(repo, folder, dn, op)
        sink.count("dn_paths", len(paths))
        bad = None
        for p in paths:
            r = p.result
            rn = _ret_node(p, qn)
            rsrc = norm(rn) if rn is not None else "return"
            if isinstance(r, Raised):
                bad = ("dn/" + cls, "%s: %s" % (cls, rsrc), "determineNext raises %s for opcode 0x%02x %s" % (r, op, name), r.node)
                break
            if not isinstance(r, list):
                bad = ("dn/" + cls, "%s: %s" % (cls, rsrc), "determineNext returns %s for opcode 0x%02x %s, expected the list %s"
                       % (show(r)[:80], op, name, CLASS_TEXT[cls]), rn)
                break
            r = generic_items(r)
            if cls == "switch":
                b = _check_switch(p, r, op, name, rsrc, rn)
                if b:
                    bad = b
                    break
                continue
            exp = {"return": [-1], "goto": [lin({CUR: 1, OFF: 2})],
                   "if": [lin({CUR: 1, LEN: 1}), lin({CUR: 1, OFF: 2})], "other": []}[cls]
            ok = len(r) == len(exp) and all(lin_eq(a, b) for a, b in zip(r, exp))
            if not ok:
                bad = ("dn/" + cls, "%s: %s" % (cls, rsrc),
                       "determineNext returns %s for opcode 0x%02x %s; the bytecode allows exactly %s (byte offsets; get_ref_off counts 16-bit units)"
                       % (pp(r)[:200], op, name, CLASS_TEXT[cls]), rn)
                break
        if bad:
            for p in paths:
                if not isinstance(p.result, Raised):
                    exact(p.result, "determineNext for opcode 0x%02x" % op)
            sink.check(bad[0], inst, False, dn, bad[1], bad[2], node=bad[3])
        else:
            sink.check("dn/" + cls, inst, True, dn, "", "", detail="%d path(s): result == %s" % (len(paths), CLASS_TEXT[cls]))
        sink.count("dn_" + cls)


def _check_switch(p, r, op, name, rsrc, rn):
    fall = lin({CUR: 1, LEN: 1})
    if not r or not lin_eq(r[0], fall):
        return ("dn/switch", "switch: %s" % rsrc,
                "determineNext returns %s for 0x%02x %s; the first successor must be the fall-through cur_idx + get_length()" % (pp(r)[:160], op, name), rn)
    rest = r[1:]
    fetches = [(recv, n, a, node) for recv, n, a, node in p.lookups if n == "get_ins_off"]
    D = None
    if rest:
        if len(rest) != 1 or not isinstance(rest[0], Lin):
            return ("dn/switch", "switch: %s" % rsrc, "switch successors %s are not cur_idx + 2*target for the payload targets" % pp(rest)[:160], rn)
        terms = dict(rest[0].terms)
        elems = [a for a in terms if isinstance(a, Sym) and a.op == "elem"]
        if len(elems) != 1 or terms.get(CUR) != 1 or terms[elems[0]] != 2 or len(terms) != 2 or rest[0].const != 0:
            return ("dn/switch", "switch: %s" % rsrc,
                    "switch case successor is %s; expected cur_idx + 2*target (targets are 16-bit units relative to the switch instruction)" % pp(rest[0])[:200], rn)
        src = elems[0].args[0]
        if not (isinstance(src, Sym) and src.op == "call" and len(src.args) == 1 and isinstance(src.args[0], Sym)
                and src.args[0].op == "attr" and src.args[0].args[1] == "get_targets"):
            return ("dn/switch", "switch: %s" % rsrc, "switch case targets are taken from %s, expected payload.get_targets()" % pp(src)[:160], rn)
        D = src.args[0].args[0]
    elif fetches:
        recv, n, a, node = fetches[-1]
        D = mcall(recv, n, a)
    if D is None:
        return ("dn/switch", "switch: %s" % rsrc, "determineNext never fetches the switch payload for 0x%02x %s: case targets are lost" % (op, name), rn)
    # the payload must be the instruction at cur + 2*off
    if not (isinstance(D, Sym) and D.op == "call" and len(D.args) == 2 and isinstance(D.args[0], Sym) and D.args[0].op == "attr"
            and D.args[0].args[1] == "get_ins_off"):
        raise AnalysisError("determineNext: the switch payload %s is not fetched through <code>.get_ins_off(addr); lookup not recognised" % show(D)[:120])
    holder, addr = D.args[0].args[0], D.args[1]
    if holder != BC:
        return ("dn/switch-payload", "switch payload holder: %s" % key(holder)[:80],
                "the switch payload is fetched from %s, expected m.get_code().get_bc()" % pp(holder)[:120], rn)
    node = next((nd for recv, n, a, nd in fetches if key(a) == key(addr)), rn)
    if not lin_eq(addr, lin({CUR: 1, OFF: 2})):
        conds = "(cur_idx + 2*get_ref_off()) % 4 != 0" if any(k[1] == "eq0" and "Mod(" in k[2] and not v for k, v in p.asg.items()) else \
            ", ".join("%s=%s" % (" ".join(map(str, k[1:])), v) for k, v in p.asg.items() if k[1] in ("eq0", "le0"))
        return ("dn/switch-payload", "switch payload: %s" % norm(node),
                "the switch payload of 0x%02x %s is fetched at %s, the bytecode encodes it at cur_idx + 2*get_ref_off() (path: %s); "
                "case successors then come from another instruction or are lost" % (op, name, pp(addr)[:200], conds[:200]), node)
    want = _switch_spec(p, D)
    have = bool(rest)
    if want != {have}:
        return ("dn/switch", "switch: %s" % rsrc,
                "case targets are %s although the fetched instruction %s a PackedSwitch/SparseSwitch payload"
                % ("used" if have else "dropped", "may not be" if have else "is"), rn)
    return None


# ---------------------------------------------------------------------------
VALUE_LISTS = [("[]", []), ("[-1]", [-1]), ("[t0]", [fm.T(0)]), ("[-1, t0]", [-1, fm.T(0)]),
               ("[t0, t1]", [fm.T(0), fm.T(1)]), ("[t0, t0]", [fm.T(0), fm.T(0)]),
               ("[t0, t1, t2]", [fm.T(0), fm.T(1), fm.T(2)])]


def check_set_childs(sink, repo, folder, bb_cls):
    sc = bb_cls.lookup("set_childs")
    for label, vals in VALUE_LISTS:
        paths = fm.set_childs_paths(repo, folder, bb_cls, vals, label)
        sink.count("set_childs_paths", len(paths))
        seen = {}
        for p in paths:
            for cat, msg in p.problems:
                seen.setdefault(cat, msg)
        for cat in ("fallthrough/lookup", "fallthrough/child", "targets/lookup", "targets/child", "mirror", "raises"):
            if cat in seen:
                sink.check("childs/" + cat.split("/")[0], "set_childs(%s) %s" % (label, cat), False, sc, "set_childs: " + cat, seen[cat])
        if not seen:
            sink.check("childs", "set_childs(%s)" % label, True, sc, "", "",
                       detail="%d found/not-found combinations: successors and mirrored predecessors as specified" % len(paths))
        sink.count("set_childs_lists")


def _check_set_childs_some(sink, repo, folder, bb_cls):
    sc = bb_cls.lookup("set_childs")
    for label, vals in VALUE_LISTS[:3]:
        for p in fm.set_childs_paths(repo, folder, bb_cls, vals, label):
            for cat, msg in p.problems:
                sink.check("childs/" + cat, label + cat, False, sc, cat, msg)


def check_payload_targets(sink, repo, folder, dx):
    """the case targets determineNext reads are the encoded signed relative targets of the payload"""
    for cname, kind in (("PackedSwitch", "packed"), ("SparseSwitch", "sparse")):
        cls = dx.cls(cname)
        probs = []
        for size in (1, 2):
            probs += fm.payload_target_problems(repo, folder, cls, kind, size)
        f = cls.lookup("get_targets")
        sink.check("payload/targets", "%s.get_targets" % cname, not probs, f, "%s.get_targets: signed relative targets" % cname,
                   probs[0][1] if probs else "",
                   detail="sizes 1,2: every target is the signed little-endian 32-bit word at its specified payload position")
        sink.count("payload_classes")


def check_lookup(sink, repo, folder, bbs_cls, bb_cls):
    gbb = bbs_cls.lookup("get_basic_block")
    probs = fm.lookup_problems(repo, folder, bbs_cls, bb_cls)
    sink.check("childs/lookup", "BasicBlocks.get_basic_block", not probs, gbb, "get_basic_block: half-open ranges",
               probs[0][1] if probs else "", detail="6 probe addresses over two contiguous blocks: start <= addr < end")
    sink.count("lookup_probes", 6)


QUICK_SCEN = [(0x00, 0x00), (0x00, 0x32), (0x32, 0x00), (0x32, 0x32), (0x00, 0x32, 0x00)]
THOROUGH_SCEN = QUICK_SCEN + [(0x28, 0x00, 0x0E), (0x00, 0x00, 0x2B), (0x2B, 0x27, 0x00)]


CONCRETE_SCEN = [((0x00, 0x00, 0x2B, 0x00), ((2, 2, 6, 2), {2: [10, 1, 2]})),
                 ((0x00, 0x00, 0x2B, 0x00), ((2, 2, 6, 2), {2: [10, -4, 2]})),
                 ((0x00, 0x32, 0x00), ((2, 4, 2), {1: [6, 0]}))]


def check_callsite(sink, repo, folder, ma_cls, dn, de, basic, scen):
    cbb = ma_cls.lookup("_create_basic_block")
    undecided = None
    n_bad = 0
    for entry in scen:
        ops, conc = entry if (len(entry) == 2 and isinstance(entry[0], tuple)) else (entry, None)
        try:
            paths = [p for p in fm.run_block_model(repo, folder, ma_cls, dn, de, basic, ops, concrete=conc) if p.entered]
        except AnalysisError as ex:
            # undecidable scenario: only a counter-example established by another scenario may still give a verdict
            undecided = undecided or ex
            sink.count("callsite_paths")
            sink.count("callsite_scenarios")
            continue
        if not paths:
            raise AnalysisError("MethodAnalysis.__init__ never reaches _create_basic_block in the model")
        sink.count("callsite_paths", len(paths))
        seen = {}
        for p in paths:
            if p.raised is not None:
                seen.setdefault("callsite/raises", "_create_basic_block raises %s" % p.raised)
                continue
            for cat, msg in fm.compare_callsite(p, ops, basic):
                seen.setdefault(cat, msg)
        label = "ops=(%s)" % ", ".join("0x%02x" % o for o in ops)
        if conc is not None:
            label += " lengths=%s determineNext=%s" % (list(conc[0]), conc[1])
        n_bad += len(seen)
        for cat, msg in seen.items():
            sink.check(cat, label + " " + cat, False, cbb, "set_childs call: " + cat, msg)
        if not seen:
            sink.check("callsite", label, True, cbb, "", "", detail="%d leader combinations: set_childs(determineNext result | []) once per block" % len(paths))
        sink.count("callsite_scenarios")
    if undecided is not None and not n_bad:
        raise undecided


# ---------------------------------------------------------------------------
def run(ctx):
    ctx.explanation = __doc__
    repo = ctx.repo
    folder = Folder(repo)
    ma = ctx.mod(ANALYSIS)
    dx = ctx.mod(DEX)
    dn = dx.func("determineNext")
    de = dx.func("determineException")
    ctx.require("PackedSwitch" in dx.classes and "SparseSwitch" in dx.classes, "anchor vanished: PackedSwitch/SparseSwitch payload classes")
    bb_cls = ma.cls("DEXBasicBlock")
    ma_cls = ma.cls("MethodAnalysis")
    for f in (dn, bb_cls.lookup("set_childs"), bb_cls.lookup("set_fathers"), ma_cls.lookup("_create_basic_block")):
        ctx.require(f is not None, "anchor vanished: set_childs/set_fathers/_create_basic_block")
        ctx.analysed(f)

    check_determine_next(ctx, repo, folder, dn)
    check_payload_targets(ctx, repo, folder, dx)
    ctx.floor("payload_classes", 2)
    ctx.floor("dn_return", 5)
    ctx.floor("dn_goto", 3)
    ctx.floor("dn_if", 12)
    ctx.floor("dn_switch", 2)
    ctx.floor("dn_other", 234)
    ctx.floor("dn_paths", 256)

    bbs_cls = ma.cls("BasicBlocks")
    ctx.analysed(bbs_cls.lookup("get_basic_block") or bb_cls.lookup("set_childs"))
    check_lookup(ctx, repo, folder, bbs_cls, bb_cls)
    ctx.floor("lookup_probes", 6)
    check_set_childs(ctx, repo, folder, bb_cls)
    ctx.floor("set_childs_lists", 7)
    ctx.floor("set_childs_paths", 7)

    basic_val, _ = fm.fold_module_global(repo, folder, ma, "BasicOPCODES")
    basic = fm.as_int_set(basic_val, "BasicOPCODES")
    # the call site consults determineNext only for opcodes in BasicOPCODES: every control-transfer opcode must be there,
    # otherwise a block ending in it is wired as falling through (extra members are harmless here: determineNext gives [])
    stmts = fm.fold_module_global(repo, folder, ma, "BasicOPCODES")[1]
    where = type("M", (), dict(qualname="BasicOPCODES", file=ma.relpath, line=getattr(stmts[-1], "lineno", 1)))()
    for op in sorted(dalvik.FLOW_OPS):
        nm = dalvik.OPCODES[op][0]
        ctx.check("callsite/opcode-set", "op 0x%02x" % op, op in basic, where, "BasicOPCODES lacks 0x%02x %s" % (op, nm),
                  "%s (0x%02x) is not in BasicOPCODES: _create_basic_block never asks determineNext for it, a block ending in it gets "
                  "set_childs([]) and is wired to the next block instead of its %s successors" % (nm, op, dalvik.OPCODES[op][3]),
                  node=stmts[-1], detail="%s is routed through determineNext" % nm)
        ctx.count("flow_opcodes")
    ctx.floor("flow_opcodes", 22)
    scen = (THOROUGH_SCEN if ctx.tier == "thorough" else QUICK_SCEN) + CONCRETE_SCEN
    check_callsite(ctx, repo, folder, ma_cls, dn, de, basic, scen)
    ctx.floor("callsite_scenarios", len(scen))
    ctx.floor("callsite_paths", len(scen))
    ctx.assume("payload.get_targets() yields the encoded relative targets in 16-bit units (decided under C01/C02); "
               "get_ins_off(addr) returns the instruction that starts at byte addr (C40)")
    ctx.note("successors of blocks are decided as the composition determineNext -> _create_basic_block call site -> set_childs; "
             "whether BasicBlocks.get_basic_block finds the block that contains an address is part of C10's partition")
    # positive controls (every run)
    canary(ctx, "determineNext units", dn, lambda s: check_determine_next(s, repo, folder, dn, ops=[0x28, 0x32, 0x2B]), ["drop*2", "add->sub", "ret-empty"])
    sc = bb_cls.lookup("set_childs")
    canary(ctx, "set_childs mirror", sc, lambda s: _check_set_childs_some(s, repo, folder, bb_cls), ["swap-tuple", "del-call-stmt", "negate-if"], pick=2)
    if ctx.tier == "thorough":
        _mutation_adequacy(ctx, repo, folder, dx, ma, dn, bb_cls, ma_cls, de, basic)


# ---------------------------------------------------------------------------
# thorough tier: in-memory mutation adequacy
# ---------------------------------------------------------------------------
def fresh(node):
    """a private copy of a function node (no parent links)"""
    return clone(node)


_OP_TYPES = {"drop*2": ast.BinOp, "add->sub": ast.BinOp, "const+1": ast.Constant, "ret-empty": ast.Return, "negate-if": ast.If,
             "swap-tuple": ast.Tuple, "del-call-stmt": ast.Expr, "del-subscript-store": ast.Assign, "and->or": ast.BoolOp,
             "aug->sub": ast.AugAssign, "cmp-flip": ast.Compare, "del-attr-assign": ast.Assign, "end<->start": ast.Attribute}


def mutants_of(fn_node, ops, site_ok=None):
    """yield (description, mutated copy) for the generic operators named in ops"""
    base_src = ast.unparse(fn_node)
    shape = list(ast.walk(fn_node))
    for i in range(len(shape)):
        for opn in ops:
            if not isinstance(shape[i], _OP_TYPES[opn]):
                continue
            t = fresh(fn_node)
            nodes = list(ast.walk(t))
            n = nodes[i]
            desc = None
            par = {}
            for pnode in nodes:
                for ch in ast.iter_child_nodes(pnode):
                    par[id(ch)] = pnode

            def replace(old, new):
                p = par[id(old)]
                for f, v in ast.iter_fields(p):
                    if v is old:
                        setattr(p, f, new)
                        return True
                    if isinstance(v, list):
                        for j, x in enumerate(v):
                            if x is old:
                                v[j] = new
                                return True
                return False

            if site_ok is not None and not site_ok(opn, n, par):
                continue
            if opn == "drop*2" and isinstance(n, ast.BinOp) and isinstance(n.op, ast.Mult):
                for a, b in ((n.left, n.right), (n.right, n.left)):
                    if isinstance(b, ast.Constant) and b.value == 2:
                        desc = "drop the *2 in %s" % ast.unparse(n)
                        replace(n, a)
                        break
            elif opn == "add->sub" and isinstance(n, ast.BinOp) and isinstance(n.op, ast.Add):
                desc = "+ -> - in %s" % ast.unparse(n)
                n.op = ast.Sub()
            elif opn == "const+1" and isinstance(n, ast.Constant) and isinstance(n.value, int) and not isinstance(n.value, bool) \
                    and not isinstance(par.get(id(n)), ast.JoinedStr):
                desc = "constant %r -> %r" % (n.value, n.value + 1)
                n.value = n.value + 1
            elif opn == "ret-empty" and isinstance(n, ast.Return) and n.value is not None:
                if isinstance(n.value, ast.List) and not n.value.elts:
                    desc = "return [] -> return [-1]"
                    n.value = ast.List(elts=[ast.UnaryOp(op=ast.USub(), operand=ast.Constant(value=1))], ctx=ast.Load())
                else:
                    desc = "%s -> return []" % ast.unparse(n)
                    n.value = ast.List(elts=[], ctx=ast.Load())
            elif opn == "negate-if" and isinstance(n, ast.If):
                desc = "negate the test %s" % ast.unparse(n.test)[:50]
                n.test = ast.UnaryOp(op=ast.Not(), operand=n.test)
            elif opn == "swap-tuple" and isinstance(n, ast.Tuple) and len(n.elts) >= 2 and isinstance(n.ctx, ast.Load):
                desc = "swap the first two components of %s" % ast.unparse(n)[:60]
                n.elts[0], n.elts[1] = n.elts[1], n.elts[0]
            elif opn == "del-call-stmt" and isinstance(n, ast.Expr) and isinstance(n.value, ast.Call) and isinstance(n.value.func, ast.Attribute) \
                    and n.value.func.attr in ("append", "extend", "add", "update", "set_fathers", "push", "pop", "set_childs"):
                desc = "delete the statement %s" % ast.unparse(n)[:60]
                replace(n, ast.Pass())
            elif opn == "del-subscript-store" and isinstance(n, ast.Assign) and any(isinstance(t_, ast.Subscript) for t_ in n.targets):
                desc = "delete the statement %s" % ast.unparse(n)[:60]
                replace(n, ast.Pass())
            elif opn == "cmp-flip" and isinstance(n, ast.Compare):
                flip = {ast.LtE: ast.Lt, ast.Lt: ast.LtE, ast.GtE: ast.Gt, ast.Gt: ast.GtE}
                for j, o in enumerate(n.ops):
                    if type(o) in flip:
                        desc = "%s: comparison #%d strictness flipped" % (ast.unparse(n)[:50], j)
                        n.ops[j] = flip[type(o)]()
                        break
            elif opn == "and->or" and isinstance(n, ast.BoolOp) and isinstance(n.op, ast.And):
                desc = "and -> or in %s" % ast.unparse(n)[:60]
                n.op = ast.Or()
            elif opn == "aug->sub" and isinstance(n, ast.AugAssign) and isinstance(n.op, ast.Add):
                desc = "+= -> -= in %s" % ast.unparse(n)
                n.op = ast.Sub()
            elif opn == "del-attr-assign" and isinstance(n, ast.Assign) and any(isinstance(t_, ast.Attribute) for t_ in n.targets):
                desc = "delete the statement %s" % ast.unparse(n)[:60]
                replace(n, ast.Pass())
            elif opn == "end<->start" and isinstance(n, ast.Attribute) and n.attr in ("get_end", "end"):
                desc = "%s -> start" % ast.unparse(n)
                n.attr = "get_start" if n.attr == "get_end" else "start"
            if desc is None:
                continue
            ast.fix_missing_locations(t)
            if ast.unparse(t) == base_src:
                continue
            yield desc, t


def _names_in(node):
    return {x.id for x in ast.walk(node) if isinstance(x, ast.Name)}


def relevant_statements(fn):
    """backward slice of a function's result: the statements (by id) whose evaluation can influence a returned
    value - returns/raises, assignments to and mutating method calls on names the result depends on, and the
    headers of compound statements that contain such statements (control dependence)."""
    stmts = [x for x in ast.walk(fn) if isinstance(x, ast.stmt) and x is not fn]
    rel, names = set(), set()

    def base_name(t):
        while isinstance(t, (ast.Attribute, ast.Subscript, ast.Starred)):
            t = t.value
        return t.id if isinstance(t, ast.Name) else None

    def sub(s):
        out = []
        for f in ("body", "orelse", "finalbody"):
            out += getattr(s, f, []) or []
        for h in getattr(s, "handlers", []) or []:
            out += h.body
        return out

    changed = True
    while changed:
        changed = False
        for s in stmts:
            if id(s) in rel:
                continue
            hit, use = False, set()
            if isinstance(s, (ast.Return, ast.Raise, ast.Break, ast.Continue)):
                hit, use = True, _names_in(s)
            elif isinstance(s, (ast.Assign, ast.AugAssign, ast.AnnAssign)):
                targets = s.targets if isinstance(s, ast.Assign) else [s.target]
                tn = set()
                for t in targets:
                    for e in (t.elts if isinstance(t, (ast.Tuple, ast.List)) else [t]):
                        b = base_name(e)
                        if b:
                            tn.add(b)
                if tn & names:
                    hit, use = True, _names_in(s)
            elif isinstance(s, ast.Expr) and isinstance(s.value, ast.Call) and isinstance(s.value.func, ast.Attribute):
                if base_name(s.value.func.value) in names:
                    hit, use = True, _names_in(s)
            elif isinstance(s, (ast.If, ast.While, ast.For, ast.With, ast.Try)):
                if any(id(c) in rel for c in sub(s)):
                    hit = True
                    for f in ("test", "iter", "target"):
                        if getattr(s, f, None) is not None:
                            use |= _names_in(getattr(s, f))
                    for it in getattr(s, "items", []) or []:
                        use |= _names_in(it)
            if hit:
                rel.add(id(s))
                if use - names:
                    names |= use
                changed = True
    return rel


def flow_relevant(n, par):
    """is the mutation site `n` inside a statement (header) of the result's backward slice?"""
    top = n
    while par.get(id(top)) is not None:
        top = par[id(top)]
    cache = getattr(top, "_relevant", None)
    if cache is None:
        cache = relevant_statements(top)
        top._relevant = cache
    s = n
    while s is not None and not isinstance(s, ast.stmt):
        s = par.get(id(s))
    return s is None or s is top or id(s) in cache


def rename_local(fn_node, old, new):
    t = fresh(fn_node)
    for n in ast.walk(t):
        if isinstance(n, ast.Name) and n.id == old:
            n.id = new
        if isinstance(n, ast.arg) and n.arg == old:
            n.arg = new
    return t


def commute_adds(fn_node):
    t = fresh(fn_node)
    for n in ast.walk(t):
        if isinstance(n, ast.BinOp) and isinstance(n.op, (ast.Add, ast.Mult)):
            n.left, n.right = n.right, n.left
    return t


class patched:
    """temporarily replace a function of the in-memory source model by a mutated copy"""

    def __init__(self, func: Func, node):
        self.func, self.node = func, node

    def __enter__(self):
        self.old = self.func.node
        self.func.node = self.node
        return self.func

    def __exit__(self, *a):
        self.func.node = self.old


def reachable_funcs(func, depth=3):
    """the function and the repository functions it (transitively) calls or dispatches to: direct calls by name,
    self./cls./Class. method calls, and functions named in module-level tables the function reads"""
    out, seen, frontier = [], set(), [func]
    for _ in range(depth + 1):
        nxt = []
        for f in frontier:
            if id(f) in seen:
                continue
            seen.add(id(f))
            out.append(f)
            names = set()
            for n in ast.walk(f.node):
                if isinstance(n, ast.Name) and isinstance(n.ctx, ast.Load):
                    names.add(n.id)
                elif isinstance(n, ast.Attribute) and isinstance(n.value, ast.Name):
                    if n.value.id in ("self", "cls") and f.cls is not None:
                        g = f.cls.lookup(n.attr)
                        if g is not None:
                            nxt.append(g)
                    else:
                        r = f.module.resolve_name(n.value.id)
                        if r is not None and r[0] == "class":
                            g = r[1].lookup(n.attr)
                            if g is not None:
                                nxt.append(g)
            for nm in names:
                r = f.module.resolve_name(nm)
                if r is None:
                    continue
                if r[0] == "func":
                    nxt.append(r[1])
                elif r[0] == "const":
                    for x in ast.walk(r[2]):
                        if isinstance(x, ast.Name):
                            rr = r[1].resolve_name(x.id)
                            if rr is not None and rr[0] == "func":
                                nxt.append(rr[1])
        frontier = nxt
    return out


def canary(ctx, label, func, core, mutant_ops, site_ok=None, pick=0):
    """quick-tier positive control (stands in for a fixture): one canonical breaking edit applied in memory to the
    function (or to a helper it delegates to) must make the rule core fire, otherwise the rule has gone blind.
    When the code offers no site for any of the canonical edits the control is skipped with a note."""
    base = Sink()
    core(base)
    tried = []
    fired = False
    desc = None
    for f in reachable_funcs(func):
        for i, (d, node) in enumerate(mutants_of(f.node, mutant_ops, site_ok)):
            if f is func and i < pick:
                continue
            tried.append("%s in %s" % (d, f.qualname))
            s = Sink()
            try:
                with patched(f, node):
                    core(s)
                fired = bool(set(s.failed) - set(base.failed))
            except AnalysisError:
                fired = True
            if fired:
                desc = tried[-1]
                break
            if len(tried) >= 12:
                break
        if fired or len(tried) >= 12:
            break
    if not tried:
        ctx.note("positive control '%s' skipped: %s and its helpers offer no site for the canonical edits %s" % (label, func.qualname, mutant_ops))
        ctx.count("positive_controls_skipped")
        return
    if not fired:
        raise AnalysisError("rule lost its teeth: positive controls %s are not detected" % (tried,))
    ctx.ob("positive-control", label, True, "in-memory edit '%s' is detected" % desc)
    ctx.count("positive_controls")


def adequacy(ctx, label, func, core, mutant_ops, benign, allow_survivors=(), site_ok=None):
    """core(sink) runs the rule core; it must fire on every mutant of `func` and stay at the
    baseline on every benign variant."""
    base = Sink()
    core(base)
    base_keys = {(r, i) for r, i, m in base.failed}
    base_full = set(base.failed)
    killed = total = refused = 0
    survivors = []
    for desc, node in mutants_of(func.node, mutant_ops, site_ok):
        total += 1
        s = Sink()
        try:
            with patched(func, node):
                core(s)
            fired = bool(set(s.failed) - base_full)
        except AnalysisError:
            fired = True   # the rule refuses the mutated shape (exit 2), it does not pass it
            refused += 1
        if fired:
            killed += 1
        else:
            survivors.append(desc)
    silent = btotal = 0
    loud = []
    for desc, node in benign:
        btotal += 1
        s = Sink()
        with patched(func, node):
            core(s)
        if {(r, i) for r, i, m in s.failed} == base_keys:
            silent += 1
        else:
            loud.append(desc)
    ctx.extra["mutants_total"] = ctx.extra.get("mutants_total", 0) + total
    ctx.extra["mutants_killed"] = ctx.extra.get("mutants_killed", 0) + killed
    ctx.extra["benign_total"] = ctx.extra.get("benign_total", 0) + btotal
    ctx.extra["benign_silent"] = ctx.extra.get("benign_silent", 0) + silent
    ctx.extra.setdefault("mutation_detail", {})[label] = dict(total=total, killed=killed, refused_as_analysis_error=refused, benign=btotal, silent=silent,
                                                              survivors=survivors, allowed_survivors=list(allow_survivors))
    real = [s for s in survivors if not any(a in s for a in allow_survivors)]
    if real:
        raise AnalysisError("rule lost its teeth: %s mutant(s) of %s survive: %s" % (len(real), func.qualname, "; ".join(real[:5])))
    if loud:
        raise AnalysisError("rule is brittle: benign variant(s) of %s change the verdict: %s" % (func.qualname, "; ".join(loud[:5])))
    ctx.ob("mutation-adequacy", label, True, "%d/%d mutants detected, %d/%d benign variants silent" % (killed, total, silent, btotal))


def _mutation_adequacy(ctx, repo, folder, dx, ma, dn, bb_cls, ma_cls, de, basic):
    flow_ops = sorted(dalvik.FLOW_OPS) + [0x00, 0x26, 0x2D, 0x3E, 0x12]
    def dn_site(opn, n, par):
        # only sites that can influence the returned list (or the payload lookup feeding it): statements that
        # merely log - e.g. the alignment warning and its test - are behaviour-irrelevant for the property
        return flow_relevant(n, par)

    adequacy(ctx, "determineNext", dn,
             lambda s: check_determine_next(s, repo, folder, dn, ops=flow_ops + [0x0D, 0x12, 0x2E, 0x31, 0x3F]),
             ["drop*2", "add->sub", "ret-empty", "const+1"],
             [("rename off", rename_local(dn.node, "off", "delta")), ("rename x", rename_local(dn.node, "x", "succ")),
              ("commute + and *", commute_adds(dn.node))],
             site_ok=dn_site)
    sc = bb_cls.lookup("set_childs")
    adequacy(ctx, "set_childs", sc, lambda s: check_set_childs(s, repo, folder, bb_cls),
             ["const+1", "negate-if", "swap-tuple", "del-call-stmt", "add->sub", "end<->start"],
             [("rename next_block", rename_local(sc.node, "next_block", "nb")), ("rename i", rename_local(sc.node, "i", "tgt"))],
             # `self.end + 1` -> `self.end + 2` still addresses the first instruction of the next block only for
             # 4-byte instructions; the rule accepts end and end+1 only, so this one is detected as well
             allow_survivors=())
    bbs_cls = ma.cls("BasicBlocks")
    gbb = bbs_cls.lookup("get_basic_block")
    adequacy(ctx, "get_basic_block", gbb, lambda s: check_lookup(s, repo, folder, bbs_cls, bb_cls), ["cmp-flip", "ret-empty"],
             [("rename i", rename_local(gbb.node, "i", "blk"))])
    sf = bb_cls.lookup("set_fathers")
    adequacy(ctx, "set_fathers", sf, lambda s: check_set_childs(s, repo, folder, bb_cls), ["del-call-stmt"], [])

    cbb = ma_cls.lookup("_create_basic_block")
    idxs = [i for i, st in enumerate(cbb.node.body) if any(isinstance(x, ast.Attribute) and x.attr == "set_childs" for x in ast.walk(st))]

    def cs_site(opn, n, par):
        # only the statement(s) that hand successors to set_childs; the rest of the function is C10's
        top = n
        while par.get(id(top)) is not None and not isinstance(par[id(top)], ast.FunctionDef):
            top = par[id(top)]
        fn = par.get(id(top))
        return isinstance(fn, ast.FunctionDef) and top in fn.body and fn.body.index(top) in idxs

    adequacy(ctx, "_create_basic_block (set_childs call site)", cbb,
             lambda s: check_callsite(s, repo, folder, ma_cls, dn, de, basic, [(0x00, 0x32), (0x32, 0x00)]),
             ["add->sub", "del-call-stmt", "end<->start", "const+1"],
             [("rename h", rename_local(cbb.node, "h", "succ_of"))], site_ok=cs_site)
