"""C05 -- the parsed DEX object model matches the file's declared structure (layout clauses).

Every item class is abstractly interpreted against a symbolic input stream
(bit-provenance for struct reads, ordinal symbols for LEB128 reads, opaque terms
for ClassManager resolver calls).  Decided, for all inputs at once:
(1) each public getter returns exactly the struct slot / LEB read the DEX format
    document assigns to it, through the resolver of the slot's index domain
    (layout table agstatic/spec/dexformat.py, written from the public document);
    the resolvers of ClassManager read the section of their domain with the
    index they are given, and the container classes select the idx-th element;
(2) class_data_item: four sizes in document order, then the four member lists
    loaded with matching (size, list, element type), static, instance, direct, virtual;
(3) the index-diff chain of _load_elements: element k gets idx = sum of the
    diffs of elements 0..k (three-fold unrolling of a loop body that is shown not
    to depend on the loop counter), reset per list;
(4) encoded_field / encoded_method read idx_diff, access_flags(, code_off) as
    ULEB128 in document order.
(5) the name/descriptor lookup helpers of DEX (agstatic/dexsim.py): each helper is executed by the
    abstract interpreter on a universe of items whose role getters answer with discriminating
    constants (prefix names, shared names, array dimensions); every well-formed query must
    return exactly the matching item(s) (first match / every match / None).
Not decided: annotation/debug items, equality with a generated model.
"""
from __future__ import annotations

OWN_MUTATION_ADEQUACY = True  # thorough tier: rule-specific in-place AST mutants (mutate / re-run core / undo), see thorough()

import ast
import copy

from ..absint import Sym, Lin, BufV, BytesV, Obj, Comp, Raised, explore, show
from ..bits import Bits
from ..consts import Folder, Ref, EnumVal
from ..dexmodel import (DexInterp, StreamV, CMInfo, bind_ctor_args, prov, show_prov, slot_bits, describe_bits, explore_first,
                        STREAM_SPAN, is_cm)
from ..model import DEX, DEX_TYPES, AnalysisError, walk_no_nested
from ..spec import dexformat as spec

# ---------------------------------------------------------------------------
# role tables: repository class -> format item, public getter -> what the format says it is.
#   ("F", field)  the raw field;  ("R", field)  the field resolved through the resolver of its
#   index domain;  ("L", [e...]) list in that order;  ("CAT", [e...]) concatenation;
#   ("ITEM", e, role) the element of a resolver's list result that carries `role`.
ITEM_OF = {
    "StringIdItem": "string_id_item", "TypeIdItem": "type_id_item", "ProtoIdItem": "proto_id_item",
    "FieldIdItem": "field_id_item", "MethodIdItem": "method_id_item", "ClassDefItem": "class_def_item",
    "TryItem": "try_item", "TypeItem": "type_item", "MapItem": "map_item", "DalvikCode": "code_item",
    "TypeList": "type_list", "HeaderItem": "header_item",
    "EncodedField": "encoded_field", "EncodedMethod": "encoded_method", "ClassDataItem": "class_data_item",
}


def _F(n):
    return ("F", n)


def _R(n):
    return ("R", n)


GETTERS = {
    "StringIdItem": {"get_string_data_off": _F("string_data_off")},
    "TypeIdItem": {"get_descriptor_idx": _F("descriptor_idx"), "get_descriptor_idx_value": _R("descriptor_idx")},
    "ProtoIdItem": {
        "get_shorty_idx": _F("shorty_idx"), "get_return_type_idx": _F("return_type_idx"),
        "get_parameters_off": _F("parameters_off"), "get_shorty_idx_value": _R("shorty_idx"),
        "get_return_type_idx_value": _R("return_type_idx"), "get_parameters_off_value": _R("parameters_off"),
    },
    "FieldIdItem": {
        "get_class_idx": _F("class_idx"), "get_type_idx": _F("type_idx"), "get_name_idx": _F("name_idx"),
        "get_class_name": _R("class_idx"), "get_type": _R("type_idx"), "get_descriptor": _R("type_idx"),
        "get_name": _R("name_idx"), "get_list": ("L", [_R("class_idx"), _R("type_idx"), _R("name_idx")]),
    },
    "MethodIdItem": {
        "get_class_idx": _F("class_idx"), "get_proto_idx": _F("proto_idx"), "get_name_idx": _F("name_idx"),
        "get_class_name": _R("class_idx"), "get_proto": _R("proto_idx"), "get_name": _R("name_idx"),
        "get_list": ("L", [_R("class_idx"), _R("name_idx"), _R("proto_idx")]),
        "get_descriptor": ("CAT", [("ITEM", _R("proto_idx"), "parameters_off"), ("ITEM", _R("proto_idx"), "return_type_idx")]),
    },
    "ClassDefItem": {
        "get_class_idx": _F("class_idx"), "get_access_flags": _F("access_flags"), "get_superclass_idx": _F("superclass_idx"),
        "get_interfaces_off": _F("interfaces_off"), "get_source_file_idx": _F("source_file_idx"),
        "get_annotations_off": _F("annotations_off"), "get_class_data_off": _F("class_data_off"),
        "get_static_values_off": _F("static_values_off"),
        "get_name": _R("class_idx"), "get_superclassname": _R("superclass_idx"), "get_interfaces": _R("interfaces_off"),
        "get_class_data": ("OPT", _R("class_data_off")),
    },
    "TryItem": {"get_start_addr": _F("start_addr"), "get_insn_count": _F("insn_count"), "get_handler_off": _F("handler_off")},
    "TypeItem": {"get_type_idx": _F("type_idx"), "get_string": _R("type_idx")},
    "MapItem": {"get_type": ("ENUM", _F("type")), "get_size": _F("size"), "get_offset": _F("offset")},
    "DalvikCode": {
        "get_registers_size": _F("registers_size"), "get_ins_size": _F("ins_size"), "get_outs_size": _F("outs_size"),
        "get_tries_size": _F("tries_size"), "get_debug_info_off": _F("debug_info_off"), "get_insns_size": _F("insns_size"),
    },
    "TypeList": {"get_size": _F("size")},
    "EncodedField": {"get_field_idx_diff": _F("field_idx_diff"), "get_access_flags": _F("access_flags")},
    "EncodedMethod": {"get_method_idx_diff": _F("method_idx_diff"), "get_access_flags": _F("access_flags"),
                      "get_code_off": _F("code_off"), "get_code": _R("code_off")},
    "ClassDataItem": {
        "get_static_fields_size": _F("static_fields_size"), "get_instance_fields_size": _F("instance_fields_size"),
        "get_direct_methods_size": _F("direct_methods_size"), "get_virtual_methods_size": _F("virtual_methods_size"),
    },
}

# members resolved through ClassManager.get_field / get_method after the index is known
MEMBER_GETTERS = {
    "EncodedField": ("get_field", "field_id_item", "get_field_idx",
                     {"get_class_name": "class_idx", "get_name": "name_idx", "get_descriptor": "type_idx"}),
    "EncodedMethod": ("get_method", "method_id_item", "get_method_idx",
                      {"get_class_name": "class_idx", "get_name": "name_idx", "get_descriptor": "proto_idx"}),
}

# resolver of an index domain / offset kind: the ClassManager accessor that plays that role, and the
# map sections the format document says the lookup goes through.
RESOLVER = {
    "string": ("get_string", {"STRING_ID_ITEM", "STRING_DATA_ITEM"}),
    "type": ("get_type", {"TYPE_ID_ITEM", "STRING_ID_ITEM", "STRING_DATA_ITEM"}),
    "proto": ("get_proto", {"PROTO_ID_ITEM"}),
    "field": ("get_field", {"FIELD_ID_ITEM"}),
    "method": ("get_method", {"METHOD_ID_ITEM"}),
    "off:type_list": ("get_type_list", {"TYPE_LIST"}),
    "off:code_item": ("get_code", {"CODE_ITEM"}),
    "off:class_data_item": ("get_class_data_item", {"CLASS_DATA_ITEM"}),
}
# accessor -> (primary section, how the key must be derived)
PRIMARY = {
    "get_type_ref": "TYPE_ID_ITEM", "get_raw_string": "STRING_ID_ITEM", "get_proto": "PROTO_ID_ITEM",
    "get_field_ref": "FIELD_ID_ITEM", "get_method_ref": "METHOD_ID_ITEM", "get_type_list": "TYPE_LIST",
    "get_code": "CODE_ITEM", "get_class_data_item": "CLASS_DATA_ITEM",
}
CONTAINERS = {  # container class -> element class
    "TypeHIdItem": "TypeIdItem", "ProtoHIdItem": "ProtoIdItem", "FieldHIdItem": "FieldIdItem",
    "MethodHIdItem": "MethodIdItem",
}
CONSTRUCT = set(ITEM_OF) | set(CONTAINERS)


class Sink:
    """ctx look-alike that only collects (used for in-memory mutants)"""

    def __init__(self, repo, tier="quick"):
        self.repo, self.tier = repo, tier
        self.findings, self.obs, self.counts = [], [], {}
        self.explanation = ""
        self.extra = {}

    def mod(self, rel):
        return self.repo.mod(rel)

    def analysed(self, f):
        pass

    def ob(self, rule, instance, ok, detail=""):
        self.obs.append((rule, instance, ok))
        return ok

    def check(self, rule, instance, ok, func, construct, message, node=None, witness=None, detail=""):
        self.obs.append((rule, instance, ok))
        if not ok:
            self.findings.append((rule, getattr(func, "qualname", func), construct, message))
        return ok

    def finding(self, rule, func, construct, message, node=None, file=None, witness=None):
        self.findings.append((rule, getattr(func, "qualname", func), construct, message))

    def count(self, name, n=1):
        self.counts[name] = self.counts.get(name, 0) + n

    def floor(self, name, minimum, actual=None):
        actual = self.counts.get(name, 0) if actual is None else actual
        if actual < minimum:
            raise AnalysisError("floor %s: %d < %d" % (name, actual, minimum))

    def require(self, cond, what):
        if not cond:
            raise AnalysisError(what)

    def note(self, s):
        pass

    def assume(self, s):
        pass


# ---------------------------------------------------------------------------
class Model:
    def __init__(self, ctx):
        self.ctx = ctx
        self.repo = ctx.repo
        self.m = ctx.mod(DEX)
        ctx.mod(DEX_TYPES)
        self.folder = Folder(self.repo)

    def interp(self, asg, serials=False, opaque_default=None):
        from ..dexsim import SimInterp
        return SimInterp(self.repo, self.folder, asg=dict(asg), construct=lambda c: c.name in CONSTRUCT,
                         inline_module=self.m, serials=serials, opaque_default=opaque_default)

    def cls(self, name):
        return self.m.cls(name)

    def fresh(self, it, cls, size=None):
        st = StreamV("buff", index=0)
        o = it.construct_obj(cls, bind_ctor_args(cls, st, Sym("cm"), size))
        return o, st


def expected(expr, item, asg, list_roles):
    """expected abstract value of a role expression"""
    k = expr[0]
    if k == "F":
        return field_value(item, expr[1], asg)
    if k == "R":
        name, typ, ref = spec.field(item, expr[1])
        if ref not in RESOLVER:
            raise AnalysisError("no resolver role for %s.%s (%s)" % (item, name, ref))
        return Sym("cm." + RESOLVER[ref][0], field_value(item, expr[1], asg))
    if k == "L":
        return [expected(e, item, asg, list_roles) for e in expr[1]]
    if k == "CAT":
        return Sym("strop", "Add", *[expected(e, item, asg, list_roles) for e in expr[1]])
    if k == "ITEM":
        base = expected(expr[1], item, asg, list_roles)
        acc = base.op[3:]
        roles = list_roles.get(acc)
        if roles is None or expr[2] not in roles:
            raise AnalysisError("ClassManager.%s does not return a list with a %s element" % (acc, expr[2]))
        return Sym("index", base, roles.index(expr[2]))
    if k == "ENUM":
        return Sym("enum", "TypeMapItem", expected(expr[1], item, asg, list_roles))
    if k == "OPT":
        return expected(expr[1], item, asg, list_roles)
    raise AnalysisError("role expression %r" % (expr,))


def field_value(item, name, asg):
    for fname, off, n, code, ref in spec.fixed_fields(item):
        if fname == name:
            return slot_bits(0, off, n, False, asg)
    for k, (fname, typ, ref) in enumerate(spec.leb_fields(item)):
        if fname == name:
            return Sym(typ, "buff", k)
    raise AnalysisError("format item %s has no scalar field %s" % (item, name))


def strip_lin(p):
    """drop ('lin', 1) wrappers (string/number '+' is transparent for provenance)"""
    return {(leaf, tuple(w for w in ch if w != ("lin", 1))) for leaf, ch in p}


def subst(v, asg):
    if isinstance(v, Bits):
        return v.subst(asg)
    if isinstance(v, Sym):
        return Sym(v.op, *[subst(a, asg) for a in v.args])
    if isinstance(v, Lin):
        t = {}
        for a, c in v.terms.items():
            a2 = subst(a, asg)
            t[a2] = t.get(a2, 0) + c
        return Lin(t, v.const)
    if isinstance(v, list):
        return [subst(x, asg) for x in v]
    if isinstance(v, tuple):
        return tuple(subst(x, asg) for x in v)
    return v


def compare(ctx, rule, inst, func, construct, got, exp, what, optional=False):
    """provenance comparison of a getter result with the format's expectation.
    -> True/False (recorded).  Opaque terms in a *differing* result are an analysis error."""
    op = []
    pg = strip_lin(prov(got, opaque=op))
    pe = strip_lin(prov(exp))
    if pg == pe:
        ctx.check(rule, inst, True, func, construct, "", detail="%s <- %s" % (what, "; ".join(show_prov(pe)) or "constant"))
        return True
    if optional and not pg and not op:
        return None
    if op:
        raise AnalysisError("%s: %s evaluates to a term outside the provenance fragment: %s" % (
            getattr(func, "qualname", func), what, op[0]))
    ctx.check(rule, inst, False, func, construct,
              "%s derives from [%s]; the DEX format assigns it [%s]" % (what, "; ".join(show_prov(pg)) or "nothing read from the item",
                                                                       "; ".join(show_prov(pe))))
    return False


# ---------------------------------------------------------------------------
def run(ctx):
    ctx.explanation = __doc__
    core(ctx)
    ctx.floor("getter_roles", 60)
    ctx.floor("layouts", 12)
    ctx.floor("resolvers", 8)
    ctx.floor("containers", 4)
    ctx.floor("load_calls", 4)
    ctx.floor("diff_chain_elements", 6)
    ctx.floor("leb_orders", 3)
    ctx.floor("lookup_helpers", 11)
    ctx.floor("passthrough", 5)
    ctx.floor("absent_section_scenarios", 2)
    ctx.assume("cm.packer[fmt] is struct.Struct('<'+fmt) (DalvikPacker.__getitem__; endian tag checked under C09)")
    ctx.assume("readuleb128/readuleb128p1/readsleb128 consume exactly one LEB128 value from the stream (decided under C03)")
    ctx.note("not decided: annotation, debug-info and encoded-value items; try/handler tables (C08)")
    positive_control(ctx)
    if ctx.tier == "thorough":
        thorough(ctx)


def positive_control(ctx):
    """one seeded violation per run (in memory, nothing written): the getter rule must fire when the first two
    struct slots of an id item are swapped"""
    m = ctx.mod(DEX)
    seeds = [("MethodIdItem", "get_class_idx"), ("FieldIdItem", "get_class_idx"), ("ClassDefItem", "get_class_idx"),
             ("DalvikCode", "get_registers_size"), ("TryItem", "get_start_addr"), ("ProtoIdItem", "get_shorty_idx")]
    for cname, g in seeds:
        f = m.functions.get("%s.__init__" % cname)
        undo = _swap_targets(f.node, lambda n: True) if f is not None else None
        if undo is None:
            continue
        try:
            s = Sink(ctx.repo)
            md = Model(s)
            try:
                check_getter(s, md, cname, g, GETTERS[cname][g], {})
            except AnalysisError:
                pass
        finally:
            undo()
        ctx.ob("positive-control", "seeded slot swap in %s" % cname, bool(s.findings), "getter rule fires on the seeded violation")
        ctx.require(s.findings, "positive control did not fire: the getter rule no longer detects a swapped struct slot in %s" % cname)
        return
    raise AnalysisError("positive control: no item constructor with a tuple-unpacking assignment left to seed")


def core(ctx):
    md = Model(ctx)
    list_roles = check_resolvers(ctx, md)
    check_containers(ctx, md)
    for cname, item in ITEM_OF.items():
        check_layout(ctx, md, cname, item)
    for cname, getters in GETTERS.items():
        for g, expr in getters.items():
            check_getter(ctx, md, cname, g, expr, list_roles)
    check_class_data(ctx, md)
    check_members(ctx, md, list_roles)
    check_code(ctx, md)
    check_header_use(ctx, md)
    from ..dexsim import check_lookups_sim
    check_lookups_sim(ctx, md.repo, md.folder)
    check_passthrough(ctx, md)


# ---- (1a) layouts ----------------------------------------------------------------
def ctor_paths(md, cls, size=None, with_obj=False):
    # HeaderItem is a long chain of validations (`if bad: raise`, or `if good: return` + raise in helpers): it is examined on one
    # well-formed path found by depth-first search (1300 abstract paths otherwise, all but 16 of them ending in a raise)
    wf = cls.name == "HeaderItem"

    def run(asg):
        if wf:
            asg = {**wellformed_magic(), **asg}
        it = md.interp(asg)
        o, st = md.fresh(it, cls, size)
        return (st, o, it) if with_obj else st
    if wf:
        return [explore_first(run)]
    return explore(run)


def wellformed_magic(stream_index=0):
    """the property quantifies over well-formed files: magic = 'dex\\n0xx\\0' (bytes 0..3 and 7 fixed)"""
    asg = {}
    for k, byte in ((0, 0x64), (1, 0x65), (2, 0x78), (3, 0x0A), (7, 0x00)):
        for i in range(8):
            asg[("s", stream_index * STREAM_SPAN + k, i)] = (byte >> i) & 1
    return asg


def check_layout(ctx, md, cname, item):
    """the constructor reads the item's leading fixed fields as one contiguous little-endian unsigned
    struct sequence at offsets 0.., then the LEB fields in order"""
    cls = md.cls(cname)
    init = cls.lookup("__init__")
    ctx.require(init is not None, "anchor vanished: %s.__init__" % cname)
    ctx.analysed(init)
    fixed = spec.fixed_fields(item)
    lebs = spec.leb_fields(item)
    size = spec.fixed_size(item)
    res = ctor_paths(md, cls, with_obj=True)
    okpaths = 0
    for asg, r in res:
        if isinstance(r, Raised):
            continue
        okpaths += 1
        st, o, it = r
        reads = [e for e in st.log if e[0] in ("raw", "leb", "cstring")]
        inst = "%s layout" % cname
        if fixed:
            # reads of the item's own stream before any embedded item: contiguous from 0 covering `size` bytes
            pos, k = 0, 0
            good = True
            why = ""
            while pos < size and k < len(reads):
                e = reads[k]
                if e[0] == "raw" and not (isinstance(e[1], int) and isinstance(e[2], int)):
                    raise AnalysisError("%s.__init__: read #%d has a symbolic position / length (%s, %s)" % (cname, k, show(e[1])[:40], show(e[2])[:40]))
                if e[0] != "raw" or e[1] != pos:
                    good, why = False, "read #%d is %r, expected a fixed-size read at offset %d" % (k, e[:3], pos)
                    break
                pos += e[2]
                k += 1
            if good and pos != size:
                good, why = False, "fixed part reads %d bytes, the format's %s has %d" % (pos, item, size)
            ctx.check("layout/size", inst, good, init, "%s.__init__ fixed part" % cname,
                      "%s: %s" % (cname, why), detail="%s reads bytes 0..%d contiguously" % (cname, size))
            # every struct unpack event of this constructor: unsigned codes of the right widths
            evs = [ev[1] for ev in it.events if ev[0] == "unpack" and ev[1][0].startswith(cname + ".")]
            exp_codes = {}
            for fname, off, n, code, ref in fixed:
                exp_codes[off] = (fname, n, code)
            for qn, fmt, start, total in evs:
                start -= st.base
                if start >= size:
                    continue
                from ..bits import parse_format
                endian, slots, tot = parse_format(fmt)
                off = start
                for code, sz, signed in slots:
                    f = exp_codes.get(off)
                    good = f is not None and f[1] == sz and (code == "s" and f[2] == "s" or code != "s" and signed is False and f[2] != "s")
                    ctx.check("layout/slot", "%s @%d" % (cname, off), good, init, "%s.__init__ unpack %s" % (cname, fmt.lstrip("<")),
                              "%s: struct format %r puts a %s%d-byte slot '%s' at offset %d; the format document has %s there" % (
                                  cname, fmt, "signed " if signed else "", sz, code, off,
                                  ("%s (%d bytes, unsigned)" % (f[0], f[1])) if f else "no field boundary"),
                              detail="%s @%d = %s" % (cname, off, f[0] if f else "?"))
                    off += sz
        if lebs:
            got = [e for e in reads if e[0] == "leb"][: len(lebs)]
            exp = [("leb", typ, k) for k, (n, typ, ref) in enumerate(lebs)]
            lead = reads[: len(lebs)]
            ctx.check("leb-order", inst, lead == exp, init, "%s.__init__ LEB reads" % cname,
                      "%s reads %s first; the format's %s starts with %s" % (
                          cname, [e[1:] for e in lead], item, [(n, t) for n, t, r in lebs]),
                      detail="%s: %s" % (cname, ", ".join("%s=%s#%d" % (n, t, k) for k, (n, t, r) in enumerate(lebs))))
            ctx.count("leb_orders")
    ctx.require(okpaths > 0, "%s.__init__ raises on every abstract path" % cname)
    ctx.count("layouts")


# ---- (1b) getters --------------------------------------------------------------------
def check_getter(ctx, md, cname, g, expr, list_roles):
    cls = md.cls(cname)
    item = ITEM_OF[cname]
    f = cls.lookup(g)
    ctx.require(f is not None, "anchor vanished: %s.%s" % (cname, g))
    ctx.analysed(f)

    def run(asg):
        it = md.interp(asg)
        o, st = md.fresh(it, cls)
        return it.call_function(f, [], recv=o), dict(asg)

    res = explore(run)
    inst = "%s.%s" % (cname, g)
    n_ok = n_match = 0
    paths = []
    for asg, r in list.__iter__(res):
        if isinstance(r, Raised):
            continue
        v, a = r
        exp = expected(expr, item, a, list_roles)
        paths.append((asg, v, exp, strip_lin(prov(v, opaque=[])) == strip_lin(prov(exp))))
    # a verdict that is the same on every abstract path does not depend on the unevaluated conditions the paths went through
    uniform = len({ok_ for a_, v_, e_, ok_ in paths}) <= 1 and len({tuple(show_prov(strip_lin(prov(v_, opaque=[])))) for a_, v_, e_, ok_ in paths}) <= 1
    for asg, v, exp, ok_ in paths:
        n_ok += 1
        if hasattr(ctx, "path"):
            ctx.path(None if uniform else asg)
        c = compare(ctx, "getter", inst, f, "%s.%s" % (cname, g), v, exp, "%s.%s()" % (cname, g), optional=expr[0] == "OPT")
        if c:
            n_match += 1
    if hasattr(ctx, "path"):
        ctx.path(None)
    ctx.require(n_ok > 0, "%s.%s: no abstract path returns" % (cname, g))
    if expr[0] == "OPT":
        ctx.check("getter", inst, n_match > 0, f, "%s.%s" % (cname, g),
                  "%s.%s() never yields the item the format's %s points to" % (cname, g, expr[1][1]))
    ctx.count("getter_roles")


# ---- resolvers ------------------------------------------------------------------------
def cm_closure(cmi, name, seen=None):
    """sections read by ClassManager.<name> including ClassManager self-calls"""
    seen = seen if seen is not None else set()
    if name in seen or name not in cmi.cls.methods:
        return set()
    seen.add(name)
    out = set(cmi.direct.get(name, ()))
    for n in walk_no_nested(cmi.cls.methods[name].node):
        if isinstance(n, ast.Call) and isinstance(n.func, ast.Attribute) and isinstance(n.func.value, ast.Name) \
                and n.func.value.id == "self":
            out |= cm_closure(cmi, n.func.attr, seen)
    return out


class _TableV:
    """abstract value of ClassManager's section table (keyed by TypeMapItem)"""

    def __repr__(self):
        return "<section table>"


class _SideV:
    def __init__(self, member):
        self.member = member

    def __repr__(self):
        return "<side table of %s>" % self.member


class _CMSem(DexInterp):
    """evaluates a ClassManager method with its self-helpers executed: every access to the section table / the
    per-section side tables is logged with the section it belongs to and the key used; exception handlers are
    executed too (may-analysis) so that lookups made on a fallback path are seen"""

    def __init__(self, *a, cmi=None, **k):
        super().__init__(*a, **k)
        self.cmi = cmi
        self.sections = set()
        self.lookups = []   # (section, how, key)

    def _h_subscript(self, it, base, k, e, func):
        if isinstance(base, _TableV):
            kk = k
            if isinstance(kk, EnumVal) and kk.enum == self.cmi.enum_cls.name:
                self.sections.add(kk.member)
                return Sym("section", kk.member)
            self.sections.add("ANY")
            return Sym("section", "ANY")
        if isinstance(base, Sym) and base.op == "section":
            self.lookups.append((base.args[0], "[]", k))
            return Sym("sectionitem", base.args[0], "[]", k)
        if isinstance(base, _SideV):
            self.sections.add(base.member)
            self.lookups.append((base.member, "side[]", k))
            return Sym("sideitem", base.member, k)
        return super()._h_subscript(it, base, k, e, func)

    def _h_method(self, it, recv, name, args, kwargs, e, func):
        if isinstance(recv, Sym) and recv.op == "section":
            self.lookups.append((recv.args[0], name, args[0] if args else None))
            return Sym("sectionitem", recv.args[0], name, *args)
        if isinstance(recv, _SideV):
            self.sections.add(recv.member)
            if name == "get" and args:
                self.lookups.append((recv.member, "side.get", args[0]))
                return Sym("sideitem", recv.member, args[0])
            return Sym("sidecall", recv.member, name, *args)
        if isinstance(recv, _TableV):
            if name == "get" and args and isinstance(args[0], EnumVal) and args[0].enum == self.cmi.enum_cls.name:
                self.sections.add(args[0].member)
                return Sym("section", args[0].member)
            self.sections.add("ANY")
            return Sym("section", "ANY")
        return super()._h_method(it, recv, name, args, kwargs, e, func)

    def exec_try(self, s, env, func):
        from ..absint import _Return
        pending = None
        try:
            self.exec_block(s.body, env, func)
        except _Return as r:
            pending = r
        except Raised:
            pending = None
        # handlers as alternative continuations (their effects on the access log are what matters)
        for h in s.handlers:
            env2 = dict(env)
            if h.name:
                env2[h.name] = Sym("exc", "caught")
            try:
                self.exec_block(h.body, env2, func)
                for k_, v_ in env2.items():
                    env.setdefault(k_, v_)
            except (_Return, Raised):
                pass
        if pending is not None:
            raise pending
        self.exec_block(s.orelse, env, func)
        self.exec_block(s.finalbody, env, func)


def cm_semantics(md, cmi, acc):
    """-> (sections read, lookups [(section, how, key)], returned values) of ClassManager.<acc>(params...) over all abstract paths"""
    cm_cls = cmi.cls
    f = cm_cls.lookup(acc)
    if f is None:
        raise AnalysisError("anchor vanished: ClassManager.%s" % acc)
    params = f.params()[1:]
    secs, looks, vals = set(), [], []

    def run(asg):
        it = _CMSem(md.repo, md.folder, asg=dict(asg), inline_module=None, cmi=cmi)
        slf = Obj(cm_cls, "self")
        slf.attrs[cmi.mangled(cmi.table_attr)] = _TableV()
        for a_, mem in cmi.side_attrs.items():
            slf.attrs[cmi.mangled(a_)] = _SideV(mem)
        try:
            v = it.call_function(f, [Sym("param", p) for p in params], recv=slf)
        finally:
            secs.update(it.sections)
            looks.extend(it.lookups)
        return v

    n = 0
    for asg, r in explore(run, max_paths=512):
        if isinstance(r, Raised):
            continue
        n += 1
        vals.append(r)
    if not n:
        raise AnalysisError("ClassManager.%s raises on every abstract path" % acc)
    return f, params, secs, looks, vals


def check_resolvers(ctx, md):
    cmi = CMInfo(md.repo, md.folder)
    cm_cls = cmi.cls
    sem = {}

    def semantics(acc):
        if acc not in sem:
            sem[acc] = cm_semantics(md, cmi, acc)
        return sem[acc]

    # (a) section attribution: the sections an accessor (with the helpers it calls on self) really looks into
    for ref, (acc, want) in RESOLVER.items():
        f, params, got, looks, vals = semantics(acc)
        ctx.analysed(f)
        extra = sorted(got - want)
        missing = sorted(want - got)
        if "ANY" in got:
            raise AnalysisError("ClassManager.%s indexes the section table with a key that is not a constant map type" % acc)
        if missing and not extra:
            raise AnalysisError("ClassManager.%s: no lookup in section %s was found by the abstract evaluation (shape outside the fragment)" % (acc, missing))
        ctx.check("resolver/section", "ClassManager.%s" % acc, not extra, f, "ClassManager.%s sections" % acc,
                  "ClassManager.%s (resolver of %s) looks into section %s; the format resolves %s through %s" % (
                      acc, ref, extra, ref, sorted(want)),
                  detail="%s reads %s" % (acc, sorted(got)))
        ctx.count("resolvers")
    # (b) the key of the primary lookup is the accessor's argument
    for acc, sec in PRIMARY.items():
        f, params, got, looks, vals = semantics(acc)
        ctx.analysed(f)
        ctx.require(len(params) >= 1, "ClassManager.%s takes no index" % acc)
        mine = [(how, key) for s_, how, key in looks if s_ == sec]
        if not mine:
            if sec in got or not got:
                raise AnalysisError("ClassManager.%s: section %s is used without a keyed lookup (shape outside the fragment)" % (acc, sec))
            ctx.check("resolver/section", "ClassManager.%s" % acc, False, f, "ClassManager.%s sections" % acc,
                      "ClassManager.%s must look its argument up in section %s; it looks into %s" % (acc, sec, sorted(got)))
            continue
        want_key = Sym("param", params[0])
        for how, key in mine:
            if key == want_key:
                ctx.check("resolver/key", "ClassManager.%s" % acc, True, f, "%s lookup key" % acc, "", detail="%s[%s]" % (sec, params[0]))
                continue
            op = []
            pk = prov(key, opaque=op) if key is not None else set()
            if key is None or op or not any(leaf == ("param", params[0]) for leaf, ch in pk):
                raise AnalysisError("ClassManager.%s: lookup key %s in section %s is outside the fragment" % (acc, show(key)[:60], sec))
            ctx.check("resolver/key", "ClassManager.%s" % acc, False, f, "%s lookup key %s" % (acc, show(key)[:60]),
                      "ClassManager.%s looks section %s up with %s, not with its argument %s" % (acc, sec, show(key)[:80], params[0]))
    # (c) list roles of get_proto / get_field / get_method, from the returned values
    roles = {}
    f, params, got, looks, vals = semantics("get_proto")
    rl = None
    for v in vals:
        cur = []
        if not isinstance(v, (list, tuple)):
            raise AnalysisError("ClassManager.get_proto returns %s, not a list display (shape outside the fragment)" % show(v)[:60])
        for el in v:
            g = el.args[0].args[-1] if isinstance(el, Sym) and el.op == "call" and el.args and isinstance(el.args[0], Sym) and el.args[0].op == "attr" \
                and len(el.args) == 1 else None
            role = GETTERS["ProtoIdItem"].get(g) if isinstance(g, str) else None
            cur.append(role[1] if role and role[0] == "R" else None)
        if None in cur:
            raise AnalysisError("ClassManager.get_proto: returned elements are not plain ProtoIdItem role getters (shape outside the fragment)")
        if rl is not None and rl != cur:
            raise AnalysisError("ClassManager.get_proto returns differently ordered lists on different paths")
        rl = cur
    roles["get_proto"] = rl
    ctx.check("resolver/list", "ClassManager.get_proto", set(rl) == {"parameters_off", "return_type_idx"} and len(rl) == 2, f,
              "ClassManager.get_proto result", "get_proto must return the resolved parameter list and return type of the proto item; returns roles %s" % rl,
              detail="get_proto -> %s" % rl)
    for acc, cname in (("get_field", "FieldIdItem"), ("get_method", "MethodIdItem")):
        f, params, got, looks, vals = semantics(acc)
        for v in vals:
            ok = isinstance(v, Sym) and v.op == "call" and len(v.args) == 1 and isinstance(v.args[0], Sym) and v.args[0].op == "attr" \
                and v.args[0].args[-1] == "get_list"
            if not ok:
                raise AnalysisError("ClassManager.%s no longer returns <id item>.get_list() (%s)" % (acc, show(v)[:60]))
        lst = GETTERS[cname]["get_list"][1]
        roles[acc] = [e[1] for e in lst]
    return roles


def resolve_alias(f, e, depth=0):
    """follow `local = <expr>` single definitions of a Name"""
    while isinstance(e, ast.Name) and depth < 5:
        defs = [n.value for n in walk_no_nested(f.node) if isinstance(n, ast.Assign) and any(isinstance(t, ast.Name) and t.id == e.id for t in n.targets)]
        if len(defs) != 1:
            break
        e = defs[0]
        depth += 1
    return e


def reassigned(f, name):
    for n in walk_no_nested(f.node):
        if isinstance(n, (ast.Assign, ast.AugAssign, ast.AnnAssign)):
            tg = n.targets if isinstance(n, ast.Assign) else [n.target]
            for t in tg:
                for x in ast.walk(t):
                    if isinstance(x, ast.Name) and x.id == name and isinstance(x.ctx, ast.Store):
                        return True
    return False


def primary_keys(cmi, f, sec):
    """key expressions used with the section table / side table of `sec` in f:
    table[SEC][k], table[SEC].get(k), table[SEC].get_code(k), side[k], side.get(k)"""
    out = []
    for mem, node in cmi.nodes[f.name]:
        if mem != sec:
            continue
        p = getattr(node, "_parent", None)
        if isinstance(p, ast.Subscript) and p.value is node:
            out.append((p, p.slice))
        elif isinstance(p, ast.Attribute) and p.value is node:
            pp = getattr(p, "_parent", None)
            if isinstance(pp, ast.Call) and pp.func is p and pp.args:
                out.append((pp, pp.args[0]))
            else:
                out.append((p, None))
        else:
            # iteration / other use: not a keyed lookup
            out.append((node, None))
    return out


def check_containers(ctx, md):
    """XHIdItem.get(idx) is the idx-th element constructed from the stream, elements constructed `size` times in sequence"""
    for hname, ename in CONTAINERS.items():
        cls = md.cls(hname)
        get = cls.lookup("get")
        ctx.require(get is not None, "anchor vanished: %s.get" % hname)
        ctx.analysed(get)

        def run(asg):
            it = md.interp(asg)
            o, st = md.fresh(it, cls, size=Sym("param", "size"))
            v = it.call_function(get, [Sym("param", "idx")], recv=o)
            return v, it, o

        n_sel = 0
        for asg, r in explore(run):
            if isinstance(r, Raised):
                raise AnalysisError("%s.get raises on an abstract path: %s" % (hname, r))
            v, it, o = r
            if v is None or isinstance(v, (int, str)) and not isinstance(v, Bits) or isinstance(v, Sym) and v.op == "new":
                continue  # the not-found answer (bounds guard instead of IndexError handler); judged in the resolver clause
            n_sel += 1
            elems = [x for c, x, a in it.new_log if c.name == ename]
            comps = [a for a in o.attrs.values() if isinstance(a, Comp) and isinstance(a.elt, Obj) and a.elt.cls.name == ename]
            if not (len(comps) == 1 and len(elems) == 1):
                raise AnalysisError("%s: elements are not built by one comprehension over the stream (shape outside the fragment)" % hname)
            good = True
            why = ""
            if good:
                c = comps[0]
                rng = c.iter
                good = isinstance(rng, Sym) and rng.op == "range" and rng.args[-1] == Sym("param", "size") \
                    and (len(rng.args) == 1 or (len(rng.args) == 2 and rng.args[0] == 0)) and not c.conds
                why = "element count is %s, expected range(size)" % show(rng)
            if good:
                sel = elems[0].attrs.get("__selected_by__")
                good = sel == Sym("param", "idx")
                why = "get(idx) selects element %s" % show(sel)
                if not good and sel is not None:
                    op = []
                    prov(sel, opaque=op)
                    if op:
                        raise AnalysisError("%s.get: element index evaluates outside the fragment (%s)" % (hname, op[0]))
            if good:
                if hname == "TypeHIdItem":
                    exp = field_value("type_id_item", "descriptor_idx", asg)
                    good = isinstance(v, Bits) and v.subst(asg) == exp
                    why = "get(idx) returns %s, expected the descriptor string index of the idx-th type_id_item" % show(v)
                else:
                    good = v is elems[0]
                    why = "get(idx) returns %s, expected the idx-th %s" % (show(v), ename)
            ctx.check("container", "%s.get" % hname, good, get, "%s.get" % hname, "%s.get: %s" % (hname, why),
                      detail="%s.get(idx) = element idx of %d-stride sequence of %s" % (hname, spec.fixed_size(ITEM_OF[ename]), ename))
        ctx.require(n_sel > 0, "%s.get never returns an element" % hname)
        ctx.count("containers")


# ---- (2) class_data_item ----------------------------------------------------------------
LIST_GETTERS = [("static_fields", "get_static_fields", "EncodedField"), ("instance_fields", "get_instance_fields", "EncodedField"),
                ("direct_methods", "get_direct_methods", "EncodedMethod"), ("virtual_methods", "get_virtual_methods", "EncodedMethod")]


class _LoadSpy(DexInterp):
    def __init__(self, *a, loader=None, **k):
        super().__init__(*a, **k)
        self.loader = loader
        self.load_calls = []

    def _h_method(self, it, recv, name, args, kwargs, e, func):
        if isinstance(recv, Obj) and self.loader is not None and recv.cls is not None and recv.cls.lookup(name) is self.loader \
                and self.depth >= 1 and func is not None and func.name == "__init__":
            st = next((a for a in args if isinstance(a, StreamV)), None)
            self.load_calls.append((list(args), st.n_leb if st is not None else None))
            return None
        return super()._h_method(it, recv, name, args, kwargs, e, func)


def check_class_data(ctx, md):
    cls = md.cls("ClassDataItem")
    init = cls.lookup("__init__")
    loader = find_loader(ctx, cls)
    ctx.analysed(init)
    ctx.analysed(loader)
    lparams = loader.params()[1:]

    def run(asg):
        it = _LoadSpy(md.repo, md.folder, asg=dict(asg), construct=lambda c: c.name in CONSTRUCT, inline_module=md.m, loader=loader)
        o, st = md.fresh(it, cls)
        lists = []
        for fname, g, ename in LIST_GETTERS:
            gf = cls.lookup(g)
            ctx.require(gf is not None, "anchor vanished: ClassDataItem.%s" % g)
            lists.append(it.call_function(gf, [], recv=o))
        return it.load_calls, lists, st

    res = explore(run)
    for asg, r in res:
        if isinstance(r, Raised):
            raise AnalysisError("ClassDataItem.__init__ raises on an abstract path: %s" % r)
        calls, lists, st = r
        ctx.require(len(calls) > 0, "ClassDataItem.__init__ no longer loads its members through %s (shape outside the fragment)" % loader.qualname)
        good = len(calls) == 4
        ctx.check("class-data/order", "ClassDataItem.__init__", good, init, "ClassDataItem.__init__ member lists",
                  "class_data_item has four member lists; __init__ loads %d" % len(calls))
        for k, ((args, nleb), (fname, g, ename)) in enumerate(zip(calls, LIST_GETTERS)):
            by = dict(zip(lparams, args))
            size = next((a for a in args if isinstance(a, Sym) and a.op in spec.LEBS), None)
            lst = next((a for a in args if isinstance(a, list)), None)
            typ = next((a for a in args if isinstance(a, Ref) and a.kind == "class"), None)
            exp_size = Sym(spec.ULEB, "buff", k)
            inst = "ClassDataItem load #%d (%s)" % (k, fname)
            if size is None or lst is None or typ is None:
                raise AnalysisError("ClassDataItem.__init__: arguments of %s call #%d are not (count, list, element class) terms: %s" % (
                    loader.name, k, show(args)[:120]))
            ctx.check("class-data/order", inst + " size", size == exp_size and nleb is not None and nleb >= 4, init,
                      "%s(...) call #%d size" % (loader.name, k),
                      "list #%d (%s) is loaded with element count %s; the format gives %s_size = ULEB #%d, read before any element" % (
                          k, fname, show(size), fname, k), detail="%s count = uleb128 #%d" % (fname, k))
            ctx.check("class-data/order", inst + " list", lst is not None and lst is lists[k], init,
                      "%s(...) call #%d list" % (loader.name, k),
                      "list #%d in stream order must be what %s() returns (%s); it is stored in %s" % (
                          k, g, fname, next((LIST_GETTERS[j][0] for j in range(4) if lst is lists[j]), "another list")),
                      detail="stream list #%d -> %s()" % (k, g))
            ctx.check("class-data/order", inst + " type", typ is not None and typ.obj.name == ename, init,
                      "%s(...) call #%d type" % (loader.name, k),
                      "list #%d (%s) holds %s elements in the format; loaded as %s" % (k, fname, ename, typ.obj.name if typ else "?"),
                      detail="%s elements are %s" % (fname, ename))
            ctx.count("load_calls")
    # (3) the index-diff chain
    check_diff_chain(ctx, md, cls, loader)


def find_loader(ctx, cls):
    """the helper ClassDataItem.__init__ hands (count, list, element class, stream, cm) to: the method of the class that is
    called on self with a class argument (EncodedField / EncodedMethod) -- found by name resolution of the call arguments, in
    __init__ or in a loop over a table of such triples"""
    init = cls.lookup("__init__")
    cands = set()
    for n in walk_no_nested(init.node):
        if isinstance(n, ast.Call) and isinstance(n.func, ast.Attribute) and isinstance(n.func.value, ast.Name) and n.func.value.id == "self" \
                and cls.lookup(n.func.attr) is not None and len(n.args) >= 3:
            cands.add(n.func.attr)
    cands = {c for c in cands if len(cls.lookup(c).params()) >= 4}
    ctx.require(len(cands) == 1, "ClassDataItem.__init__: member-list loader helper not found (shape outside the fragment)")
    return cls.lookup(cands.pop())


def check_diff_chain(ctx, md, cls, loader):
    # uniformity: no counting loop (for x in range(...)) of the loader or of the self-helpers it calls reads its counter
    funcs, work = {}, [loader]
    while work:
        f0 = work.pop()
        if f0.qualname in funcs:
            continue
        funcs[f0.qualname] = f0
        for n in walk_no_nested(f0.node):
            if isinstance(n, ast.Call) and isinstance(n.func, ast.Attribute) and isinstance(n.func.value, ast.Name) and n.func.value.id == "self":
                g = cls.lookup(n.func.attr)
                if g is not None:
                    work.append(g)
    n_count = 0
    for f0 in funcs.values():
        for lp in walk_no_nested(f0.node):
            if isinstance(lp, ast.While):
                raise AnalysisError("%s: while loop in the element loader; unrolling argument does not apply" % f0.qualname)
            if isinstance(lp, ast.For) and isinstance(lp.iter, ast.Call) and isinstance(lp.iter.func, ast.Name) and lp.iter.func.id == "range":
                n_count += 1
                counter = {x.id for x in ast.walk(lp.target) if isinstance(x, ast.Name)}
                used = {x.id for s0 in lp.body for x in ast.walk(s0) if isinstance(x, ast.Name) and isinstance(x.ctx, ast.Load)}
                ctx.require(not (counter & used), "%s: loop body reads its counter; unrolling argument does not apply" % f0.qualname)
    ctx.require(n_count == 1, "%s: expected exactly one counting loop over the element count (found %d)" % (loader.qualname, n_count))
    params = loader.params()[1:]
    N = 3
    for ename, item, idx_getter in (("EncodedField", "encoded_field", "get_field_idx"), ("EncodedMethod", "encoded_method", "get_method_idx")):
        ecls = md.cls(ename)
        nleb = len(spec.leb_fields(item))

        def run(asg):
            it = md.interp(asg)
            st = StreamV("buff", index=0)
            o = Obj(cls, "classdata")
            o.attrs["CM"] = Sym("cm")
            lst = []
            args = []
            for p in params:
                pl = p.lower()
                if pl in ("size", "n", "count", "nb"):
                    args.append(N)
                elif pl in ("l", "lst", "list", "out", "elements"):
                    args.append(lst)
                elif pl in ("type", "cls", "klass", "kind"):
                    args.append(Ref("class", ecls))
                elif pl in ("buff", "buf"):
                    args.append(st)
                elif pl in ("cm",):
                    args.append(Sym("cm"))
                else:
                    raise AnalysisError("%s: parameter %r has no known role" % (loader.qualname, p))
            it.call_function(loader, args, recv=o)
            out = []
            for el in lst:
                gf = el.cls.lookup(idx_getter) if isinstance(el, Obj) else None
                out.append(it.call_function(gf, [], recv=el) if gf is not None else None)
            return out, st

        for asg, r in explore(run):
            if isinstance(r, Raised):
                raise AnalysisError("%s raises on an abstract path: %s" % (loader.qualname, r))
            vals, st = r
            ctx.check("diff-chain", "%s list length" % ename, len(vals) == N, loader, "%s appends" % loader.qualname,
                      "%s(size=%d) appends %d elements" % (loader.name, N, len(vals)))
            for k, v in enumerate(vals):
                exp = Lin({Sym(spec.ULEB, "buff", nleb * j): 1 for j in range(k + 1)}, 0).simplify()
                got = v
                if isinstance(got, Bits) and got.is_const():
                    got = got.value()
                good = got == exp
                if not good:
                    op = []
                    prov(got, opaque=op)
                    if op or got is None:
                        raise AnalysisError("%s: index of element %d evaluates outside the fragment: %s" % (
                            loader.qualname, k, op[0] if op else "element is not an abstract object"))
                ctx.check("diff-chain", "%s element %d" % (ename, k), good, loader, "%s idx of element %d" % (loader.qualname, k),
                          "%s element %d of a member list gets index %s; the format says idx_k = sum of idx_diff of elements 0..k = %s "
                          "(first element direct, reset per list)" % (ename, k, show(got), show(exp)),
                          detail="%s[%d].%s() = %s" % (ename, k, idx_getter, show(exp)))
                ctx.count("diff_chain_elements")


# ---- members resolved through get_field / get_method -----------------------------------------
def check_members(ctx, md, list_roles):
    for cname, (acc, iditem, idx_getter, getters) in MEMBER_GETTERS.items():
        cls = md.cls(cname)
        adj = cls.lookup("adjust_idx")
        ctx.require(adj is not None and cls.lookup(idx_getter) is not None, "anchor vanished: %s.adjust_idx / %s" % (cname, idx_getter))
        item = ITEM_OF[cname]
        diff_name = spec.leb_fields(item)[0][0]
        prev = Sym("param", "prev")
        idx = Lin({Sym(spec.ULEB, "buff", 0): 1, prev: 1}, 0)

        def mk(asg):
            it = md.interp(asg)
            o, st = md.fresh(it, cls)
            it.call_function(adj, [prev], recv=o)
            return it, o

        # adjust_idx
        def run0(asg):
            it, o = mk(asg)
            return it.call_function(cls.lookup(idx_getter), [], recv=o)
        for asg, v in explore(run0):
            if v != idx:
                op = []
                prov(v, opaque=op)
                if op:
                    raise AnalysisError("%s.%s evaluates outside the fragment: %s" % (cname, idx_getter, op[0]))
            ctx.check("getter", "%s.%s" % (cname, idx_getter), v == idx, cls.lookup(idx_getter), "%s.%s" % (cname, idx_getter),
                      "%s.%s() after adjust_idx(prev) is %s; the format says %s + previous index" % (cname, idx_getter, show(v), diff_name),
                      detail="%s = %s + prev" % (idx_getter, diff_name))
            ctx.count("getter_roles")
        roles = list_roles[acc]
        for g, role in getters.items():
            f = cls.lookup(g)
            ctx.require(f is not None, "anchor vanished: %s.%s" % (cname, g))
            ctx.analysed(f)

            def run(asg, f=f):
                it, o = mk(asg)
                return it.call_function(f, [], recv=o)
            n_ok = 0
            for asg, v in explore(run):
                if isinstance(v, Raised):
                    continue
                pg = strip_lin(prov(v, opaque=[]))
                # error fallbacks ('NAME_ERROR' constants) carry no provenance: skip those paths
                if not pg:
                    continue
                n_ok += 1
                exp = Sym("index", Sym("cm." + acc, idx), roles.index(role))
                compare(ctx, "getter", "%s.%s" % (cname, g), f, "%s.%s" % (cname, g), v, exp, "%s.%s()" % (cname, g))
            ctx.require(n_ok > 0, "%s.%s never returns a value read from the file" % (cname, g))
            ctx.count("getter_roles")


# ---- code_item: instructions --------------------------------------------------------------
def check_code(ctx, md):
    cls = md.cls("DalvikCode")
    init = cls.lookup("__init__")
    g = cls.lookup("get_bc")
    ctx.require(g is not None, "anchor vanished: DalvikCode.get_bc")
    size = spec.fixed_size("code_item")

    def run(asg):
        it = md.interp(asg)
        o, st = md.fresh(it, cls)
        bc = it.call_function(g, [], recv=o)
        return st, bc, dict(asg)

    n = 0
    for asg, r in explore(run):
        if isinstance(r, Raised):
            continue
        n += 1
        st, bc, a = r
        insns_size = field_value("code_item", "insns_size", a)
        tries_size = field_value("code_item", "tries_size", a)
        raws = [e for e in st.log if e[0] == "raw"]
        after = [e for e in raws if not (isinstance(e[1], int) and e[1] < size)]
        good = bool(after) and after[0][1] == size
        ln = after[0][2] if after else None
        if isinstance(ln, Bits):
            ln = ln.subst(a)
        if after and not isinstance(after[0][1], int):
            raise AnalysisError("DalvikCode.__init__: position of the instruction read is symbolic (%s)" % show(after[0][1])[:60])
        if after and not isinstance(ln, (Bits, int)):
            raise AnalysisError("DalvikCode.__init__: length of the instruction read is an opaque term (%s)" % show(ln)[:60])
        if isinstance(ln, Bits) and ln.has_top():
            raise AnalysisError("DalvikCode.__init__: length of the instruction read is not exact")
        good = good and ln == insns_size.shl(1)
        ctx.check("code/insns", "DalvikCode insns", good, init, "DalvikCode.__init__ insns read",
                  "the instruction array must be the insns_size*2 bytes at offset %d; read is at %s length %s" % (
                      size, show(after[0][1]) if after else "?", show(ln)),
                  detail="insns = bytes [16, 16 + 2*insns_size)")
        # padding: 2 bytes iff insns_size odd and tries_size != 0
        odd = insns_size.b[0]
        odd = a.get(odd, odd) if isinstance(odd, tuple) else odd
        pad = [e for e in after[1:] if isinstance(e[2], int) and e[2] == 2 and not isinstance(e[1], int)]
        pos_after_insns = Lin({insns_size.shl(1): 1}, size).simplify() if not insns_size.shl(1).is_const() else size + insns_size.shl(1).value()
        pad_here = [e for e in pad if e[1] == pos_after_insns]
        tries_known_zero = tries_size.is_const() and tries_size.value() == 0
        if odd == 0 or tries_known_zero:
            ctx.check("code/padding", "DalvikCode padding (even)", not pad_here, init, "DalvikCode.__init__ padding",
                      "2 padding bytes are consumed although insns_size is even / there are no tries")
        # the code object handed out is built from that read
        pb = strip_lin(prov(bc, opaque=[]))
        has_read = any(leaf[0] in ("read", "buf") for leaf, ch in pb)
        ctx.check("code/insns", "DalvikCode.get_bc", has_read, g, "DalvikCode.get_bc",
                  "get_bc() does not hand out the instruction bytes read from the code item", detail="get_bc() wraps the insns read")
    ctx.require(n > 0, "DalvikCode.__init__ raises on every abstract path")
    ctx.count("getter_roles")


# ---- header: map offset ----------------------------------------------------------------------
def check_header_use(ctx, md):
    """DEX._load hands MapList the header's map_off slot"""
    dex = md.cls("DEX")
    load = dex.lookup("_load")
    ctx.require(load is not None, "anchor vanished: DEX._load")
    ctx.analysed(load)
    hdr = md.cls("HeaderItem")
    off = next(o for n, o, k, c, r in spec.fixed_fields("header_item") if n == "map_off")
    seen = []

    class Spy(DexInterp):
        def _h_call(self, it, name, callee, args, kwargs, e, func):
            if isinstance(callee, Ref) and callee.kind == "class" and callee.obj.name == "MapList":
                seen.append((list(args), dict(self.asg)))
                return Sym("new", "MapList")
            return super()._h_call(it, name, callee, args, kwargs, e, func)

    def run(asg):
        asg = {**wellformed_magic(), **asg}
        it = Spy(md.repo, md.folder, asg=dict(asg), construct=lambda c: c.name == "HeaderItem", inline_module=None)
        o = Obj(dex, "dex")
        o.attrs["raw"] = StreamV("buff", index=0)
        o.attrs["CM"] = Sym("cm")
        before = len(seen)
        it.call_function(load, [Sym("param", "buff")], recv=o)
        if len(seen) == before:
            raise Raised("NoMapList", None, "this path does not construct a MapList")
        return True

    explore_first(run)
    ctx.require(seen, "DEX._load never constructs a MapList on an abstract path")
    for args, asg in seen:
        exp = slot_bits(0, off, 4, False, asg)
        good = any(isinstance(a, Bits) and a.subst(asg) == exp for a in args)
        if not good and not any(isinstance(a, Bits) and not a.has_top() for a in args):
            raise AnalysisError("DEX._load: the offset handed to MapList evaluates to an opaque term (%s)" % [show(a)[:60] for a in args])
        ctx.check("header/map_off", "DEX._load", good, load, "MapList(...) offset",
                  "the map list is located by header_item.map_off (bytes %d..%d); DEX._load passes %s" % (
                      off, off + 3, [describe_bits(a) if isinstance(a, Bits) else show(a)[:40] for a in args]),
                  detail="MapList offset = header bytes %d..%d" % (off, off + 3))
    ctx.count("getter_roles")


# ---- resolvers pass the file's strings through unmodified ----------------------------------------
class _CMInterp(DexInterp):
    """evaluates one ClassManager method; calls of the other accessors on self stay opaque (cm.<name>(args))"""

    def __init__(self, *a, target=None, cm_cls=None, overrides=None, **k):
        super().__init__(*a, **k)
        self.target, self.cm_cls, self.overrides = target, cm_cls, overrides or {}

    def _h_method(self, it, recv, name, args, kwargs, e, func):
        if isinstance(recv, Obj) and recv.cls is self.cm_cls and name != self.target and self.cm_cls.lookup(name) is not None:
            if name in self.overrides:
                return self.overrides[name]
            return Sym("cm." + name, *args)
        return super()._h_method(it, recv, name, args, kwargs, e, func)


def contains(v, t):
    if v == t:
        return True
    if isinstance(v, Sym):
        return any(contains(a, t) for a in v.args)
    if isinstance(v, (list, tuple)):
        return any(contains(a, t) for a in v)
    if isinstance(v, Lin):
        return any(contains(a, t) for a in v.terms)
    return False


def judge_passthrough(ctx, f, what, values, allowed, sentinels, describe):
    """every returned value is one of `allowed` (identity) or a sentinel constant; an allowed term wrapped in further
    operations is a violation; anything else is outside the fragment"""
    n_ok = 0
    for v in values:
        if any(v == a for a in allowed):
            n_ok += 1
            ctx.check("passthrough", what, True, f, "%s return value" % f.qualname, "", detail="%s returns %s unmodified" % (what, show(v)[:80]))
            continue
        if isinstance(v, str) and v in sentinels:
            continue
        core = next((a for a in allowed if contains(v, a)), None)
        if core is not None:
            ctx.check("passthrough", what, False, f, "%s: value modified before it is returned" % f.qualname,
                      "%s must hand out %s unmodified; it returns %s (a call / formatting / slicing is applied to the string of the file)" % (
                          what, describe, show(v)[:160]))
            continue
        raise AnalysisError("%s returns %s: neither the pass-through value nor a documented sentinel (shape outside the fragment)" % (what, show(v)[:100]))
    return n_ok


def cm_returns(md, cm_cls, name, overrides=None, symbolic_attrs=()):
    f = cm_cls.lookup(name)
    if f is None:
        raise AnalysisError("anchor vanished: ClassManager.%s" % name)
    params = f.params()[1:]

    def run(asg):
        it = _CMInterp(md.repo, md.folder, asg=dict(asg), inline_module=None, target=name, cm_cls=cm_cls, overrides=overrides)
        slf = Obj(cm_cls, "self")
        for a_ in symbolic_attrs:   # tables that must stay symbolic even when they are (class-level) literals
            slf.attrs[a_] = Sym("attr", "self", a_)
        return it.call_function(f, [Sym("param", p) for p in params], recv=slf)

    vals = []
    for asg, r in explore(run, max_paths=256):
        if isinstance(r, Raised):
            continue
        vals.append(r)
    if not vals:
        raise AnalysisError("ClassManager.%s raises on every abstract path" % name)
    # constant returns inside exception handlers (not reached by the abstract run)
    handler_consts = []
    for n in walk_no_nested(f.node):
        if isinstance(n, ast.ExceptHandler):
            for x in ast.walk(n):
                if isinstance(x, ast.Return) and x.value is not None:
                    if isinstance(x.value, ast.Constant) and isinstance(x.value.value, str):
                        handler_consts.append(x.value.value)
                    else:
                        raise AnalysisError("ClassManager.%s: exception handler returns a non-constant (shape outside the fragment)" % name)
    return f, params, vals + handler_consts


def check_absent_sections(ctx, md, cmi):
    """optional sections: an offset field of 0 means "none" in the format, and the section it would point into may be
    absent from the map altogether (a DEX whose methods are all abstract has no code_item section).  Every resolver that an
    item applies *unconditionally* to such an offset (role R(<off field>) that is not optional in the getter table) is run
    with argument 0 on a ClassManager whose section table and side tables are empty: it must answer (None / []), not raise."""
    from ..dexsim import SimInterp
    cm_cls = cmi.cls
    accs = {}
    for cname, getters in GETTERS.items():
        item = ITEM_OF[cname]
        for g, expr in getters.items():
            if expr[0] != "R":
                continue
            name, typ, ref = spec.field(item, expr[1])
            if ref and ref.startswith("off:") and ref in RESOLVER:
                accs.setdefault(RESOLVER[ref][0], []).append("%s.%s" % (cname, g))
    ctx.require(accs, "no unconditional offset resolver found in the role table")
    for acc, users in sorted(accs.items()):
        f = cm_cls.lookup(acc)
        ctx.require(f is not None, "anchor vanished: ClassManager.%s" % acc)

        def run(asg):
            it = SimInterp(md.repo, md.folder, asg=dict(asg), inline_module=None)
            slf = Obj(cm_cls, "self")
            slf.attrs[cmi.mangled(cmi.table_attr)] = {}
            for a_ in cmi.side_attrs:
                slf.attrs[cmi.mangled(a_)] = {}
            return it.call_function(f, [0], recv=slf)

        results = explore(run, max_paths=64)
        for asg, r in list.__iter__(results):
            if hasattr(ctx, "path"):
                ctx.path(None)
            raised = isinstance(r, Raised)
            if not raised and not (r is None or r == [] or r == () or r == ""):
                raise AnalysisError("ClassManager.%s(0) without its section evaluates to %s (shape outside the fragment)" % (acc, show(r)[:60]))
            ctx.check("resolver/absent-section", "ClassManager.%s(0), section absent" % acc, not raised, f,
                      "ClassManager.%s(0) when the section is absent from the map" % acc,
                      "ClassManager.%s(0) raises %s when the map has no such section; offset 0 means \"none\" and a well-formed file without "
                      "any such item has no section for it (applied unconditionally by %s)" % (acc, r if raised else "", ", ".join(users)),
                      detail="%s(0) with an empty section table -> %s" % (acc, "raises" if raised else show(r)))
        ctx.count("absent_section_scenarios")


def check_passthrough(ctx, md):
    cmi = CMInfo(md.repo, md.folder)
    cm_cls = cmi.cls
    # get_string: the hooked value stored for idx, or get_raw_string(idx)
    f, params, vals = cm_returns(md, cm_cls, "get_string")
    idx = Sym("param", params[0])
    hooked = [v for v in vals if isinstance(v, Sym) and v.op == "index" and isinstance(v.args[0], Sym) and v.args[0].op == "attr"
              and v.args[0].args[0] == "self" and v.args[1] == idx]
    # <table>.get(idx[, default]) form
    hooked += [v for v in vals if isinstance(v, Sym) and v.op == "call" and len(v.args) >= 2 and isinstance(v.args[0], Sym) and v.args[0].op == "attr"
               and v.args[0].args[-1] == "get" and isinstance(v.args[0].args[0], Sym) and v.args[0].args[0].op == "attr"
               and v.args[0].args[0].args[0] == "self" and v.args[1] == idx]
    n = judge_passthrough(ctx, f, "ClassManager.get_string", vals, hooked + [Sym("cm.get_raw_string", idx)], set(),
                          "the hooked value of idx or get_raw_string(idx)")
    ctx.require(n > 0, "ClassManager.get_string never returns get_raw_string(idx)")
    ctx.check("passthrough", "ClassManager.get_string falls back to the raw string", any(v == Sym("cm.get_raw_string", idx) for v in vals) or
              any(contains(v, Sym("cm.get_raw_string", idx)) for v in vals), f, "get_string raw fallback",
              "ClassManager.get_string never consults get_raw_string(idx)")
    ctx.count("passthrough")
    check_absent_sections(ctx, md, cmi)
    # get_raw_string: StringDataItem.get() of the item at the data offset of string id idx
    f, params, vals = cm_returns(md, cm_cls, "get_raw_string")
    idx = Sym("param", params[0])
    table = Sym("attr", "self", cmi.mangled(cmi.table_attr))
    sid = Sym("index", Sym("index", table, cmi.members["STRING_ID_ITEM"]), idx)
    off = Sym("call", Sym("attr", sid, "get_string_data_off"))
    sides = [a for a, sec in cmi.side_attrs.items() if sec == "STRING_DATA_ITEM"]
    allowed = [Sym("call", Sym("attr", Sym("index", Sym("attr", "self", cmi.mangled(a)), off), "get")) for a in sides]
    judge_passthrough(ctx, f, "ClassManager.get_raw_string", vals, allowed, {"AG:IS: invalid string"},
                      "StringDataItem.get() of the item at string_ids[idx].string_data_off")
    ctx.count("passthrough")
    # get_type: the string of the descriptor index
    f, params, vals = cm_returns(md, cm_cls, "get_type")
    idx = Sym("param", params[0])
    judge_passthrough(ctx, f, "ClassManager.get_type", vals, [Sym("cm.get_string", Sym("cm.get_type_ref", idx))], {"AG:ITI: invalid type"},
                      "get_string(<descriptor string index of type idx>)")
    ctx.count("passthrough")
    # every valid descriptor index resolves, in particular string index 0; only the container's not-found answer is invalid
    for k in (0, 1):
        f3 = cm_cls.lookup("get_type")
        p2 = f3.params()[1:]

        def run_k(asg, k=k):
            it = _CMInterp(md.repo, md.folder, asg=dict(asg), inline_module=None, target="get_type", cm_cls=cm_cls, overrides={"get_type_ref": k})
            return it.call_function(f3, [Sym("param", p2[0])], recv=Obj(cm_cls, "self"))
        evaluated = [r for a, r in explore(run_k) if not isinstance(r, Raised)]
        good = bool(evaluated) and all(v == Sym("cm.get_string", k) for v in evaluated)
        bad = next((v for v in evaluated if v != Sym("cm.get_string", k)), None)
        if not good and bad is not None and not (isinstance(bad, str) or contains(bad, Sym("cm.get_string", k))):
            raise AnalysisError("ClassManager.get_type with descriptor index %d returns %s (shape outside the fragment)" % (k, show(bad)[:80]))
        ctx.check("passthrough", "ClassManager.get_type resolves descriptor index %d" % k, good, f3,
                  "get_type: descriptor string index %d" % k,
                  "a type whose descriptor is string #%d must resolve to get_string(%d); ClassManager.get_type returns %s "
                  "(the not-found test also swallows a valid index)" % (k, k, show(bad)[:60] if bad is not None else "nothing"),
                  detail="descriptor index %d -> get_string(%d)" % (k, k))
    # StringDataItem.get hands out the decoded data of the item (decoder itself: third-party mutf8, C06 n/a)
    # get_kind(cm, Kind.STRING / RAW_STRING, v)
    gk = md.m.functions.get("get_kind")
    ctx.require(gk is not None and gk.cls is None, "anchor vanished: get_kind")
    ctx.analysed(gk)
    kinds = md.folder.enum_members(ctx.mod(DEX_TYPES).cls("Kind"))
    for k in ("STRING", "RAW_STRING"):
        ctx.require(k in kinds, "anchor vanished: Kind.%s" % k)

        def run(asg, k=k):
            it = DexInterp(md.repo, md.folder, asg=dict(asg))
            return it.call_function(gk, [Sym("cm"), kinds[k], Sym("param", "value")])

        vals = [r for asg, r in explore(run) if not isinstance(r, Raised)]
        ctx.require(vals, "get_kind(Kind.%s) raises on every abstract path" % k)
        val = Sym("param", "value")
        judge_passthrough(ctx, gk, "get_kind(Kind.%s)" % k, vals, [Sym("cm.get_string", val), Sym("cm.get_raw_string", val)], set(),
                          "cm.get_string(value)")
        ctx.count("passthrough")


# ---------------------------------------------------------------------------
# thorough tier: in-memory mutation adequacy
def _swap_targets(fnode, pred):
    for n in ast.walk(fnode):
        if isinstance(n, ast.Assign) and len(n.targets) == 1 and isinstance(n.targets[0], ast.Tuple) and len(n.targets[0].elts) >= 2 and pred(n):
            t = n.targets[0]
            t.elts[0], t.elts[1] = t.elts[1], t.elts[0]

            def undo():
                t.elts[0], t.elts[1] = t.elts[1], t.elts[0]
            return undo
    return None


def _replace_const(fnode, old, new):
    for n in ast.walk(fnode):
        if isinstance(n, ast.Constant) and n.value == old:
            n.value = new

            def undo():
                n.value = old
            return undo
    return None


def _swap_stmts(fnode, i, j):
    b = fnode.body
    b[i], b[j] = b[j], b[i]

    def undo():
        b[i], b[j] = b[j], b[i]
    return undo


def _rename_attr(cls_node, old, new):
    hit = [n for n in ast.walk(cls_node) if isinstance(n, ast.Attribute) and n.attr == old]
    if not hit:
        return None
    for n in hit:
        n.attr = new

    def undo():
        for n in hit:
            n.attr = old
    return undo


def thorough(ctx):
    m = ctx.mod(DEX)
    breaking, benign = [], []

    def fn(q):
        return m.func(q).node

    breaking.append(("MethodIdItem: swap class/proto slots", lambda: _swap_targets(fn("MethodIdItem.__init__"), lambda n: True)))
    breaking.append(("FieldIdItem: format 2HI -> 2Hi", lambda: _replace_const(fn("FieldIdItem.__init__"), "2HI", "2Hi")))
    breaking.append(("ClassDefItem: swap class_idx/access_flags", lambda: _swap_targets(fn("ClassDefItem.__init__"), lambda n: True)))
    breaking.append(("DalvikCode: swap registers/ins", lambda: _swap_targets(fn("DalvikCode.__init__"), lambda n: True)))
    breaking.append(("TryItem: format I2H -> 2HI", lambda: _replace_const(fn("TryItem.__init__"), "I2H", "2HI")))
    breaking.append(("EncodedMethod: access_flags before idx_diff", lambda: _swap_stmts(fn("EncodedMethod.__init__"), _first_leb(fn("EncodedMethod.__init__")), _first_leb(fn("EncodedMethod.__init__")) + 1)))
    breaking.append(("ClassManager.get_field_ref reads METHOD_ID_ITEM", lambda: _rename_attr(fn("ClassManager.get_field_ref"), "FIELD_ID_ITEM", "METHOD_ID_ITEM")))
    breaking.append(("ClassDataItem: prev never updated", lambda: _drop_prev_update(fn("ClassDataItem._load_elements")) if "ClassDataItem._load_elements" in m.functions else None))
    breaking.append(("ClassDataItem: direct/virtual swapped", lambda: _swap_list_args(fn("ClassDataItem.__init__"))))
    breaking.append(("EncodedField.reload: name <- type slot", lambda: _swap_index_consts(fn("EncodedField.reload"))))
    breaking.append(("DEX.get_class: == replaced by `in`", lambda: _eq_to_in(fn("DEX.get_class"))))
    breaking.append(("DEX.get_encoded_field_descriptor: producer key order", lambda: _swap_binop_operands(fn("DEX.get_encoded_field_descriptor"))))
    breaking.append(("ClassManager.get_string: raw string post-processed", lambda: _wrap_last_return(fn("ClassManager.get_string"))))
    benign.append(("rename private attribute MethodIdItem.name_idx_value", lambda: _rename_attr(m.cls("MethodIdItem").node, "name_idx_value", "_nm_cache")))
    benign.append(("rename private attribute ClassDefItem.sname", lambda: _rename_attr(m.cls("ClassDefItem").node, "sname", "_super_name")))
    benign.append(("reorder independent statements in FieldIdItem.reload", lambda: _swap_stmts(fn("FieldIdItem.reload"), 0, 2)))
    # findings of the unchanged tree (known findings) are the baseline: a mutant is killed by a *new* finding
    base = Sink(ctx.repo)
    core(base)
    base_keys = {(r, q, str(c)) for r, q, c, msg in base.findings}

    def new_findings(s):
        return [x for x in s.findings if (x[0], x[1], str(x[2])) not in base_keys]

    killed = total = 0
    survivors = []
    for name, mk in breaking:
        undo = mk()
        if undo is None:
            continue
        total += 1
        try:
            s = Sink(ctx.repo)
            try:
                core(s)
                fired = bool(new_findings(s))
            except AnalysisError:
                fired = False
        finally:
            undo()
        if fired:
            killed += 1
        else:
            survivors.append(name)
    silent = btotal = 0
    noisy = []
    for name, mk in benign:
        undo = mk()
        if undo is None:
            continue
        btotal += 1
        try:
            s = Sink(ctx.repo)
            try:
                core(s)
                quiet = not new_findings(s)
            except AnalysisError:
                quiet = True  # exit 2 is permitted for a refactor, a violation is not
        finally:
            undo()
        if quiet:
            silent += 1
        else:
            noisy.append((name, new_findings(s)[:2]))
    ctx.extra.update(mutants_killed=killed, mutants_total=total, benign_silent=silent, benign_total=btotal)
    ctx.ob("mutation-adequacy", "breaking mutants", killed == total, "%d/%d killed" % (killed, total))
    ctx.ob("mutation-adequacy", "benign mutants", silent == btotal, "%d/%d silent" % (silent, btotal))
    if survivors:
        raise AnalysisError("rule lost its teeth: surviving mutants %s" % survivors)
    if noisy:
        raise AnalysisError("rule fires on behaviour-preserving edits: %s" % noisy)
    ctx.require(total >= 8 and btotal >= 3, "mutation anchors vanished (%d breaking, %d benign applicable)" % (total, btotal))


def _wrap_last_return(fnode):
    rets = [n for n in ast.walk(fnode) if isinstance(n, ast.Return) and n.value is not None]
    if not rets:
        return None
    r = max(rets, key=lambda n: n.lineno)
    old = r.value
    new = ast.Call(func=ast.Attribute(value=old, attr="strip", ctx=ast.Load()), args=[], keywords=[])
    ast.copy_location(new, old)
    ast.fix_missing_locations(new)
    new._parent = r
    new.func._parent = new
    r.value = new

    def undo():
        r.value = old
        old._parent = r
    return undo


def _eq_to_in(fnode):
    for n in ast.walk(fnode):
        if isinstance(n, ast.Compare) and len(n.ops) == 1 and isinstance(n.ops[0], ast.Eq):
            old = n.ops[0]
            n.ops[0] = ast.In()

            def undo():
                n.ops[0] = old
            return undo
    return None


def _swap_binop_operands(fnode):
    """swap the operands of the innermost `+` of the key the cache is filled with"""
    for n in ast.walk(fnode):
        if isinstance(n, ast.Assign) and isinstance(n.targets[0], ast.Subscript):
            for b in ast.walk(n.targets[0].slice):
                if isinstance(b, ast.BinOp) and isinstance(b.op, ast.Add) and not isinstance(b.left, ast.BinOp):
                    b.left, b.right = b.right, b.left

                    def undo():
                        b.left, b.right = b.right, b.left
                    return undo
    return None


def _first_leb(fnode):
    for i, s in enumerate(fnode.body):
        if isinstance(s, ast.Assign) and isinstance(s.value, ast.Call) and isinstance(s.value.func, ast.Name) and s.value.func.id == "readuleb128":
            return i
    raise AnalysisError("mutation anchor: no readuleb128 assignment")


def _drop_prev_update(fnode):
    for n in ast.walk(fnode):
        if isinstance(n, ast.For):
            for i, s in enumerate(n.body):
                if isinstance(s, ast.If):
                    old = n.body[i]
                    n.body[i] = ast.copy_location(ast.Pass(), old)

                    def undo():
                        n.body[i] = old
                    return undo
    return None


def _swap_list_args(fnode):
    calls = [n for n in ast.walk(fnode) if isinstance(n, ast.Call) and isinstance(n.func, ast.Attribute) and len(n.args) >= 3]
    calls.sort(key=lambda n: n.lineno)
    if len(calls) < 4:
        return None
    a, b = calls[2], calls[3]
    a.args[1], b.args[1] = b.args[1], a.args[1]

    def undo():
        a.args[1], b.args[1] = b.args[1], a.args[1]
    return undo


def _swap_index_consts(fnode):
    subs = [n for n in ast.walk(fnode) if isinstance(n, ast.Subscript) and isinstance(n.slice, ast.Constant) and n.slice.value in (1, 2)]
    if len(subs) < 2:
        return None
    olds = [s.slice.value for s in subs]
    for s in subs:
        s.slice.value = 3 - s.slice.value

    def undo():
        for s, o in zip(subs, olds):
            s.slice.value = o
    return undo
