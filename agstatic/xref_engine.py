"""Shared engine of C13 / C14 / C15 / C16 / C40.

A *symbolic path executor* over the handful of functions the cross-reference
properties are about (`Analysis._create_xref`, the recorder methods it calls,
`Analysis.add`, `_resolve_method`, `get_call_graph`, `DEXBasicBlock.push`,
`dex.determineNext`, the offset accumulators).  Nothing of the repository is
executed: every value is a *term* (a nested tuple describing where the value
comes from), every `if` whose test is not decided by the opcode under
consideration forks the path, loops are executed for one generic iteration,
and calls to repository methods whose receiver type is known are inlined
(bounded depth) so that the *primitive effects* -- `set.add((..))`, keyed
stores -- become visible with the provenance of every component.

On top of the executor:
  * opcode partition: the opcode domain (0..255 and the three payload idents)
    is split at every integer constant occurring in the analysed code; every
    predicate built from comparisons of the opcode with constants is constant
    on each part, so one run per part decides the predicate for all opcodes
    (interval analysis by region partition; falls back to one run per opcode
    if the opcode is ever used arithmetically);
  * origin typing (`Roles`): terms are classified CUR (derived from the class
    being scanned), TARGET (decoded from the instruction's reference index
    through `get_cm_*`), OFF (first loop variable of `get_instructions_idx`);
  * linear forms over opaque atoms for offset / unit arithmetic (C40).
"""
from __future__ import annotations

import ast
import copy

from .consts import Folder, Unknown, EnumVal, Ref, is_unknown
from .model import ANALYSIS, DEX, AnalysisError, Cls, Func, Module, norm, walk_no_nested
from .spec import dalvik

MAX_PATHS = 6000
MAX_DEPTH = 5

OP = ("op",)
ROOT_SELF = ("self0",)

MUTATORS = {"add", "append", "extend", "insert", "update", "pop", "remove", "setdefault", "discard", "clear", "popitem"}


# ---------------------------------------------------------------------------
# terms
# ---------------------------------------------------------------------------
def const(v):
    return ("const", v)


def is_const(t):
    return isinstance(t, tuple) and t and t[0] == "const"


def mk_attr(b, n):
    return ("attr", b, n)


def mk_call(f, args=(), kw=()):
    return ("call", f, tuple(args), tuple(kw))


def mk_mcall(recv, name, args=(), kw=()):
    return ("call", ("attr", recv, name), tuple(args), tuple(kw))


def is_mcall(t, name=None):
    """method-call term?  -> (recv, name, args) or None"""
    if isinstance(t, tuple) and len(t) == 4 and t[0] == "call" and isinstance(t[1], tuple) and t[1][0] == "attr":
        if name is None or t[1][2] == name:
            return t[1][1], t[1][2], t[2]
    return None


def subterms(t):
    yield t
    if isinstance(t, tuple):
        for x in t[1:] if t and isinstance(t[0], str) else t:
            if isinstance(x, tuple):
                yield from subterms(x)


def mentions(t, what):
    return any(s == what for s in subterms(t))


def show(t, depth=0):
    """human readable rendering of a term"""
    if not isinstance(t, tuple) or not t:
        return repr(t)
    k = t[0]
    if depth > 8:
        return "..."
    s = lambda x: show(x, depth + 1)
    if k == "const":
        v = t[1]
        return hex(v) if isinstance(v, int) and not isinstance(v, bool) and v > 9 else repr(v)
    if k == "self0":
        return "self"
    if k == "param":
        return t[2]
    if k == "attr":
        return "%s.%s" % (s(t[1]), t[2])
    if k == "call":
        return "%s(%s)" % (s(t[1]), ", ".join([s(a) for a in t[2]] + ["%s=%s" % (n, s(v)) for n, v in t[3]]))
    if k == "sub":
        return "%s[%s]" % (s(t[1]), s(t[2]))
    if k == "elem":
        return "<element of %s>" % s(t[1])
    if k == "enumidx":
        return "<index in %s>" % s(t[1])
    if k == "item":
        return "%s[%d]" % (s(t[1]), t[2])
    if k in ("tuple", "list"):
        return "(" + ", ".join(s(x) for x in t[1:]) + ")"
    if k == "new":
        return "%s(%s)" % (t[1], ", ".join(s(a) for a in t[2]))
    if k == "op":
        return "<opcode>"
    if k == "lin":
        parts = []
        for a, c in t[1]:
            parts.append(s(a) if c == 1 else "%d*%s" % (c, s(a)))
        if t[2] or not parts:
            parts.append(str(t[2]))
        return " + ".join(parts)
    if k == "cmp":
        return "%s %s %s" % (s(t[2]), t[1], s(t[3]))
    if k == "not":
        return "not (%s)" % s(t[1])
    if k in ("and", "or"):
        return "(" + (" %s " % k).join(s(x) for x in t[1:]) + ")"
    if k == "class":
        return t[1]
    if k == "func":
        return t[2]
    if k == "builtin":
        return t[1]
    if k == "enumconv":
        return "%s(%s)" % (t[1], s(t[2]))
    if k == "ifexp":
        return "(%s if %s else %s)" % (s(t[2]), s(t[1]), s(t[3]))
    if k == "binop":
        return "(%s %s %s)" % (s(t[2]), t[1], s(t[3]))
    if k == "unk":
        return "<unknown: %s>" % " ".join(str(x) for x in t[1:])
    if k == "isinstance":
        return "isinstance(%s, %s)" % (s(t[1]), s(t[2]))
    return "%s(%s)" % (k, ", ".join(s(x) if isinstance(x, tuple) else repr(x) for x in t[1:]))


# ---- linear forms ----------------------------------------------------------
def lin_of(t):
    """term -> (dict atom->coef, const) for integer-valued terms, else None"""
    if not isinstance(t, tuple):
        return None
    if t[0] == "const":
        if isinstance(t[1], int) and not isinstance(t[1], bool):
            return {}, t[1]
        return None
    if t[0] == "lin":
        return dict(t[1]), t[2]
    return {t: 1}, 0


def mk_lin(terms, c):
    terms = {a: k for a, k in terms.items() if k}
    if not terms:
        return const(c)
    if len(terms) == 1 and c == 0:
        (a, k), = terms.items()
        if k == 1:
            return a
    return ("lin", tuple(sorted(terms.items(), key=lambda x: repr(x[0]))), c)


def lin_add(a, b, sign=1):
    la, lb = lin_of(a), lin_of(b)
    if la is None or lb is None:
        return None
    t = dict(la[0])
    for k, v in lb[0].items():
        t[k] = t.get(k, 0) + sign * v
    return mk_lin(t, la[1] + sign * lb[1])


def lin_mul(a, b):
    la, lb = lin_of(a), lin_of(b)
    if la is None or lb is None:
        return None
    if not la[0]:
        la, lb = lb, la
    if lb[0]:
        return None  # non-linear
    k = lb[1]
    return mk_lin({x: v * k for x, v in la[0].items()}, la[1] * k)


# ---------------------------------------------------------------------------
# constant values / three-valued truth
# ---------------------------------------------------------------------------
class _NoVal(Exception):
    pass


def pyval(t, op=None):
    """python value of a fully constant term (opcode substituted), else _NoVal"""
    if not isinstance(t, tuple):
        raise _NoVal
    k = t[0]
    if k == "const":
        return t[1]
    if k == "op":
        if op is None:
            raise _NoVal
        return op
    if k in ("tuple", "list"):
        return tuple(pyval(x, op) for x in t[1:])
    if k == "set":
        return frozenset(pyval(x, op) for x in t[1:])
    if k == "lin":
        s = t[2]
        for a, c in t[1]:
            v = pyval(a, op)
            if not isinstance(v, int):
                raise _NoVal
            s += c * v
        return s
    raise _NoVal


_CMP = {
    "==": lambda a, b: a == b, "!=": lambda a, b: a != b, "<": lambda a, b: a < b, "<=": lambda a, b: a <= b,
    ">": lambda a, b: a > b, ">=": lambda a, b: a >= b, "in": lambda a, b: a in b, "not in": lambda a, b: a not in b,
    "is": lambda a, b: a is b, "is not": lambda a, b: a is not b,
}


def truth(t, op=None):
    """Kleene truth value of a condition term: True / False / None"""
    if not isinstance(t, tuple):
        return None
    k = t[0]
    if k == "not":
        r = truth(t[1], op)
        return None if r is None else (not r)
    if k == "and":
        rs = [truth(x, op) for x in t[1:]]
        if any(r is False for r in rs):
            return False
        return True if all(r is True for r in rs) else None
    if k == "or":
        rs = [truth(x, op) for x in t[1:]]
        if any(r is True for r in rs):
            return True
        return False if all(r is False for r in rs) else None
    if k == "cmp":
        try:
            a, b = pyval(t[2], op), pyval(t[3], op)
            return bool(_CMP[t[1]](a, b))
        except (_NoVal, TypeError):
            if t[1] in ("==", "is") and t[2] == t[3]:
                return True
            if t[1] in ("!=", "is not") and t[2] == t[3]:
                return False
            return None
    if k == "new":
        return True
    try:
        return bool(pyval(t, op))
    except _NoVal:
        return None


def residual(t, op=None):
    """drop the decided operands of and/or so that the recorded condition is the opaque rest"""
    if not isinstance(t, tuple):
        return t
    if t[0] in ("and", "or"):
        keep = []
        for x in t[1:]:
            r = truth(x, op)
            if r is None:
                keep.append(residual(x, op))
        if len(keep) == 1:
            return keep[0]
        return (t[0],) + tuple(keep)
    if t[0] == "not":
        return ("not", residual(t[1], op))
    return t


def atoms_of_cond(t, out=None):
    out = [] if out is None else out
    if isinstance(t, tuple) and t and t[0] in ("and", "or", "not"):
        for x in t[1:]:
            atoms_of_cond(x, out)
    else:
        if t not in out:
            out.append(t)
    return out


def eval_cond(t, asg):
    k = t[0] if isinstance(t, tuple) and t else None
    if k == "not":
        return not eval_cond(t[1], asg)
    if k == "and":
        return all(eval_cond(x, asg) for x in t[1:])
    if k == "or":
        return any(eval_cond(x, asg) for x in t[1:])
    return asg[t]


def entails(conds, goal_atoms_pred):
    """conds: list of (term, outcome).  True iff every truth assignment of the
    opaque atoms satisfying all conds makes at least one atom accepted by
    `goal_atoms_pred` true (boolean-atom enumeration, <= 10 atoms)."""
    atoms = []
    for t, _ in conds:
        atoms_of_cond(t, atoms)
    if len(atoms) > 10:
        raise AnalysisError("condition with more than 10 opaque atoms")
    goals = [a for a in atoms if goal_atoms_pred(a)]
    if not goals:
        return False
    import itertools
    for vals in itertools.product((False, True), repeat=len(atoms)):
        asg = dict(zip(atoms, vals))
        if all(eval_cond(t, asg) == o for t, o in conds):
            if not any(asg[g] for g in goals):
                return False
    return True


# ---------------------------------------------------------------------------
# events / state
# ---------------------------------------------------------------------------
class Ev:
    __slots__ = ("kind", "node", "recv", "name", "args", "kw", "base", "key", "value", "conds", "stack", "func")

    def __init__(self, kind, node, func, stack, conds, **kw):
        self.kind = kind
        self.node = node
        self.func = func
        self.stack = stack
        self.conds = conds
        self.recv = self.name = self.base = self.key = self.value = None
        self.args = ()
        self.kw = ()
        for k, v in kw.items():
            setattr(self, k, v)

    def root_node(self):
        """the construct in the root function this event stems from"""
        return self.stack[0][1] if self.stack else self.node

    def chain(self):
        return [q for q, _ in self.stack] + [self.func.qualname]

    def __repr__(self):
        if self.kind == "call":
            return "call %s.%s(%s)" % (show(self.recv), self.name, ", ".join(show(a) for a in self.args))
        if self.kind == "store_sub":
            return "store %s[%s] = %s" % (show(self.base), show(self.key), show(self.value))
        if self.kind == "store_attr":
            return "store %s.%s = %s" % (show(self.base), self.name, show(self.value))
        return "%s %s" % (self.kind, show(self.value))


class St:
    __slots__ = ("env", "heap", "dirty", "events", "conds", "exit_guard", "retval", "raised")

    def __init__(self):
        self.env = {}
        self.heap = {}
        self.dirty = set()
        self.events = []
        self.conds = ()
        self.exit_guard = None
        self.retval = None
        self.raised = False

    def copy(self):
        s = St()
        s.env = dict(self.env)
        s.heap = dict(self.heap)
        s.dirty = set(self.dirty)
        s.events = list(self.events)
        s.conds = self.conds
        s.exit_guard = self.exit_guard
        s.retval = self.retval
        s.raised = self.raised
        return s


class Frame:
    __slots__ = ("func", "stack", "depth", "self_term")

    def __init__(self, func, stack, depth, self_term):
        self.func = func
        self.stack = stack
        self.depth = depth
        self.self_term = self_term


def _assigned_names(stmts):
    names, attrs = set(), set()
    for s in stmts:
        for n in ast.walk(s):
            if isinstance(n, ast.Name) and isinstance(n.ctx, ast.Store):
                names.add(n.id)
            elif isinstance(n, ast.Attribute) and isinstance(n.ctx, ast.Store):
                attrs.add(n.attr)
    return names, attrs


# ---------------------------------------------------------------------------
# the engine: source access (with in-memory overrides for mutation adequacy),
# type inference, executor
# ---------------------------------------------------------------------------
class Engine:
    def __init__(self, repo, overrides=None):
        self.repo = repo
        self.folder = Folder(repo)
        self.overrides = overrides or {}  # (relpath, qualname) -> ast.FunctionDef
        self._valtype = {}
        self._summary = {}

    # ---- source ----------------------------------------------------------
    def mod(self, rel) -> Module:
        return self.repo.mod(rel)

    def func(self, rel, qualname) -> Func:
        m = self.mod(rel)
        f = m.func(qualname)
        return self._ov(f)

    def _ov(self, f: Func) -> Func:
        n = self.overrides.get((f.module.relpath, f.qualname))
        if n is not None:
            return Func(f.module, f.qualname, n, f.cls)
        return f

    def lookup(self, cls: Cls, name):
        f = cls.lookup(name)
        return self._ov(f) if f is not None else None

    def cls_methods(self, cls: Cls):
        return [self._ov(f) for f in cls.methods.values()]

    # ---- globals -----------------------------------------------------------
    def global_term(self, module: Module, name):
        r = module.resolve_name(name)
        if r is None:
            import builtins
            if hasattr(builtins, name):
                return ("builtin", name)
            return ("global", name)
        if r[0] == "class":
            return ("class", r[1].name, r[1].module.relpath)
        if r[0] == "func":
            return ("func", r[1].module.relpath, r[1].qualname)
        if r[0] == "module":
            return ("module", r[1].relpath)
        v = self.folder.fold(r[2], r[1])
        t = self.lift(v)
        return t if t is not None else ("global", name)

    def lift(self, v):
        """python constant (folded) -> term"""
        if isinstance(v, Unknown) or is_unknown(v):
            return None
        if isinstance(v, (bool, int, str, bytes, float)) or v is None:
            return const(int(v) if isinstance(v, EnumVal) else v)
        if isinstance(v, (list, tuple)):
            xs = [self.lift(x) for x in v]
            return None if any(x is None for x in xs) else ("tuple",) + tuple(xs)
        if isinstance(v, (set, frozenset)):
            xs = [self.lift(x) for x in sorted(v, key=repr)]
            return None if any(x is None for x in xs) else ("set",) + tuple(xs)
        if isinstance(v, Ref):
            if v.kind == "class":
                return ("class", v.obj.name, v.obj.module.relpath)
            return ("func", v.obj.module.relpath, v.obj.qualname)
        return None

    def cls_of_term(self, t):
        if isinstance(t, tuple) and t and t[0] == "class":
            return self.repo.modules[t[2]].classes.get(t[1])
        return None

    # ---- annotations / types ----------------------------------------------
    def ann_class(self, ann, module: Module, want_elem=False):
        """class named by an annotation; Union[X, None]/Optional[X] -> X;
        with want_elem: list[X]/Iterator[X] -> X"""
        if ann is None:
            return None
        if isinstance(ann, ast.Constant) and isinstance(ann.value, str):
            try:
                ann = ast.parse(ann.value, mode="eval").body
            except SyntaxError:
                return None
        if isinstance(ann, ast.Subscript):
            head = ast.unparse(ann.value).split(".")[-1]
            sl = ann.slice
            elts = list(sl.elts) if isinstance(sl, ast.Tuple) else [sl]
            if head in ("Union", "Optional"):
                if want_elem:
                    return None
                cands = [self.ann_class(e, module) for e in elts if not (isinstance(e, ast.Constant) and e.value is None)]
                cands = [c for c in cands if c is not None]
                return cands[0] if len(cands) == 1 else None
            if head in ("list", "List", "Iterator", "Iterable", "set", "Set", "Generator") and want_elem:
                return self.ann_class(elts[0], module)
            return None
        if want_elem:
            return None
        if isinstance(ann, ast.Name):
            return module.resolve_class(ann.id)
        if isinstance(ann, ast.Attribute) and isinstance(ann.value, ast.Name):
            r = module.resolve_name(ann.value.id)
            if r and r[0] == "module" and r[1] is not None:
                return r[1].resolve_class(ann.attr)
        return None

    def valtype(self, cls: Cls, attr):
        """class of the values stored in the dict attribute `self.<attr>` of cls"""
        key = (cls.module.relpath, cls.name, attr)
        if key in self._valtype:
            return self._valtype[key]
        self._valtype[key] = None
        found = {}
        for f in self.cls_methods(cls):
            params = {a.arg: a.annotation for a in f.node.args.args}
            local = {}
            for n in ast.walk(f.node):
                if isinstance(n, ast.Assign) and len(n.targets) == 1 and isinstance(n.targets[0], ast.Name):
                    local[n.targets[0].id] = n.value
            for n in ast.walk(f.node):
                if isinstance(n, ast.Assign):
                    for t in n.targets:
                        if (isinstance(t, ast.Subscript) and isinstance(t.value, ast.Attribute) and t.value.attr == attr
                                and isinstance(t.value.value, ast.Name) and t.value.value.id == "self"):
                            c = self._expr_class(n.value, cls, params, local, 0)
                            found[id(c)] = c
        found.pop(id(None), None)
        r = list(found.values())[0] if len(found) == 1 else None
        self._valtype[key] = r
        return r

    def _expr_class(self, e, cls, params, local, depth):
        if depth > 4:
            return None
        m = cls.module
        if isinstance(e, ast.Call) and isinstance(e.func, ast.Name):
            return m.resolve_class(e.func.id)
        if isinstance(e, ast.Name):
            if e.id in params:
                return self.ann_class(params[e.id], m)
            if e.id in local:
                return self._expr_class(local[e.id], cls, params, local, depth + 1)
        if (isinstance(e, ast.Subscript) and isinstance(e.value, ast.Attribute) and isinstance(e.value.value, ast.Name)
                and e.value.value.id == "self"):
            return self.valtype(cls, e.value.attr)
        return None

    def attr_class(self, cls: Cls, attr):
        """class of the plain attribute self.<attr> from __init__ (param annotation or constructor)"""
        init = self.lookup(cls, "__init__")
        if init is None:
            return None
        params = {a.arg: a.annotation for a in init.node.args.args}
        for n in ast.walk(init.node):
            if isinstance(n, ast.Assign):
                for t in n.targets:
                    if isinstance(t, ast.Attribute) and t.attr == attr and isinstance(t.value, ast.Name) and t.value.id == "self":
                        return self._expr_class(n.value, cls, params, {}, 0)
        return None

    def type_of(self, t, root_cls=None, hints=None):
        """Cls of the object a term denotes, or None"""
        if not isinstance(t, tuple) or not t:
            return None
        hints = hints or {}
        if t in hints:
            return hints[t]
        k = t[0]
        if k == "self0":
            return root_cls
        if k == "new":
            return self.repo.modules[t[3]].classes.get(t[1]) if len(t) > 3 and t[3] else None
        if k == "param":
            return hints.get(t)
        if k == "sub" or (is_mcall(t, "get") and len(t[2]) >= 1):
            base = t[1] if k == "sub" else t[1][1]
            if isinstance(base, tuple) and base[0] == "attr":
                c = self.type_of(base[1], root_cls, hints)
                if c is not None:
                    return self.valtype(c, base[2])
            return None
        if k == "call":
            mc = is_mcall(t)
            if mc:
                c = self.type_of(mc[0], root_cls, hints)
                if c is not None:
                    f = self.lookup(c, mc[1])
                    if f is not None:
                        return self.ann_class(f.node.returns, f.module)
            return None
        if k == "attr":
            c = self.type_of(t[1], root_cls, hints)
            if c is not None:
                return self.attr_class(c, t[2])
            return None
        if k == "elem":
            it = t[1]
            mc = is_mcall(it)
            if mc:
                c = self.type_of(mc[0], root_cls, hints)
                if c is not None:
                    f = self.lookup(c, mc[1])
                    if f is not None:
                        return self.ann_class(f.node.returns, f.module, want_elem=True)
            return None
        return None

    # ---- opcode partition -------------------------------------------------
    def int_constants(self, funcs):
        """every integer constant occurring in (or folded from names used in) the given functions"""
        out = set()

        def add(v):
            if isinstance(v, bool):
                return
            if isinstance(v, int):
                out.add(int(v))
            elif isinstance(v, (list, tuple, set, frozenset)):
                for x in v:
                    add(x)
            elif isinstance(v, dict):
                for x in v:
                    add(x)

        for f in funcs:
            for n in ast.walk(f.node):
                if isinstance(n, ast.Constant):
                    add(n.value)
                elif isinstance(n, ast.Name) and isinstance(n.ctx, ast.Load):
                    r = f.module.resolve_name(n.id)
                    if r and r[0] == "const":
                        add(self.folder.fold(r[2], r[1]))
                    elif r and r[0] == "class" and self.folder.is_enum(r[1]):
                        for v in self.folder.enum_members(r[1]).values():
                            add(v)
        return out

    def op_partition(self, funcs, domain):
        """split the opcode domain at every constant -> list of (representative, members)"""
        cs = sorted(c for c in self.int_constants(funcs))
        dom = sorted(domain)
        parts = {}
        import bisect
        cset = set(cs)
        for d in dom:
            if d in cset:
                key = ("c", d)
            else:
                key = ("g", bisect.bisect_left(cs, d))
            parts.setdefault(key, []).append(d)
        return [(v[0], v) for v in parts.values()]


OP_DOMAIN = sorted(set(range(256)) | set(dalvik.PAYLOADS))


def op_name(k):
    if k in dalvik.OPCODES:
        return "0x%02x %s" % (k, dalvik.OPCODES[k][0])
    if k in dalvik.PAYLOADS:
        return "0x%04x %s" % (k, dalvik.PAYLOADS[k])
    return "0x%02x (unused)" % k


def op_set_str(s):
    s = sorted(s)
    if len(s) > 8:
        return ", ".join(op_name(k) for k in s[:8]) + ", ... (%d opcodes)" % len(s)
    return ", ".join(op_name(k) for k in s)


class Exec:
    """symbolic path executor (see module docstring)"""

    def __init__(self, eng: Engine, op=None, no_inline=(), root_cls=None, hints=None, inline_expr=True):
        self.eng = eng
        self.op = op
        self.no_inline = set(no_inline)
        self.root_cls = root_cls
        self.hints = hints or {}
        self.npaths = 0
        self.op_arith = False  # the opcode was used arithmetically (partition not exact)

    # ---- entry --------------------------------------------------------------
    def run(self, func: Func, args=None, self_term=None):
        """-> list of final St (one per path)"""
        st = St()
        fr = Frame(func, (), 0, self_term)
        self._bind_params(func, args, self_term, st, root=True)
        out = []
        for s, sig in self._block(func.node.body, st, fr):
            out.append(s)
        return out

    def _bind_params(self, func, args, self_term, st, root=False, kw=()):
        a = func.node.args
        names = [x.arg for x in a.posonlyargs + a.args]
        defaults = list(a.defaults)
        dmap = {}
        for n, d in zip(names[len(names) - len(defaults):], defaults):
            dmap[n] = d
        i = 0
        if func.cls is not None and names and names[0] in ("self", "cls") and not _is_static(func.node):
            st.env[names[0]] = self_term if self_term is not None else ROOT_SELF
            names = names[1:]
        args = list(args) if args is not None else None
        kwd = dict(kw)
        for j, n in enumerate(names):
            if args is not None and j < len(args):
                st.env[n] = args[j]
            elif n in kwd:
                st.env[n] = kwd[n]
            elif root or n not in dmap:
                st.env[n] = ("param", func.qualname, n)
            else:
                st.env[n] = self._fold_default(dmap[n], func)
        for x in a.kwonlyargs:
            st.env[x.arg] = kwd.get(x.arg, ("param", func.qualname, x.arg))

    def _fold_default(self, d, func):
        v = self.eng.folder.fold(d, func.module)
        t = self.eng.lift(v)
        return t if t is not None else ("unk", "default")

    # ---- statements ------------------------------------------------------------
    def _tick(self):
        self.npaths += 1
        if self.npaths > MAX_PATHS:
            raise AnalysisError("path budget exceeded (%d paths): the analysed function left the supported fragment" % MAX_PATHS)

    def _block(self, stmts, st, fr):
        if not stmts:
            yield st, None
            return
        head, rest = stmts[0], stmts[1:]
        for s, sig in self._stmt(head, st, fr):
            if sig is not None:
                yield s, sig
            else:
                yield from self._block(rest, s, fr)

    def _emit(self, st, fr, kind, node, **kw):
        ev = Ev(kind, node, fr.func, fr.stack, st.conds, **kw)
        st.events.append(ev)
        return ev

    def _stmt(self, s, st, fr):
        if isinstance(s, ast.Expr):
            v = s.value
            if isinstance(v, ast.Constant):
                yield st, None
            elif isinstance(v, ast.Call):
                for st2, _ in self._call_stmt(v, st, fr):
                    yield st2, None
            elif isinstance(v, (ast.Yield, ast.YieldFrom)):
                val = self.ev(v.value, st, fr) if v.value is not None else const(None)
                self._emit(st, fr, "yield", s, value=val)
                yield st, None
            else:
                self.ev(v, st, fr)
                yield st, None
        elif isinstance(s, ast.Assign):
            if isinstance(s.value, ast.Call):
                for st2, val in self._call_stmt(s.value, st, fr):
                    for t in s.targets:
                        self._assign(t, val, st2, fr, s)
                    yield st2, None
            else:
                val = self.ev(s.value, st, fr)
                for t in s.targets:
                    self._assign(t, val, st, fr, s)
                yield st, None
        elif isinstance(s, ast.AnnAssign):
            if s.value is not None:
                self._assign(s.target, self.ev(s.value, st, fr), st, fr, s)
            yield st, None
        elif isinstance(s, ast.AugAssign):
            cur = self.ev(_as_load(s.target), st, fr)
            val = self._binop(s.op, cur, self.ev(s.value, st, fr))
            self._assign(s.target, val, st, fr, s)
            yield st, None
        elif isinstance(s, ast.If):
            yield from self._if(s, st, fr)
        elif isinstance(s, (ast.For, ast.AsyncFor)):
            yield from self._for(s, st, fr)
        elif isinstance(s, ast.While):
            raise AnalysisError("%s: while loop at line %d is outside the analysed fragment" % (fr.func.qualname, s.lineno))
        elif isinstance(s, ast.Return):
            if s.value is not None and isinstance(s.value, ast.Call):
                for st2, val in self._call_stmt(s.value, st, fr):
                    st2.retval = val
                    self._emit(st2, fr, "return", s, value=val)
                    yield st2, "return"
            else:
                st.retval = self.ev(s.value, st, fr) if s.value is not None else const(None)
                self._emit(st, fr, "return", s, value=st.retval)
                yield st, "return"
        elif isinstance(s, ast.Continue):
            yield st, "continue"
        elif isinstance(s, ast.Break):
            yield st, "break"
        elif isinstance(s, ast.Raise):
            st.raised = True
            yield st, "raise"
        elif isinstance(s, (ast.Pass, ast.Import, ast.ImportFrom, ast.Global, ast.Nonlocal, ast.Assert, ast.Delete)):
            yield st, None
        elif isinstance(s, (ast.FunctionDef, ast.AsyncFunctionDef)):
            st.env[s.name] = ("localfunc", s.name)
            yield st, None
        elif isinstance(s, (ast.With, ast.AsyncWith)):
            for it in s.items:
                v = self.ev(it.context_expr, st, fr)
                if it.optional_vars is not None:
                    self._assign(it.optional_vars, v, st, fr, s)
            yield from self._block(s.body, st, fr)
        elif isinstance(s, ast.Try):
            # normal flow only; handlers are examined by the rules that care
            for st2, sig in self._block(s.body, st, fr):
                if sig is not None:
                    yield st2, sig
                    continue
                for st3, sig3 in self._block(s.orelse, st2, fr):
                    if sig3 is not None:
                        yield st3, sig3
                    else:
                        yield from self._block(s.finalbody, st3, fr)
            # an exception path into each handler (state of the try entry; effects of the body unknown)
            for h in s.handlers:
                sth = st.copy()
                sth.conds = sth.conds + ((("exc", ast.unparse(h.type) if h.type is not None else "BaseException", id(s)), True, h),)
                if h.name:
                    sth.env[h.name] = ("unk", "exception")
                self._tick()
                for st3, sig3 in self._block(h.body, sth, fr):
                    if sig3 is not None:
                        yield st3, sig3
                    else:
                        yield from self._block(s.finalbody, st3, fr)
        elif isinstance(s, ast.ClassDef):
            yield st, None
        else:
            raise AnalysisError("%s: statement %s outside the analysed fragment" % (fr.func.qualname, type(s).__name__))

    def _if(self, s, st, fr):
        t = self.ev(s.test, st, fr)
        r = truth(t, self.op)
        if r is True:
            yield from self._branch(s, True, s.body, st, fr, None)
        elif r is False:
            yield from self._branch(s, False, s.orelse, st, fr, None)
        else:
            rt = residual(t, self.op)
            self._tick()
            st_f = st.copy()
            yield from self._branch(s, True, s.body, st, fr, rt)
            yield from self._branch(s, False, s.orelse, st_f, fr, rt)

    def _branch(self, s, outcome, body, st, fr, cond_term):
        if cond_term is not None:
            st.conds = st.conds + ((cond_term, outcome, s),)
        for st2, sig in self._block(body, st, fr):
            if sig in ("continue", "break", "return", "raise") and cond_term is not None and st2.exit_guard is None:
                # remember the innermost opaque guard whose branch left the loop body / function
                st2.exit_guard = (cond_term, outcome, s)
            yield st2, sig

    def _for(self, s, st, fr):
        it = self.ev(s.iter, st, fr)
        names, attrs = _assigned_names(s.body)
        for n in names:
            st.env[n] = ("unk", "loop-carried", n)
        for k in list(st.heap):
            if k[1] in attrs:
                st.heap[k] = ("unk", "loop-carried attribute", k[1])
        st.dirty |= attrs
        mc = it if isinstance(it, tuple) else None
        if mc and mc[0] == "call" and mc[1] == ("builtin", "enumerate") and mc[2]:
            x = mc[2][0]
            val = ("tuple", ("enumidx", x), ("elem", x))
        else:
            val = ("elem", it)
        self._assign(s.target, val, st, fr, s)
        any_path = False
        for st2, sig in self._block(s.body, st, fr):
            any_path = True
            if sig in ("return", "raise"):
                yield st2, sig
                continue
            self._emit(st2, fr, "iter_end", s, value=st2.exit_guard, name=sig or "end")
            st2.exit_guard = None
            for n in names:
                st2.env[n] = ("unk", "after-loop", n)
            if sig == "break":
                yield st2, None
            else:
                yield from self._block(s.orelse, st2, fr)
        if not any_path:
            yield st, None

    # ---- assignment ---------------------------------------------------------
    def _assign(self, target, val, st, fr, node):
        if isinstance(target, ast.Name):
            st.env[target.id] = val
        elif isinstance(target, (ast.Tuple, ast.List)):
            if isinstance(val, tuple) and val and val[0] in ("tuple", "list") and len(val) - 1 == len(target.elts):
                for t, v in zip(target.elts, val[1:]):
                    self._assign(t, v, st, fr, node)
            else:
                for i, t in enumerate(target.elts):
                    self._assign(t, ("item", val, i), st, fr, node)
        elif isinstance(target, ast.Attribute):
            base = self.ev(target.value, st, fr)
            st.heap[(base, target.attr)] = val
            self._emit(st, fr, "store_attr", node, base=base, name=target.attr, value=val)
        elif isinstance(target, ast.Subscript):
            base = self.ev(target.value, st, fr)
            key = self.ev(target.slice, st, fr)
            self._emit(st, fr, "store_sub", node, base=base, key=key, value=val)
        elif isinstance(target, ast.Starred):
            self._assign(target.value, ("unk", "starred"), st, fr, node)
        else:
            raise AnalysisError("unsupported assignment target %s" % type(target).__name__)

    # ---- calls ----------------------------------------------------------------
    def _resolve_callee(self, call, st, fr):
        """-> (callee Func | None, recv_term | None, fterm, args, kw)"""
        args = []
        for a in call.args:
            if isinstance(a, ast.Starred):
                args.append(("unk", "star-arg"))
            else:
                args.append(self.ev(a, st, fr))
        kw = tuple((k.arg, self.ev(k.value, st, fr)) for k in call.keywords if k.arg is not None)
        f = call.func
        callee = None
        recv = None
        if isinstance(f, ast.Attribute):
            recv = self.ev(f.value, st, fr)
            fterm = ("attr", recv, f.attr)
            if isinstance(recv, tuple) and recv[0] == "module":
                m = self.eng.repo.modules.get(recv[1])
                if m is not None:
                    g = self.eng.global_term(m, f.attr)
                    fterm = g
                    recv = None
                    if g[0] == "func":
                        callee = self.eng.func(g[1], g[2])
            else:
                c = self.eng.type_of(recv, self.root_cls, self.hints)
                if c is None and fr.self_term is not None and recv == fr.self_term and fr.func.cls is not None:
                    c = fr.func.cls
                if c is not None:
                    callee = self.eng.lookup(c, f.attr)
                    if callee is not None and isinstance(callee.cls.lookup_attr(f.attr), ast.expr):
                        pass
                    if callee is None:
                        # alias at class level:  get_method_analysis = get_method
                        a = c.lookup_attr(f.attr)
                        if isinstance(a, ast.Name):
                            callee = self.eng.lookup(c, a.id)
        else:
            fterm = self.ev(f, st, fr)
            if isinstance(fterm, tuple) and fterm[0] == "func":
                callee = self.eng.func(fterm[1], fterm[2])
        return callee, recv, fterm, args, kw

    def _inlinable(self, callee, fr):
        if callee is None:
            return False
        if callee.name in self.no_inline or callee.qualname in self.no_inline:
            return False
        if fr.depth >= MAX_DEPTH:
            return False
        if any(q == callee.qualname for q, _ in fr.stack) or callee.qualname == fr.func.qualname:
            return False
        if _is_generator(callee.node) or _is_property(callee.node):
            return False
        return True

    def _special_call(self, call, fterm, recv, args, kw, st, fr):
        """calls with a built-in meaning -> term or None"""
        if isinstance(fterm, tuple) and fterm[0] == "class":
            c = self.eng.cls_of_term(fterm)
            if c is not None and self.eng.folder.is_enum(c) and len(args) == 1:
                return ("enumconv", c.name, args[0])
            return ("new", fterm[1], tuple(args), fterm[2])
        if fterm == ("builtin", "isinstance") and len(args) == 2:
            return ("isinstance", args[0], args[1])
        if fterm == ("builtin", "len") and len(args) == 1:
            try:
                return const(len(pyval(args[0], None)))
            except (_NoVal, TypeError):
                return None
        if fterm in (("builtin", "int"),) and len(args) == 1 and lin_of(args[0]) is not None and not is_const(args[0]):
            return None
        if isinstance(fterm, tuple) and fterm[0] == "attr" and fterm[2] == "get_op_value" and not args and self.op is not None:
            return OP
        return None

    def _call_value(self, call, st, fr):
        """a call in expression context: no forking.  pure repository callees are
        replaced by their unique return value; everything else is an opaque term
        (and an event)."""
        callee, recv, fterm, args, kw = self._resolve_callee(call, st, fr)
        sp = self._special_call(call, fterm, recv, args, kw, st, fr)
        if sp is not None:
            return sp
        t = mk_call(fterm, args, kw)
        if self._inlinable(callee, fr):
            r = self._pure_summary(callee, args, kw, recv, fr)
            if r is not None:
                return r
        name = fterm[2] if isinstance(fterm, tuple) and fterm[0] == "attr" else (fterm[2] if fterm[0] == "func" else str(fterm[-1]))
        self._emit(st, fr, "call", call, recv=recv, name=name, args=tuple(args), kw=kw, value=t)
        return t

    def _pure_summary(self, callee, args, kw, recv, fr):
        key = (callee.module.relpath, callee.qualname, tuple(args), kw, recv, self.op)
        if key in self.eng._summary:
            return self.eng._summary[key]
        self.eng._summary[key] = None
        sub = Exec(self.eng, self.op, self.no_inline, self.root_cls, self.hints)
        sub.npaths = 0
        st = St()
        sub._bind_params(callee, args, recv, st, kw=kw)
        fr2 = Frame(callee, fr.stack + ((fr.func.qualname, None),), fr.depth + 1, recv)
        rets = set()
        pure = True
        try:
            for s, sig in sub._block(callee.node.body, st, fr2):
                if s.raised:
                    continue
                for e in s.events:
                    if e.kind in ("store_sub", "store_attr") or (e.kind == "call" and e.name in MUTATORS):
                        pure = False
                rets.add(s.retval if sig == "return" else const(None))
        except AnalysisError:
            pure = False
        r = None
        if pure:
            nn = {x for x in rets if x != const(None)}
            if len(nn) == 1:
                r = nn.pop()
        self.eng._summary[key] = r
        return r

    def _call_stmt(self, call, st, fr):
        """a call that is a whole statement / the whole right-hand side: repository
        callees are inlined with forking.  yields (state, value)"""
        callee, recv, fterm, args, kw = self._resolve_callee(call, st, fr)
        sp = self._special_call(call, fterm, recv, args, kw, st, fr)
        if sp is not None:
            yield st, sp
            return
        if self._inlinable(callee, fr):
            r = self._pure_summary(callee, args, kw, recv, fr)
            if r is not None:
                yield st, r
                return
            fr2 = Frame(callee, fr.stack + ((fr.func.qualname, call),), fr.depth + 1, recv)
            saved_env = st.env
            st.env = {}
            self._bind_params(callee, args, recv, st, kw=kw)
            n = 0
            for s2, sig in self._block(callee.node.body, st, fr2):
                n += 1
                val = s2.retval if sig == "return" else const(None)
                s2.retval = None
                s2.env = dict(saved_env)
                s2.exit_guard = None
                if sig == "raise":
                    continue  # the path ends inside the callee
                yield s2, val
            return
        t = mk_call(fterm, args, kw)
        name = fterm[2] if isinstance(fterm, tuple) and fterm[0] in ("attr", "func") else str(fterm[-1])
        self._emit(st, fr, "call", call, recv=recv, name=name, args=tuple(args), kw=kw, value=t)
        yield st, t

    # ---- expressions -------------------------------------------------------------
    def ev(self, e, st, fr):
        if e is None:
            return const(None)
        if isinstance(e, ast.Constant):
            return const(e.value)
        if isinstance(e, ast.Name):
            if e.id in st.env:
                return st.env[e.id]
            if e.id in ("True", "False", "None"):
                return const({"True": True, "False": False, "None": None}[e.id])
            return self.eng.global_term(fr.func.module, e.id)
        if isinstance(e, ast.Attribute):
            base = self.ev(e.value, st, fr)
            if isinstance(base, tuple) and base[0] == "module":
                m = self.eng.repo.modules.get(base[1])
                if m is not None:
                    return self.eng.global_term(m, e.attr)
            if isinstance(base, tuple) and base[0] == "class":
                c = self.eng.cls_of_term(base)
                if c is not None and self.eng.folder.is_enum(c):
                    mem = self.eng.folder.enum_members(c)
                    if e.attr in mem and isinstance(mem[e.attr], int):
                        return const(int(mem[e.attr]))
            attr = e.attr
            if (base, attr) in st.heap:
                return st.heap[(base, attr)]
            if attr in st.dirty:
                return ("unk", "attribute written in a loop", attr)
            # property getters of known classes are summarised
            c = self.eng.type_of(base, self.root_cls, self.hints)
            if c is not None:
                f = self.eng.lookup(c, attr)
                if f is not None and _is_property(f.node) and fr.depth < MAX_DEPTH:
                    r = self._pure_summary(f, [], (), base, fr)
                    if r is not None:
                        return r
            return ("attr", base, attr)
        if isinstance(e, ast.Subscript):
            base = self.ev(e.value, st, fr)
            if isinstance(e.slice, ast.Slice):
                return ("slice", base, self.ev(e.slice.lower, st, fr), self.ev(e.slice.upper, st, fr))
            key = self.ev(e.slice, st, fr)
            if isinstance(base, tuple) and base[0] in ("tuple", "list") and is_const(key) and isinstance(key[1], int):
                if -len(base) + 1 <= key[1] < len(base) - 1:
                    return base[1:][key[1]]
            return ("sub", base, key)
        if isinstance(e, ast.Call):
            return self._call_value(e, st, fr)
        if isinstance(e, ast.BinOp):
            return self._binop(e.op, self.ev(e.left, st, fr), self.ev(e.right, st, fr))
        if isinstance(e, ast.UnaryOp):
            v = self.ev(e.operand, st, fr)
            if isinstance(e.op, ast.Not):
                return ("not", v)
            if isinstance(e.op, ast.USub):
                r = lin_mul(v, const(-1))
                if r is not None:
                    return r
            return ("unop", type(e.op).__name__, v)
        if isinstance(e, ast.BoolOp):
            vals = [self.ev(v, st, fr) for v in e.values]
            return ("and" if isinstance(e.op, ast.And) else "or",) + tuple(vals)
        if isinstance(e, ast.Compare):
            left = self.ev(e.left, st, fr)
            parts = []
            for op, c in zip(e.ops, e.comparators):
                right = self.ev(c, st, fr)
                parts.append(("cmp", _CMPNAME[type(op)], left, right))
                left = right
            return parts[0] if len(parts) == 1 else ("and",) + tuple(parts)
        if isinstance(e, ast.IfExp):
            t = self.ev(e.test, st, fr)
            r = truth(t, self.op)
            if r is True:
                return self.ev(e.body, st, fr)
            if r is False:
                return self.ev(e.orelse, st, fr)
            return ("ifexp", residual(t, self.op), self.ev(e.body, st, fr), self.ev(e.orelse, st, fr))
        if isinstance(e, (ast.Tuple, ast.List)):
            return ("tuple" if isinstance(e, ast.Tuple) else "list",) + tuple(self.ev(x, st, fr) for x in e.elts)
        if isinstance(e, ast.Set):
            return ("set",) + tuple(self.ev(x, st, fr) for x in e.elts)
        if isinstance(e, ast.Dict):
            return ("dict",) + tuple((self.ev(k, st, fr), self.ev(v, st, fr)) for k, v in zip(e.keys, e.values))
        if isinstance(e, (ast.ListComp, ast.SetComp, ast.GeneratorExp)) and len(e.generators) == 1:
            g = e.generators[0]
            it = self.ev(g.iter, st, fr)
            saved = dict(st.env)
            self._assign(g.target, ("elem", it), st, fr, e)
            elt = self.ev(e.elt, st, fr)
            conds = tuple(self.ev(c, st, fr) for c in g.ifs)
            st.env = saved
            return ("comp", elt, it, conds)
        if isinstance(e, ast.JoinedStr):
            return ("fstring",) + tuple(self.ev(v.value, st, fr) for v in e.values if isinstance(v, ast.FormattedValue))
        if isinstance(e, ast.Lambda):
            return ("lambda", id(e))
        if isinstance(e, ast.Starred):
            return ("starred", self.ev(e.value, st, fr))
        if isinstance(e, ast.NamedExpr):
            v = self.ev(e.value, st, fr)
            st.env[e.target.id] = v
            return v
        return ("expr", type(e).__name__, norm(e))

    def _binop(self, op, a, b):
        if mentions(a, OP) or mentions(b, OP):
            self.op_arith = True
        if isinstance(op, ast.Add):
            r = lin_add(a, b, 1)
            if r is not None and (_inty(a) and _inty(b)):
                return r
            if a[0] in ("tuple", "list") and b[0] in ("tuple", "list") and a[0] == b[0]:
                return a + b[1:]
        elif isinstance(op, ast.Sub):
            r = lin_add(a, b, -1)
            if r is not None and (_inty(a) and _inty(b)):
                return r
        elif isinstance(op, ast.Mult):
            r = lin_mul(a, b)
            if r is not None and (_inty(a) and _inty(b)):
                return r
        try:
            va, vb = pyval(a, None), pyval(b, None)
            import operator
            f = {ast.Add: operator.add, ast.Sub: operator.sub, ast.Mult: operator.mul, ast.Mod: operator.mod,
                 ast.FloorDiv: operator.floordiv, ast.BitAnd: operator.and_, ast.BitOr: operator.or_,
                 ast.LShift: operator.lshift, ast.RShift: operator.rshift, ast.BitXor: operator.xor}.get(type(op))
            if f is not None:
                r = f(va, vb)
                if isinstance(r, (int, str, bytes)):
                    return const(r)
        except (_NoVal, TypeError, ValueError, ZeroDivisionError):
            pass
        if isinstance(op, ast.LShift) and is_const(b) and isinstance(b[1], int) and 0 <= b[1] < 64:
            r = lin_mul(a, const(1 << b[1]))
            if r is not None:
                return r
        return ("binop", _BINNAME.get(type(op), type(op).__name__), a, b)


def _inty(t):
    """may the term be an integer (not a known str/tuple)?"""
    if is_const(t):
        return isinstance(t[1], int) and not isinstance(t[1], bool)
    return t[0] not in ("tuple", "list", "set", "dict", "fstring", "new")


_CMPNAME = {ast.Eq: "==", ast.NotEq: "!=", ast.Lt: "<", ast.LtE: "<=", ast.Gt: ">", ast.GtE: ">=",
            ast.In: "in", ast.NotIn: "not in", ast.Is: "is", ast.IsNot: "is not"}
_BINNAME = {ast.Add: "+", ast.Sub: "-", ast.Mult: "*", ast.Mod: "%", ast.FloorDiv: "//", ast.Div: "/",
            ast.BitAnd: "&", ast.BitOr: "|", ast.BitXor: "^", ast.LShift: "<<", ast.RShift: ">>", ast.Pow: "**"}


def _as_load(t):
    t2 = copy.copy(t)
    t2.ctx = ast.Load()
    return t2


def _leaves_directly(body):
    return bool(body) and isinstance(body[-1], (ast.Continue, ast.Break, ast.Return, ast.Raise))


def _is_generator(fn):
    return any(isinstance(n, (ast.Yield, ast.YieldFrom)) for n in walk_no_nested(fn))


def _is_property(fn):
    return any((isinstance(d, ast.Name) and d.id == "property") or (isinstance(d, ast.Attribute) and d.attr in ("getter",))
               for d in fn.decorator_list)


def _is_static(fn):
    return any(isinstance(d, ast.Name) and d.id == "staticmethod" for d in fn.decorator_list)


# ===========================================================================
# sinks
# ===========================================================================
class Collector:
    """ctx-like sink used for in-memory mutation adequacy: records findings instead of reporting them"""

    def __init__(self, tier="quick"):
        self.findings = []
        self.counts = {}
        self.tier = tier
        self.obligations = 0

    def check(self, rule, instance, ok, func, construct, message, node=None, witness=None, detail=""):
        self.obligations += 1
        if not ok:
            self.finding(rule, func, construct, message, node=node)
        return ok

    def ob(self, rule, instance, ok, detail=""):
        self.obligations += 1
        return ok

    def finding(self, rule, func, construct, message, node=None, file=None, witness=None):
        qn = func.qualname if hasattr(func, "qualname") else func
        self.findings.append((rule, qn, norm(construct) if construct is not None else "", message))

    def count(self, name, n=1):
        self.counts[name] = self.counts.get(name, 0) + n

    def floor(self, name, minimum, actual=None):
        actual = self.counts.get(name, 0) if actual is None else actual
        if actual < minimum:
            raise AnalysisError("instance floor not met for %s: %d < %d" % (name, actual, minimum))

    def require(self, cond, what):
        if not cond:
            raise AnalysisError(what)

    def note(self, s):
        pass

    def assume(self, s):
        pass

    def analysed(self, f):
        pass

    def keys(self):
        return {(r, q, c) for r, q, c, m in self.findings}


# ===========================================================================
# origin typing
# ===========================================================================
XREF_CLASSES = ("ClassAnalysis", "MethodAnalysis", "StringAnalysis", "FieldAnalysis")
DECODERS = {"get_cm_type": "type", "get_cm_method": "method", "get_cm_string": "string", "get_cm_field": "field"}
ID_ITEM = {"method": "MethodIdItem", "field": "FieldIdItem"}


def _is_definition_lookup(name):
    return (name.startswith(("get_encoded_field", "get_encoded_method", "get_class", "get_method", "get_field", "get_all_fields"))
            or name in ("get_classes", "get_methods", "get_fields", "get_classes_names", "get_methods_class", "get_fields_class"))


class Roles:
    """classifies terms of `Analysis._create_xref` by origin"""

    def __init__(self, eng: Engine, root: Func):
        self.eng = eng
        self.root = root
        ps = root.params()
        if len(ps) < 2:
            raise AnalysisError("%s: expected (self, current_class)" % root.qualname)
        self.cls_param = ("param", root.qualname, ps[1])
        self.components = {}
        dexm = eng.mod(DEX)
        for pool, cname in ID_ITEM.items():
            f = eng.lookup(dexm.cls(cname), "get_list")
            if f is None:
                raise AnalysisError("anchor vanished: %s.get_list" % cname)
            comps = None
            for n in ast.walk(f.node):
                if isinstance(n, ast.Return) and isinstance(n.value, (ast.List, ast.Tuple)):
                    comps = []
                    for e in n.value.elts:
                        if (isinstance(e, ast.Call) and isinstance(e.func, ast.Attribute) and isinstance(e.func.value, ast.Name)
                                and e.func.value.id == "self" and e.func.attr.startswith("get_")):
                            comps.append(e.func.attr[4:])
                        else:
                            raise AnalysisError("%s.get_list: component %s is not a self.get_*() call" % (cname, ast.unparse(e)))
            if not comps:
                raise AnalysisError("%s.get_list does not return a literal list" % cname)
            self.components[pool] = comps
        self._memo = {}

    def role(self, t):
        if t in self._memo:
            return self._memo[t]
        r = self._role(t)
        self._memo[t] = r
        return r

    def _role(self, t):
        if not isinstance(t, tuple) or not t:
            return None
        k = t[0]
        R = self.role
        if t == self.cls_param:
            return ("CUR", "classdef")
        if k == "const":
            return ("const", t[1])
        if t == OP:
            return ("OP",)
        if k == "self0":
            return ("ANALYSIS",)
        if k == "enumconv" and t[2] == OP:
            return ("REF", t[1])
        if k == "elem":
            mc = is_mcall(t[1])
            if mc and not mc[2]:
                rr = R(mc[0])
                if mc[1] == "get_methods" and rr == ("CUR", "classdef"):
                    return ("CUR", "encmeth")
                if mc[1] == "get_instructions_idx" and rr == ("CUR", "encmeth"):
                    return ("INSPAIR",)
            return None
        if k == "item":
            if R(t[1]) == ("INSPAIR",):
                return ("OFF",) if t[2] == 0 else (("INS",) if t[2] == 1 else None)
            return None
        if k == "attr":
            rb = R(t[1])
            if t[2] == "vm" and rb == ("CM",):
                return ("VM", "ins")
            if t[2] in ("cm", "CM") and rb == ("INS",):
                return ("CM",)
            if rb == ("ANALYSIS",):
                return ("TABLE", t[2])
            if t[2] == "vms" and rb == ("ANALYSIS",):
                return ("TABLE", "vms")
            if rb is not None and rb[0] == "METH" and t[2] == "method":
                return ("ENC",) + rb[1:]
            return None
        if k == "sub" or is_mcall(t, "get"):
            base, key = (t[1], t[2]) if k == "sub" else (t[1][1], t[2][0] if t[2] else None)
            rb = R(base)
            rk = R(key) if key is not None else None
            if rb == ("TABLE", "classes"):
                return ("CLS", rk) if rk is not None else None
            if rb == ("TABLE", "methods"):
                if rk == ("CUR", "encmeth"):
                    return ("METH", "CUR")
                return None
            if rb == ("TABLE", "strings"):
                return ("STR", rk) if rk is not None else None
            if rb == ("TABLE", "vms"):
                return ("VM", "positional")
            if rb is not None and rb[0] == "INFO" and rk is not None and rk[0] == "const" and isinstance(rk[1], int):
                comps = self.components[rb[1]]
                if 0 <= rk[1] < len(comps):
                    return ("T", rb[1], comps[rk[1]], "raw")
                return None
            if k == "sub" and isinstance(base, tuple) and base[0] == "attr" and base[2] == "_fields":
                rc = R(base[1])
                if rc is not None and rc[0] == "CLS" and rk is not None:
                    return ("FIELD", rc, rk)
            if k == "sub" and isinstance(base, tuple) and base[0] == "attr" and base[2] == "_methods":
                # ClassAnalysis._methods[M.method] is M (invariant of add_method, checked separately)
                if rk is not None and rk[0] == "ENC":
                    return ("METH",) + rk[1:]
            return None
        if k == "call":
            mc = is_mcall(t)
            if not mc:
                return None
            recv, name, args = mc
            rr = R(recv)
            if name == "get_name" and not args and rr == ("CUR", "classdef"):
                return ("CUR", "clsname")
            if name == "get_op_value" and rr == ("INS",):
                return ("OP",)
            if name == "get_ref_kind" and not args and rr == ("INS",):
                return ("REFIDX",)
            if name in ("get_vm",) and rr in (("CM",), ("METH", "CUR")):
                return ("VM", "ins")
            if name in DECODERS and rr is not None and rr[0] == "VM" and len(args) == 1:
                if R(args[0]) != ("REFIDX",):
                    return None
                pool = DECODERS[name]
                if rr[1] != "ins":
                    return ("WRONGVM", pool, rr)
                if pool in ID_ITEM:
                    return ("INFO", pool)
                return ("T", pool, None, "raw")
            if name == "lstrip" and rr is not None and rr[0] == "T" and len(args) == 1 and args[0] == const("["):
                return rr[:3] + ("stripped",)
            if name == "get_encoded_field_descriptor" and rr is not None and rr[0] == "VM":
                return ("FIELDITEM", rr, tuple(R(a) for a in args))
            if name == "get_class_name" and not args and rr is not None and rr[0] == "FIELDITEM":
                return ("FIELDITEM.class_name",) + rr[1:]
            if name == "_resolve_method" and rr == ("ANALYSIS",) and len(args) == 3:
                ra = tuple(R(a) for a in args)
                return ("METH", "T") + ra
            if name == "get_method" and not args and rr is not None and rr[0] == "METH":
                return ("ENC",) + rr[1:]
            return None
        if k == "lin":
            return None
        return None

    # ---- rendering (canonical, independent of local variable names) -------------
    def render(self, t, depth=0):
        r = self.role(t)
        if r is not None:
            s = self.rname(r)
            if s is not None:
                return s
        if not isinstance(t, tuple) or not t or depth > 10:
            return show(t)
        k = t[0]
        rd = lambda x: self.render(x, depth + 1)
        if k == "attr":
            return "%s.%s" % (rd(t[1]), t[2])
        if k == "sub":
            return "%s[%s]" % (rd(t[1]), rd(t[2]))
        if k == "call":
            return "%s(%s)" % (rd(t[1]), ", ".join(rd(a) for a in t[2]))
        if k == "cmp":
            return "%s %s %s" % (rd(t[2]), t[1], rd(t[3]))
        if k == "not":
            return "not %s" % rd(t[1])
        if k in ("and", "or"):
            return "(" + (" %s " % k).join(rd(x) for x in t[1:]) + ")"
        if k in ("tuple", "list"):
            return "(" + ", ".join(rd(x) for x in t[1:]) + ")"
        if k == "new":
            return "%s(%s)" % (t[1], ", ".join(rd(a) for a in t[2]))
        if k == "item":
            return "%s[%d]" % (rd(t[1]), t[2])
        if k == "lin":
            parts = [rd(a) if c == 1 else "%d*%s" % (c, rd(a)) for a, c in t[1]]
            if t[2]:
                parts.append(str(t[2]))
            return " + ".join(parts)
        if k == "isinstance":
            return "isinstance(%s, %s)" % (rd(t[1]), rd(t[2]))
        if k == "elem":
            return "<element of %s>" % rd(t[1])
        return show(t)

    def rname(self, r):
        k = r[0]
        if r == ("CUR", "classdef"):
            return "current_class"
        if r == ("CUR", "clsname"):
            return "cur_class_name"
        if r == ("CUR", "encmeth"):
            return "current_method"
        if r == ("METH", "CUR"):
            return "cur_method_analysis"
        if k == "METH" and r[1] == "T":
            return "_resolve_method(%s)" % ", ".join(self.rname(x) if x else "?" for x in r[2:])
        if k == "ENC":
            return "%s.method" % self.rname(("METH",) + r[1:])
        if k == "CLS":
            return "classes[%s]" % (self.rname(r[1]) if r[1] else "?")
        if k == "STR":
            return "strings[%s]" % (self.rname(r[1]) if r[1] else "?")
        if k == "FIELD":
            return "%s._fields[%s]" % (self.rname(r[1]), self.rname(r[2]))
        if k == "OFF":
            return "off"
        if k == "INS":
            return "instruction"
        if k == "OP":
            return "op_value"
        if k == "REFIDX":
            return "ref_idx"
        if k == "CM":
            return "instruction.cm"
        if k == "VM":
            return {"ins": "instruction.cm.vm", "positional": "self.vms[..]"}.get(r[1], "vm")
        if k == "INFO":
            return "%sref" % r[1]
        if k == "T":
            base = "%sref" % r[1] + (".%s" % r[2] if r[2] else "")
            return base + (".lstrip('[')" if r[3] == "stripped" else "")
        if k == "FIELDITEM":
            return "%s.get_encoded_field_descriptor(%s)" % (self.rname(r[1]), ", ".join(self.rname(x) if x else "?" for x in r[2]))
        if k == "FIELDITEM.class_name":
            return self.rname(("FIELDITEM",) + r[1:]) + ".get_class_name()"
        if k == "REF":
            return "%s(op_value)" % r[1]
        if k == "TABLE":
            return "self.%s" % r[1]
        if k == "ANALYSIS":
            return "self"
        if k == "const":
            return repr(r[1])
        if k == "WRONGVM":
            return "%s.get_cm_%s(ref_idx)" % (self.rname(r[2]), r[1])
        return None


# ===========================================================================
# facts of _create_xref
# ===========================================================================
class Fact:
    """one primitive xref record:  <owner>.<set>[key].add(tuple)"""
    __slots__ = ("ev", "owner_cls", "attr", "getter", "owner", "key", "tup", "r_owner", "r_key", "r_tup", "pool")

    def site(self):
        return (id(self.ev.root_node()), self.owner_cls, self.getter)


class PathRec:
    __slots__ = ("ops", "state", "facts", "conds", "guard", "end", "reached")


def xref_getters(eng: Engine):
    """(class name, set attribute) -> getter name, from the get_xref_* methods"""
    m = eng.mod(ANALYSIS)
    out = {}
    for cn in XREF_CLASSES:
        c = m.cls(cn)
        for f in eng.cls_methods(c):
            if not f.name.startswith("get_xref_"):
                continue
            for n in ast.walk(f.node):
                if isinstance(n, ast.Return) and n.value is not None:
                    for a in ast.walk(n.value):
                        if isinstance(a, ast.Attribute) and isinstance(a.value, ast.Name) and a.value.id == "self":
                            prev = out.get((cn, a.attr))
                            if prev is not None and prev != f.name:
                                raise AnalysisError("%s.%s is returned by two getters (%s, %s)" % (cn, a.attr, prev, f.name))
                            out[(cn, a.attr)] = f.name
    return out


class XrefModel:
    """all paths of Analysis._create_xref for every opcode, reduced to facts"""

    NO_INLINE = ("_resolve_method", "Analysis._resolve_method")

    def __init__(self, eng: Engine):
        self.eng = eng
        self.m = eng.mod(ANALYSIS)
        self.root = eng.func(ANALYSIS, "Analysis._create_xref")
        self.root_cls = self.m.cls("Analysis")
        self.roles = Roles(eng, self.root)
        self.getters = xref_getters(eng)
        self.paths = []
        self.origin = {}
        self._run()

    def _funcs_for_constants(self):
        fs = [self.root]
        for cn in XREF_CLASSES:
            for f in self.eng.cls_methods(self.m.cls(cn)):
                if f.name.startswith("add_"):
                    fs.append(f)
        # helpers of Analysis called from the root (extract-method refactors)
        names = {n.func.attr for n in ast.walk(self.root.node)
                 if isinstance(n, ast.Call) and isinstance(n.func, ast.Attribute) and isinstance(n.func.value, ast.Name) and n.func.value.id == "self"}
        for nm in names:
            f = self.eng.lookup(self.root_cls, nm)
            if f is not None:
                fs.append(f)
        return fs

    def _run(self):
        parts = self.eng.op_partition(self._funcs_for_constants(), OP_DOMAIN)
        self.nparts = len(parts)
        arith = False
        runs = []
        for rep, members in parts:
            ex = Exec(self.eng, op=rep, no_inline=self.NO_INLINE, root_cls=self.root_cls)
            sts = ex.run(self.root)
            arith = arith or ex.op_arith
            runs.append((members, sts))
        if arith:
            runs = []
            for k in OP_DOMAIN:
                ex = Exec(self.eng, op=k, no_inline=self.NO_INLINE, root_cls=self.root_cls)
                runs.append(([k], ex.run(self.root)))
            self.nparts = len(OP_DOMAIN)
        self.ins_loops = set()
        for members, sts in runs:
            for st in sts:
                self.paths.append(self._reduce(members, st))

    def _ins_loop_end(self, st):
        """the iter_end event of the instruction loop on this path"""
        for e in st.events:
            if e.kind == "iter_end" and isinstance(e.node, (ast.For,)) and e.func.qualname == self.root.qualname:
                if _is_call_to(e.node.iter, "get_instructions_idx"):
                    return e
        return None

    def _reduce(self, members, st):
        p = PathRec()
        p.ops = members
        p.state = st
        p.facts = []
        end = self._ins_loop_end(st)
        p.end = end
        p.reached = end is not None
        p.guard = end.value if end is not None else None
        p.conds = end.conds if end is not None else st.conds
        for e in st.events:
            if e.kind == "call" and e.name == "add" and len(e.args) == 1 and e.recv is not None:
                f = self._fact(e)
                if f is not None:
                    p.facts.append(f)
        return p

    def _fact(self, e):
        recv = e.recv
        key = None
        if recv[0] == "sub" and isinstance(recv[1], tuple) and recv[1][0] == "attr":
            key = recv[2]
            recv = recv[1]
        if recv[0] != "attr":
            return None
        owner, attr = recv[1], recv[2]
        oc = self.eng.type_of(owner, self.root_cls)
        r_owner = self.roles.role(owner)
        if oc is None and r_owner is not None:
            oc_name = {"CLS": "ClassAnalysis", "METH": "MethodAnalysis", "STR": "StringAnalysis", "FIELD": "FieldAnalysis"}.get(r_owner[0])
        else:
            oc_name = oc.name if oc is not None else None
        if oc_name is None or (oc_name, attr) not in self.getters:
            return None
        f = Fact()
        f.ev = e
        f.owner_cls = oc_name
        f.attr = attr
        f.getter = self.getters[(oc_name, attr)]
        f.owner = owner
        f.key = key
        a = e.args[0]
        f.tup = tuple(a[1:]) if a[0] == "tuple" else (a,)
        f.r_owner = r_owner
        f.r_key = self.roles.role(key) if key is not None else None
        f.r_tup = tuple(self.roles.role(x) for x in f.tup)
        f.pool = None
        return f


def _is_call_to(e, name):
    return isinstance(e, ast.Call) and isinstance(e.func, ast.Attribute) and e.func.attr == name


def _pool_of_role(r):
    """which reference pool a role was decoded from (method / type / string / field), or None"""
    if r is None:
        return None
    if r[0] == "T":
        return r[1]
    if r[0] == "INFO":
        return r[1]
    if r[0] in ("CLS", "STR"):
        return _pool_of_role(r[1])
    if r[0] == "METH" and r[1] == "T":
        for x in r[2:]:
            p = _pool_of_role(x)
            if p:
                return p
    if r[0] in ("FIELDITEM", "FIELDITEM.class_name"):
        for x in r[2]:
            p = _pool_of_role(x)
            if p:
                return p
    if r[0] == "FIELD":
        return _pool_of_role(r[2]) or _pool_of_role(r[1])
    if r[0] == "WRONGVM":
        return r[1]
    return None


def fact_pool(f: Fact):
    for r in (f.r_owner, f.r_key) + tuple(f.r_tup):
        p = _pool_of_role(r)
        if p:
            return p
    return None
