"""agstatic -- repository-specific static analysis for the androguard properties.

Nothing in this package imports or executes code from the analysed repository.
"""
import sys


class _Blocker:
    """Import hook: any attempt to import the analysed package aborts the run."""

    def find_spec(self, name, path=None, target=None):
        if name == "androguard" or name.startswith("androguard."):
            raise ImportError(
                "agstatic is a static analyser: importing %r is forbidden" % name
            )
        return None


if not any(isinstance(f, _Blocker) for f in sys.meta_path):
    sys.meta_path.insert(0, _Blocker())
