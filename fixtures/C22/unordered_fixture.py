"""Positive / negative examples for the C22 rule (never imported, only parsed).

Every function name says what the rule must conclude:
  sens_*   order-sensitive consumption of a set of identity-/str-hashed elements  -> finding
  ok_*     order-insensitive consumption                                          -> silent
  exempt_* order-sensitive consumption of a set of ints                           -> exempt
  addr_*   use of id()/hash()                                                      -> finding (address-dependent)
  hist_*   shared mutable state mutated across calls                               -> finding (process-history)
  clock_*  use of time / random                                                   -> finding (nondeterministic-source)
"""
import time
import random
from functools import lru_cache
from itertools import count

_MEMO = {}
_REGISTRY = []
FLAG_NAMES = {1: 'public', 2: 'private'}


class N:
    def __init__(self, num):
        self.num = num
        self.tag = None
        self.items = []

    def touch(self, v):
        self.tag = v


class Sink:
    def __init__(self):
        self.out = []
        self.last = None
        self.seen = set()

    def emit(self, x):
        self.out.append(x)

    def mark(self, x):
        self.seen.add(x)


def make():
    return {N(1), N(2), N(3)}


def sens_append(sink: Sink):
    s = make()
    for n in s:
        sink.emit(n)


def sens_list():
    s = make()
    return list(s)


def sens_last_writer(sink: Sink):
    s = make()
    for n in s:
        sink.last = n


def sens_pop():
    s = make()
    first = s.pop()
    return first


def sens_str_join():
    names = {"a", "b", "c"}
    return ", ".join(names)


def sens_comprehension():
    s = make()
    return [n.num for n in s]


def sens_early_exit():
    s = make()
    for n in s:
        if n.num > 1:
            return n
    return None


def ok_sorted(sink: Sink):
    s = make()
    for n in sorted(s, key=lambda x: x.num):
        sink.emit(n)


def ok_membership(x):
    s = make()
    return x in s and len(s) > 2


def ok_own_state():
    s = make()
    for n in s:
        n.touch(1)
        n.items.append(n.num)


def ok_keyed(sink: Sink):
    s = make()
    d = {}
    for n in s:
        d[n] = n.num
        sink.mark(n)
    return len(d)


def ok_min_fold():
    s = make()
    best = 99
    for n in s:
        best = min(best, n.num)
    return best


def ok_any():
    s = make()
    return any(n.num == 2 for n in s)


def exempt_int_list():
    regs = set()
    for i in range(4):
        regs.add(i * 2)
    return list(regs)


def addr_sort(nodes):
    return sorted(nodes, key=id)


def addr_hash(n):
    return hash(n) % 7


def clock_stamp():
    return "// decompiled at %d" % time.time()


def clock_shuffle(items):
    random.shuffle(items)
    return items


@lru_cache(maxsize=None)
def hist_cached_list(flags):
    return [FLAG_NAMES[f] for f in (1, 2) if f & flags]


def _uses_cached(flags):
    names = hist_cached_list(flags)
    names.remove('public')
    return names


def hist_dict_memo(flags):
    if flags not in _MEMO:
        _MEMO[flags] = [FLAG_NAMES[f] for f in (1, 2) if f & flags]
    return _MEMO[flags]


def _uses_memo(flags):
    hist_dict_memo(flags).append('synthetic')


def hist_registry(name):
    _REGISTRY.append(name)
    return len(_REGISTRY)


def hist_default(item, acc=[]):
    acc.append(item)
    return acc


@lru_cache(maxsize=None)
def ok_cached_tuple(flags):
    return tuple(FLAG_NAMES[f] for f in (1, 2) if f & flags)


@lru_cache(maxsize=None)
def _ok_cached(flags):
    return [FLAG_NAMES[f] for f in (1, 2) if f & flags]


def ok_cached_copy(flags):
    names = list(_ok_cached(flags))
    names.append('x')
    return names


def ok_constant_lookup(flag):
    return FLAG_NAMES.get(flag, 'unknown')


def hist_ext_payload(ins):
    values = ins.get_stored_values()
    del values[0]
    return values


def ok_ext_fresh(ins):
    values = ins.get_fresh_values()
    values.pop(0)
    return values


def ok_ext_copied(ins):
    values = list(ins.get_stored_values())
    values.reverse()
    return values + [ins.get_size()]


class NameGen:
    _seq = count(1)

    def __init__(self):
        self.own = count(1)
        self.n = 0

    def hist_class_counter(self):
        return 'tmp%d' % next(self._seq)

    def hist_class_store(self):
        type(self).total = self.n
        return self.n

    def ok_instance_counter(self):
        return 'tmp%d' % next(self.own)

    def ok_instance_number(self):
        self.n += 1
        return 'tmp%d' % self.n
