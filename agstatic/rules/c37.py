"""C37 -- decompile output stays inside the output directory.

Taint analysis of `export_apps_to_format` (androguard/cli/main.py) by symbolic
execution of its body (and, inlined, of every repository function it calls by
name: valid_class_name, create_directory, clean_file_name, method2format ...).
Every local is bound to a *term* that records how its value is built:

    <get_class_name>                      value read from the DEX (any method/attribute reached from the Session `s`)
    join(a, b) / a + b / format(..) / f(x)  path arithmetic and calls
    confined(x)                           x passed a containment check against a trusted root
    safe_rel(x)                           x was split into segments and '', '.', '..' were filtered out

Sinks: the path argument of os.makedirs/os.mkdir, open(.., 'w'/'a'/'x'/'+'),
shutil.move/copy*/os.rename/os.replace (destination) -- in the function itself
or inside an inlined callee (create_directory -> os.makedirs, method2format ->
open).  A sink is safe when no DEX-derived leaf of its path term is reachable
outside `confined(..)`, or outside a `safe_rel(..)` that is a non-first argument
of os.path.join.

Sanitizer recognisers (by meaning, not spelling):
 (a) containment: `if not N(cand).startswith(N(root) + os.sep): raise/continue/return`
     or `os.path.commonpath([N(root), N(cand)]) != N(root)`, N = realpath/abspath/normpath
     (the candidate must be normalised, the separator must be appended, the root must be
     DEX-independent); also `if <inside>: <body>` and a helper that returns its argument
     only after such a check (found by inlining).
 (b) segment filter: os.path.join(*[p for p in x.split('/') if <cond>]) where <cond> is
     evaluated to False for '', '.', '..'.
`clean_file_name` is inlined like any other function: it returns
os.path.join(<dir part of its argument>, <rewritten basename>), so DEX data in
the directory part stays unsanitised (derived from its body, not assumed).
"""
from __future__ import annotations

import ast

from ..model import AnalysisError, norm, dotted, walk_no_nested


def leaves_only(stmts):
    """a block that never falls through (same meaning as cfg.leaves_only; kept local to avoid importing networkx)"""
    if not stmts:
        return False
    last = stmts[-1]
    if isinstance(last, (ast.Raise, ast.Return, ast.Continue, ast.Break)):
        return True
    if isinstance(last, ast.If) and last.orelse:
        return leaves_only(last.body) and leaves_only(last.orelse)
    return False


MAIN = "androguard/cli/main.py"
ROOT_FN = "export_apps_to_format"
TAINT_ROOTS = {"s"}
NAMED_SOURCES = ("get_class_name", "get_name", "get_short_string", "get_descriptor")
NORMALISERS = ("os.path.realpath", "os.path.abspath", "os.path.normpath")
STRING_METHODS = {"split", "rsplit", "strip", "lstrip", "rstrip", "replace", "lower", "upper", "format", "join", "encode", "decode",
                  "partition", "rpartition", "removeprefix", "removesuffix", "startswith", "endswith", "title", "capitalize"}
SINKS = {  # dotted name -> (index of the path argument, label)
    "os.makedirs": (0, "os.makedirs"), "os.mkdir": (0, "os.mkdir"),
    "shutil.move": (1, "shutil.move"), "shutil.copy": (1, "shutil.copy"), "shutil.copy2": (1, "shutil.copy2"),
    "shutil.copyfile": (1, "shutil.copyfile"), "shutil.copytree": (1, "shutil.copytree"),
    "os.rename": (1, "os.rename"), "os.replace": (1, "os.replace"),
}
MAX_DEPTH = 5
OWN_MUTATION_ADEQUACY = True  # the thorough tier below runs its own in-memory mutants and repaired fixtures


def _err(msg):
    raise AnalysisError(msg)


# ---------------------------------------------------------------------------
# terms (plain tuples so that they hash and compare structurally)
# ---------------------------------------------------------------------------
def dex(label):
    return ("dex", label)


def const(v):
    return ("const", v)


def op(name, *args):
    return ("op", name, tuple(args))


def phi(*ts):
    flat = []
    for t in ts:
        if t[0] == "op" and t[1] == "phi":
            flat += list(t[2])
        else:
            flat.append(t)
    uniq = sorted(set(flat), key=render)
    return uniq[0] if len(uniq) == 1 else ("op", "phi", tuple(uniq))


def children(t):
    k = t[0]
    if k == "op":
        return t[2]
    if k == "call":
        return t[2] if t[3] is None else (t[3],)
    if k == "confined":
        return (t[2],)
    if k in ("saferel", "star"):
        return (t[1],)
    return ()


def is_tainted(t):
    if t[0] == "dex":
        return True
    if t[0] == "par" and t[1] in TAINT_ROOTS:
        return True
    if t[0] == "call" and t[3] is None:
        return any(is_tainted(c) for c in t[2])
    return any(is_tainted(c) for c in children(t))


def leaves(t, out=None):
    out = set() if out is None else out
    if t[0] == "dex":
        out.add(t[1])
    elif t[0] == "par" and t[1] in TAINT_ROOTS:
        out.add("session " + t[1])
    else:
        cs = t[2] if (t[0] == "call" and t[3] is None) else children(t)
        for c in cs:
            leaves(c, out)
    return out


def unwrap(t):
    """an inlined call stands for its result"""
    while t[0] == "call" and t[3] is not None:
        t = t[3]
    return t


def confined_parts(t):
    """confined sub-terms of a term (not looking inside them)"""
    t = unwrap(t)
    if t[0] == "confined":
        return [t]
    out = []
    cs = t[2] if (t[0] == "call" and t[3] is None) else children(t)
    for c in cs:
        out += confined_parts(c)
    return out


def unsafe(t):
    """DEX-derived leaves that reach the path without passing a recognised sanitizer.
    A containment check vouches for exactly the value that was checked: the checked value itself, os.path.join(checked, ...)
    and -- only if the check excludes the root itself -- checked + <DEX-independent suffix> stay inside; every other value
    derived from a checked one afterwards (slice, replace, format, suffix after a check that admits the root, ...) is unchecked."""
    t = unwrap(t)
    k = t[0]
    if k == "confined":
        return set()
    if k == "saferel":
        return leaves(t[1])  # only safe as a non-first argument of join (handled there)
    if k == "op" and t[1] == "phi":
        out = set()
        for x in t[2]:
            out |= unsafe(x)
        return out
    if k == "op" and t[1] == "join":
        out = set()
        for i, a in enumerate(t[2]):
            a = unwrap(a)
            alts = a[2] if (a[0] == "op" and a[1] == "phi") else (a,)
            for x in alts:
                x = unwrap(x)
                if i > 0 and x[0] == "saferel":
                    continue
                out |= unsafe(x)
        return out
    if k == "op" and (t[1] == "str" or t[1].startswith("norm:")) and len(t[2]) == 1:
        return unsafe(t[2][0])
    if k == "op" and t[1] == "concat" and t[2]:
        head = unwrap(t[2][0])
        heads = [unwrap(x) for x in head[2]] if (head[0] == "op" and head[1] == "phi") else [head]
        rest = t[2][1:]
        if all(h[0] == "confined" and h[3] for h in heads) and not any(is_tainted(x) for x in rest):
            return set()  # strictly inside the root + trusted suffix
        out = set()
        for x in t[2]:
            ux = unwrap(x)
            uxs = [unwrap(y) for y in ux[2]] if (ux[0] == "op" and ux[1] == "phi") else [ux]
            for y in uxs:
                out |= leaves(y[2]) if y[0] == "confined" else unsafe(y)
        return out
    if k == "dex":
        return {t[1]}
    if k == "par" and t[1] in TAINT_ROOTS:
        return {"session " + t[1]}
    # any other value computed from a checked one is not the checked value any more
    out = set()
    cs = t[2] if k == "call" else children(t)
    for c in cs:
        uc = unwrap(c)
        out |= leaves(uc[2]) if uc[0] == "confined" else unsafe(uc)
    return out


def derived_after_check(t):
    """does an unsafe path contain a checked part that was modified afterwards (for the message)"""
    t = unwrap(t)
    return t[0] != "confined" and bool(confined_parts(t))


def partial_sanitizers(t, out=None):
    """names of transformers the DEX data passed through (for the message/construct)"""
    out = [] if out is None else out
    if t[0] == "call":
        if any(is_tainted(a) for a in t[2]) and t[1] not in out:
            out.append(t[1])
        for a in t[2]:
            partial_sanitizers(a, out)
    else:
        for c in children(t):
            partial_sanitizers(c, out)
    return out


_RENDER = {}
_SIZE = {}
SMALL = 40


def size(t):
    got = _SIZE.get(t)
    if got is None:
        cs = t[2] if t[0] == "call" and t[3] is None else children(t)
        got = _SIZE[t] = 1 + sum(size(c) for c in cs)
    return got


def render(t):
    got = _RENDER.get(t)
    if got is None:
        got = _RENDER[t] = _render(t)
    return got


def _render(t):
    k = t[0]
    r = render
    if k == "dex":
        return "<%s>" % t[1]
    if k == "par":
        return t[1]
    if k == "const":
        return repr(t[1])
    if k == "unknown":
        return "?%s" % t[1]
    if k == "confined":
        # what was checked does not matter for the identity of a finding, only that (and how) it was checked
        return "%s(%s)" % ("checked" if t[3] else "checked_or_root", ", ".join("<%s>" % x for x in sorted(leaves(t[2]))))
    if k == "saferel":
        return "safe_rel(%s)" % r(t[1])
    if k == "star":
        return "*" + r(t[1])
    if k == "call":
        # a small inlined helper is shown by what it computes (so that extracting/inlining a helper keeps the text),
        # a large one (clean_file_name, method2format ...) by its name
        if t[3] is not None and (size(t[3]) <= SMALL or unwrap(t)[0] == "confined"):
            return r(t[3])
        return "%s(%s)" % (t[1], ", ".join(r(a) for a in t[2]))
    if k == "op":
        n, a = t[1], t[2]
        if n == "concat":
            return " + ".join(r(x) for x in a)
        if n == "phi":
            return "phi(%s)" % " | ".join(r(x) for x in a)
        if n == "slice":
            return "%s[..]" % r(a[0])
        if n.startswith("meth:"):
            return "%s.%s(%s)" % (r(a[0]), n[5:], ", ".join(r(x) for x in a[1:]))
        if n.startswith("attr:"):
            return "%s.%s" % (r(a[0]), n[5:])
        return "%s(%s)" % (n, ", ".join(r(x) for x in a))
    return str(t)


# ---------------------------------------------------------------------------
class World:
    """function resolution across the repository"""

    def __init__(self, repo, overrides=None):
        self.repo = repo
        self.overrides = overrides or {}  # (module relpath, name) -> replacement ast.FunctionDef (mutation runs)
        self.objects = {}                 # object id -> {attribute: term}   (instances of repository classes built during the run)
        self.obj_class = {}               # object id -> (module, ClassDef)

    def cls(self, module, name, local_imports):
        """bare name -> (module, ClassDef) or None"""
        if name in local_imports:
            mod, attr = local_imports[name]
            m = self.repo.by_dotted(mod)
            if m is not None and attr in m.classes:
                return m, m.classes[attr].node
            return None
        r = module.resolve_name(name)
        if r and r[0] == "class":
            return r[1].module, r[1].node
        return None

    def method(self, oid, name):
        """method lookup on an instance (own class, then bases of the same module)"""
        mod, cnode = self.obj_class[oid]
        seen, todo = set(), [cnode]
        while todo:
            c = todo.pop(0)
            if id(c) in seen:
                continue
            seen.add(id(c))
            for n in c.body:
                if isinstance(n, ast.FunctionDef) and n.name == name:
                    return mod, n
            for b in c.bases:
                if isinstance(b, ast.Name) and b.id in mod.classes:
                    todo.append(mod.classes[b.id].node)
        return None

    def new_object(self, mod, cnode):
        oid = len(self.objects) + 1
        self.objects[oid] = {}
        self.obj_class[oid] = (mod, cnode)
        return ("obj", cnode.name, oid)

    def set_attr(self, oid, attr, v):
        old = self.objects[oid].get(attr)
        self.objects[oid][attr] = v if old is None or old == v else phi(old, v)

    def func(self, module, name, local_imports):
        """bare name -> (module, FunctionDef) or None"""
        if (module.relpath, name) in self.overrides and name not in local_imports:
            return module, self.overrides[(module.relpath, name)]
        if name in local_imports:
            mod, attr = local_imports[name]
            m = self.repo.by_dotted(mod)
            if m is not None and attr in m.functions and "." not in attr:
                return m, self.overrides.get((m.relpath, attr), m.functions[attr].node)
            return None
        r = module.resolve_name(name)
        if r and r[0] == "func":
            f = r[1]
            return f.module, self.overrides.get((f.module.relpath, f.name), f.node)
        return None


class Hit:
    def __init__(self, node, label, via):
        self.node = node        # call node in the root function
        self.label = label      # sink name
        self.via = via          # chain of inlined callees
        self.terms = []


class Exec:
    def __init__(self, world, module, fnode, env, depth=0, stack=(), hits=None, seen_labels=None, notes=None):
        self.world = world
        self.module = module
        self.fn = fnode
        self.env = env
        self.depth = depth
        self.stack = stack      # ((call node, callee name), ...)
        self.hits = hits if hits is not None else {}
        self.labels = seen_labels if seen_labels is not None else set()
        self.notes = notes if notes is not None else []
        self.local_imports = {}
        self.returns = []
        self.yields = []
        self.guards = 0

    # ---- sinks -----------------------------------------------------------
    def sink(self, call, label, term):
        root_call = self.stack[0][0] if self.stack else call
        via = tuple(n for _, n in self.stack)
        key = (id(root_call), label, via)
        h = self.hits.get(key)
        if h is None:
            h = self.hits[key] = Hit(root_call, label, via)
        if term not in h.terms:
            h.terms.append(term)

    # ---- expressions ---------------------------------------------------------
    def ev(self, e):
        if e is None:
            return const(None)
        if isinstance(e, ast.Constant):
            return const(e.value)
        if isinstance(e, ast.Name):
            return self.env.get(e.id, ("unknown", e.id))
        if isinstance(e, ast.Attribute):
            v = self.ev(e.value)
            if v[0] == "obj":
                return self.world.objects[v[2]].get(e.attr, ("unknown", e.attr))
            if is_tainted(v):
                self.labels.add(e.attr)
                return dex(e.attr)
            return op("attr:" + e.attr, v)
        if isinstance(e, ast.Call):
            return self.call(e)
        if isinstance(e, ast.BinOp):
            l, r = self.ev(e.left), self.ev(e.right)
            if isinstance(e.op, ast.Add):
                return op("concat", l, r)
            if isinstance(e.op, ast.Mod):
                return op("format%", l, r)
            return op("binop", l, r)
        if isinstance(e, ast.JoinedStr):
            parts = []
            for v in e.values:
                parts.append(const(v.value) if isinstance(v, ast.Constant) else self.ev(v.value))
            return op("concat", *parts)
        if isinstance(e, ast.Subscript):
            v = self.ev(e.value)
            self.ev_effects(e.slice)
            return op("slice", v)
        if isinstance(e, ast.IfExp):
            self.ev_effects(e.test)
            return phi(self.ev(e.body), self.ev(e.orelse))
        if isinstance(e, (ast.ListComp, ast.GeneratorExp, ast.SetComp)):
            return self.comp(e)
        if isinstance(e, ast.Starred):
            return ("star", self.ev(e.value))
        if isinstance(e, (ast.Tuple, ast.List, ast.Set)):
            return op("tuple", *[self.ev(x) for x in e.elts])
        if isinstance(e, ast.Dict):
            return op("dict", *[self.ev(x) for x in list(e.keys) + list(e.values) if x is not None])
        if isinstance(e, ast.NamedExpr):
            v = self.ev(e.value)
            self.env[e.target.id] = v
            return v
        if isinstance(e, ast.Lambda):
            return ("unknown", "lambda")
        if isinstance(e, (ast.Compare, ast.BoolOp, ast.UnaryOp)):
            self.ev_effects(e)
            return ("unknown", "bool")
        if isinstance(e, ast.Slice):
            return ("unknown", "slice")
        if isinstance(e, ast.Yield):
            self.yields.append(self.ev(e.value) if e.value is not None else const(None))
            return ("unknown", "sent")
        if isinstance(e, ast.YieldFrom):
            v = self.ev(e.value)
            self.yields.append(v[2][0] if (v[0] == "op" and v[1] == "gen") else op("elem", v))
            return ("unknown", "sent")
        if isinstance(e, ast.Await):
            _err("%s: coroutines are outside the fragment" % self.fn.name)
        return ("unknown", type(e).__name__)

    def ev_effects(self, e):
        """evaluate the calls inside a boolean/other expression for their sinks"""
        if e is None:
            return
        for n in ast.iter_child_nodes(e):
            if isinstance(n, ast.expr):
                if isinstance(n, (ast.Compare, ast.BoolOp, ast.UnaryOp)):
                    self.ev_effects(n)
                else:
                    self.ev(n)

    def comp(self, e):
        if len(e.generators) == 1 and isinstance(e.generators[0].target, ast.Name):
            g = e.generators[0]
            it = self.ev(g.iter)
            var = g.target.id
            # segment filter?
            if isinstance(e.elt, ast.Name) and e.elt.id == var and self.splits_on_sep(g.iter) and g.ifs and self.rejects_dot_segments(g.ifs, var):
                base = it[2][0] if it[0] == "op" and it[1].startswith("meth:") else it
                return op("safe_segments", base)
            old = self.env.get(var)
            self.env[var] = op("elem", it)
            for c in g.ifs:
                self.ev_effects(c)
            elt = self.ev(e.elt)
            if old is None:
                self.env.pop(var, None)
            else:
                self.env[var] = old
            return op("comp", elt)
        for g in e.generators:
            self.ev(g.iter)
        return ("unknown", "comprehension")

    @staticmethod
    def splits_on_sep(it):
        """x.split('/') or re.split(<class containing '/'>, x)"""
        if isinstance(it, ast.Call) and isinstance(it.func, ast.Attribute) and it.func.attr == "split":
            if dotted(it.func) == "re.split" and len(it.args) == 2 and isinstance(it.args[0], ast.Constant) and isinstance(it.args[0].value, str):
                from .. import regexlang as RL
                try:
                    cs = RL.single_char_language(RL.Regex(it.args[0].value))
                except RL.Unsupported:
                    return False
                return cs is not None and "/" in cs
            return len(it.args) == 1 and isinstance(it.args[0], ast.Constant) and it.args[0].value == "/"
        return False

    @staticmethod
    def rejects_dot_segments(ifs, var):
        """all conditions together evaluate to False for '', '.', '..' (own constant evaluation)"""
        def val(e, p):
            if isinstance(e, ast.Constant):
                return e.value
            if isinstance(e, ast.Name) and e.id == var:
                return p
            if isinstance(e, (ast.Tuple, ast.List, ast.Set)):
                return [val(x, p) for x in e.elts]
            if isinstance(e, ast.UnaryOp) and isinstance(e.op, ast.Not):
                return not val(e.operand, p)
            if isinstance(e, ast.BoolOp):
                vs = [val(x, p) for x in e.values]
                return all(vs) if isinstance(e.op, ast.And) else any(vs)
            if isinstance(e, ast.Compare) and len(e.ops) == 1:
                a, b = val(e.left, p), val(e.comparators[0], p)
                o = e.ops[0]
                if isinstance(o, ast.Eq):
                    return a == b
                if isinstance(o, ast.NotEq):
                    return a != b
                if isinstance(o, ast.In):
                    return a in b
                if isinstance(o, ast.NotIn):
                    return a not in b
            raise ValueError
        try:
            return all(not all(bool(val(c, p)) for c in ifs) for p in ("", ".", ".."))
        except (ValueError, TypeError):
            return False

    def call(self, e):
        d = dotted(e.func)
        kw = {k.arg: k.value for k in e.keywords if k.arg}
        # --- sinks
        if d in SINKS:
            idx, label = SINKS[d]
            args = [self.ev(a) for a in e.args]
            for k in e.keywords:
                self.ev(k.value)
            p = args[idx] if idx < len(args) else (self.ev(kw["dst"]) if "dst" in kw else None)
            if p is not None:
                self.sink(e, label, p)
            return ("unknown", d)
        if d == "open":
            args = [self.ev(a) for a in e.args]
            mode = e.args[1] if len(e.args) > 1 else kw.get("mode")
            for k in e.keywords:
                self.ev(k.value)
            if mode is not None:
                if not (isinstance(mode, ast.Constant) and isinstance(mode.value, str)):
                    _err("%s: open() with a non-literal mode (outside the fragment)" % self.fn.name)
                if any(c in mode.value for c in "wax+") and args:
                    self.sink(e, "open", args[0])
            return ("unknown", "file")
        # --- path arithmetic
        if d == "os.path.join":
            args = [self.ev(a) for a in e.args]
            if len(args) == 1 and args[0][0] == "star":
                inner = args[0][1]
                alts = inner[2] if inner[0] == "op" and inner[1] == "phi" else (inner,)
                return phi(*[("saferel", x[2][0]) if (x[0] == "op" and x[1] == "safe_segments") else op("join", ("star", x)) for x in alts])
            return op("join", *args)
        if d in NORMALISERS or d in ("os.path.expanduser", "os.fspath"):
            return op("norm:" + d.split(".")[-1], *[self.ev(a) for a in e.args])
        if d == "str" and len(e.args) == 1:
            return op("str", self.ev(e.args[0]))
        # --- methods
        if isinstance(e.func, ast.Attribute):
            recv = e.func.value
            attr = e.func.attr
            if isinstance(recv, ast.Constant) and isinstance(recv.value, str) and attr == "format":
                return op("format", const(recv.value), *[self.ev(a) for a in e.args], *[self.ev(v) for v in kw.values()])
            if isinstance(recv, ast.Constant) and isinstance(recv.value, str) and attr == "join" and len(e.args) == 1:
                a = self.ev(e.args[0])
                if recv.value == "/" and a[0] == "op" and a[1] == "safe_segments":
                    return ("saferel", a[2][0])
                return op("meth:join", const(recv.value), a)
            rv = self.ev(recv)
            if rv[0] == "obj":
                target = self.world.method(rv[2], attr)
                if target is not None and self.depth < MAX_DEPTH and not any(n == attr for _, n in self.stack):
                    mod, fnode = target
                    decos = [dotted(d) for d in fnode.decorator_list]
                    pargs = [self.ev(a) for a in e.args]
                    if "staticmethod" not in decos:
                        pargs = [rv if "classmethod" not in decos else ("unknown", "cls")] + pargs
                    res = self.inline(e, attr, mod, fnode, pargs, {k: self.ev(v) for k, v in kw.items()})
                    return ("call", attr, tuple(pargs[1:] if "staticmethod" not in decos else pargs), res)
                if target is None and attr in self.world.objects[rv[2]]:
                    return ("call", attr, tuple(self.ev(a) for a in e.args), None)
            args = [self.ev(a) for a in e.args] + [self.ev(v) for v in kw.values()]
            if attr in STRING_METHODS:
                return op("meth:" + attr, rv, *args)
            if is_tainted(rv):
                self.labels.add(attr)
                return dex(attr)
            return op("meth:" + attr, rv, *args)
        # --- plain function calls
        args = [self.ev(a) for a in e.args]
        kwargs = {k: self.ev(v) for k, v in kw.items()}
        if isinstance(e.func, ast.Name) and e.func.id not in self.env:
            ctarget = self.world.cls(self.module, e.func.id, self.local_imports)
            if ctarget is not None and self.depth < MAX_DEPTH:
                cmod, cnode = ctarget
                obj = self.world.new_object(cmod, cnode)
                init = self.world.method(obj[2], "__init__")
                if init is not None:
                    self.inline(e, cnode.name + ".__init__", init[0], init[1], [obj] + args, kwargs)
                return obj
        if isinstance(e.func, ast.Name):
            name = e.func.id
            target = None if name in self.env else self.world.func(self.module, name, self.local_imports)
            if target is not None and self.depth < MAX_DEPTH and not any(n == name for _, n in self.stack):
                mod, fnode = target
                res = self.inline(e, name, mod, fnode, args, kwargs)
                return ("call", name, tuple(args) + tuple(kwargs.values()), res)
            return ("call", name, tuple(args) + tuple(kwargs.values()), None)
        self.ev(e.func)
        return ("call", d or "?", tuple(args) + tuple(kwargs.values()), None)

    def inline(self, call, name, mod, fnode, args, kwargs):
        a = fnode.args
        params = [x.arg for x in a.posonlyargs + a.args]
        if a.vararg or a.kwarg or any(x[0] == "star" for x in args):
            _err("call %s(...) uses *args/**kwargs (outside the fragment)" % name)
        env = {}
        defaults = dict(zip(reversed(params), reversed(a.defaults)))
        for i, p in enumerate(params):
            if i < len(args):
                env[p] = args[i]
            elif p in kwargs:
                env[p] = kwargs[p]
            elif p in defaults and isinstance(defaults[p], ast.Constant):
                env[p] = const(defaults[p].value)
            else:
                env[p] = ("unknown", "default " + p)
        for kwo, dflt in zip(a.kwonlyargs, a.kw_defaults):
            env[kwo.arg] = kwargs.get(kwo.arg, const(dflt.value) if isinstance(dflt, ast.Constant) else ("unknown", kwo.arg))
        sub = Exec(self.world, mod, fnode, env, self.depth + 1, self.stack + ((call, name),), self.hits, self.labels, self.notes)
        sub.block(fnode.body)
        self.guards += sub.guards
        if sub.yields:
            return op("gen", phi(*sub.yields))   # a generator: the terms its elements can be
        if not sub.returns:
            return const(None)
        return phi(*sub.returns)

    # ---- containment guards ------------------------------------------------------
    def normalised(self, e):
        """N(x) -> (inner expr, True) ; x -> (x, False)"""
        if isinstance(e, ast.Call) and dotted(e.func) in NORMALISERS and len(e.args) == 1:
            inner, _ = self.normalised(e.args[0])
            return inner, True
        if isinstance(e, ast.Name):
            # a local defined as N(x)
            t = self.env.get(e.id)
            if t is not None and t[0] == "op" and t[1].startswith("norm:"):
                return e, True
        return e, False

    def term_of_path(self, e):
        """term of an expression with the normalisers stripped"""
        t = self.ev(e)
        while t[0] == "op" and t[1].startswith("norm:") and len(t[2]) == 1:
            t = t[2][0]
        return t

    def with_sep(self, e):
        """root + os.sep / root + '/' / os.path.join(root, '') -> root expr"""
        if isinstance(e, ast.BinOp) and isinstance(e.op, ast.Add):
            r = e.right
            if dotted(r) in ("os.sep", "os.path.sep") or (isinstance(r, ast.Constant) and r.value in ("/", "\\")):
                return e.left
        if isinstance(e, ast.Call) and dotted(e.func) == "os.path.join" and len(e.args) == 2 and isinstance(e.args[1], ast.Constant) and e.args[1].value == "":
            return e.args[0]
        if isinstance(e, ast.Name):
            # local defined as <root> + os.sep
            for n in walk_no_nested(self.fn):
                if isinstance(n, ast.Assign) and len(n.targets) == 1 and isinstance(n.targets[0], ast.Name) and n.targets[0].id == e.id:
                    return self.with_sep(n.value)
        return None

    def inside_test(self, t):
        """positive containment test -> (cand expr, root expr, strict) or None ; strict = the root itself is rejected"""
        # N(cand).startswith(N(root) + sep)
        if isinstance(t, ast.Call) and isinstance(t.func, ast.Attribute) and t.func.attr == "startswith" and len(t.args) == 1:
            cand, ok = self.normalised(t.func.value)
            root = self.with_sep(t.args[0])
            if ok and root is not None:
                return cand, self.normalised(root)[0], True
            return None
        # commonpath([a, b]) == N(root)
        if isinstance(t, ast.Compare) and len(t.ops) == 1 and isinstance(t.ops[0], ast.Eq):
            for cp, other in ((t.left, t.comparators[0]), (t.comparators[0], t.left)):
                if isinstance(cp, ast.Call) and dotted(cp.func) == "os.path.commonpath" and len(cp.args) == 1 and isinstance(cp.args[0], (ast.List, ast.Tuple)) \
                        and len(cp.args[0].elts) == 2:
                    a, b = cp.args[0].elts
                    rt = self.term_of_path(other)
                    ta, tb = self.term_of_path(a), self.term_of_path(b)
                    for root_e, cand_e, troot in ((a, b, ta), (b, a, tb)):
                        if troot == rt and self.normalised(cand_e)[1] and self.normalised(root_e)[1]:
                            return self.normalised(cand_e)[0], self.normalised(root_e)[0], False
            return None
        # N(cand) == N(root) or <inside>
        if isinstance(t, ast.BoolOp) and isinstance(t.op, ast.Or):
            found = [self.inside_test(v) for v in t.values]
            good = [f for f in found if f]
            if len(good) == 1 and all(f or self.is_same_path_eq(v, good[0]) for f, v in zip(found, t.values)):
                return good[0][0], good[0][1], False
        return None

    def is_same_path_eq(self, v, pair, op=ast.Eq):
        if isinstance(v, ast.Compare) and len(v.ops) == 1 and isinstance(v.ops[0], op):
            ts = {self.term_of_path(v.left), self.term_of_path(v.comparators[0])}
            return ts == {self.term_of_path(pair[0]), self.term_of_path(pair[1])}
        return False

    def guard(self, test):
        """-> ('inside'|'outside', cand expr, root expr, strict) or None"""
        if isinstance(test, ast.UnaryOp) and isinstance(test.op, ast.Not):
            g = self.guard(test.operand)
            if g:
                return ("outside" if g[0] == "inside" else "inside",) + g[1:]
            return None
        if isinstance(test, ast.Compare) and len(test.ops) == 1 and isinstance(test.ops[0], ast.NotEq):
            pos = ast.Compare(left=test.left, ops=[ast.Eq()], comparators=test.comparators)
            p = self.inside_test(pos)
            return ("outside",) + p if p else None
        if isinstance(test, ast.BoolOp):
            # outside: <cand == root> or <not inside>      inside: <cand != root> and <inside>
            want, eqop = ("outside", ast.Eq) if isinstance(test.op, ast.Or) else ("inside", ast.NotEq)
            subs = [(v, self.guard(v)) for v in test.values]
            good = [g for _v, g in subs if g and g[0] == want]
            if good and all(g is not None and g[0] == want and self.same_pair(g, good[0]) or (g is None and self.is_same_path_eq(v, good[0][1:3], eqop))
                            for v, g in subs):
                strict = any(g is None for _v, g in subs) or all(g[3] for g in good)
                return (want, good[0][1], good[0][2], strict)
        p = self.inside_test(test)
        return ("inside",) + p if p else None

    def same_pair(self, g, h):
        return self.term_of_path(g[1]) == self.term_of_path(h[1]) and self.term_of_path(g[2]) == self.term_of_path(h[2])

    def confine(self, env, cand_e, root_e, strict=False):
        root_t = self.term_of_path(root_e)
        if is_tainted(root_t):
            return False
        cand_t = self.term_of_path(cand_e)
        hit = False
        for k, v in list(env.items()):
            base = v
            while base[0] == "op" and base[1].startswith("norm:") and len(base[2]) == 1:
                base = base[2][0]
            if base == cand_t and is_tainted(v):
                env[k] = ("confined", root_t, v, bool(strict))
                hit = True
        return hit

    # ---- statements ----------------------------------------------------------------
    def block(self, stmts):
        for s in stmts:
            self.stmt(s)

    def bind(self, target, v):
        if isinstance(target, ast.Name):
            self.env[target.id] = v
        elif isinstance(target, (ast.Tuple, ast.List)):
            for x in target.elts:
                self.bind(x.value if isinstance(x, ast.Starred) else x, op("elem", v))
        elif isinstance(target, ast.Attribute):
            o = self.ev(target.value)
            if o[0] == "obj":
                self.world.set_attr(o[2], target.attr, v)
        else:
            self.ev(target.value if isinstance(target, ast.Subscript) else target)

    @staticmethod
    def element(it):
        """term of one element of an iterable term"""
        u = unwrap(it)
        if u[0] == "op" and u[1] == "gen":
            return u[2][0]
        if u[0] == "op" and u[1] == "phi" and all(x[0] == "op" and x[1] == "gen" for x in map(unwrap, u[2])):
            return phi(*[unwrap(x)[2][0] for x in u[2]])
        return op("elem", it)

    def branch(self, body, env):
        saved = self.env
        self.env = dict(env)
        self.block(body)
        out = self.env
        self.env = saved
        return out

    @staticmethod
    def merge(a, b):
        out = {}
        for k in set(a) | set(b):
            if k in a and k in b:
                out[k] = a[k] if a[k] == b[k] else phi(a[k], b[k])
            else:
                out[k] = a.get(k, b.get(k))
        return out

    @staticmethod
    def leaves_block(body):
        if leaves_only(body):
            return True
        last = body[-1] if body else None
        return isinstance(last, ast.Expr) and isinstance(last.value, ast.Call) and dotted(last.value.func) in ("sys.exit", "exit", "quit", "os._exit")

    def stmt(self, s):
        if isinstance(s, ast.Expr):
            self.ev(s.value)
        elif isinstance(s, ast.Assign):
            v = self.ev(s.value)
            for t in s.targets:
                self.bind(t, v)
        elif isinstance(s, ast.AnnAssign):
            if s.value is not None:
                self.bind(s.target, self.ev(s.value))
        elif isinstance(s, ast.AugAssign):
            v = self.ev(s.value)
            if isinstance(s.target, ast.Name):
                self.env[s.target.id] = op("concat", self.env.get(s.target.id, ("unknown", s.target.id)), v)
            elif isinstance(s.target, ast.Attribute):
                o = self.ev(s.target.value)
                if o[0] == "obj":
                    self.world.set_attr(o[2], s.target.attr, op("concat", self.world.objects[o[2]].get(s.target.attr, ("unknown", s.target.attr)), v))
        elif isinstance(s, ast.If):
            g = self.guard(s.test)
            self.ev_effects(s.test) if isinstance(s.test, (ast.Compare, ast.BoolOp, ast.UnaryOp)) else self.ev(s.test)
            t_env, f_env = dict(self.env), dict(self.env)
            if g:
                kind, cand, root, strict = g
                if self.confine(t_env if kind == "inside" else f_env, cand, root, strict):
                    self.guards += 1
            a = self.branch(s.body, t_env)
            b = self.branch(s.orelse, f_env)
            if self.leaves_block(s.body) and not (s.orelse and self.leaves_block(s.orelse)):
                self.env = b
            elif s.orelse and self.leaves_block(s.orelse):
                self.env = a
            else:
                self.env = self.merge(a, b)
        elif isinstance(s, (ast.For, ast.AsyncFor)):
            it = self.ev(s.iter)
            before = dict(self.env)
            for _ in range(2):
                self.bind(s.target, self.element(it))
                self.block(s.body)
                self.env = self.merge(before, self.env)
            self.block(s.orelse)
        elif isinstance(s, ast.While):
            before = dict(self.env)
            for _ in range(2):
                self.ev_effects(s.test) if isinstance(s.test, (ast.Compare, ast.BoolOp, ast.UnaryOp)) else self.ev(s.test)
                self.block(s.body)
                self.env = self.merge(before, self.env)
            self.block(s.orelse)
        elif isinstance(s, (ast.With, ast.AsyncWith)):
            for item in s.items:
                v = self.ev(item.context_expr)
                if item.optional_vars is not None:
                    self.bind(item.optional_vars, v)
            self.block(s.body)
        elif isinstance(s, ast.Try):
            before = dict(self.env)
            self.block(s.body)
            after = self.env
            self.block(s.orelse)
            ends = [self.env]
            for h in s.handlers:
                self.env = self.merge(before, after)
                if h.name:
                    self.env[h.name] = ("unknown", "exception")
                self.block(h.body)
                if not self.leaves_block(h.body):
                    ends.append(self.env)
            env = ends[0]
            for x in ends[1:]:
                env = self.merge(env, x)
            self.env = env
            self.block(s.finalbody)
        elif isinstance(s, ast.Return):
            self.returns.append(self.ev(s.value) if s.value is not None else const(None))
        elif isinstance(s, ast.ImportFrom):
            if s.level == 0 and s.module:
                for a in s.names:
                    self.local_imports[a.asname or a.name] = (s.module, a.name)
        elif isinstance(s, ast.Raise):
            if s.exc is not None:
                self.ev(s.exc)
        elif isinstance(s, ast.Assert):
            self.ev_effects(s.test)
        elif isinstance(s, (ast.Import, ast.Pass, ast.Break, ast.Continue, ast.Global, ast.Nonlocal, ast.Delete)):
            pass
        elif isinstance(s, (ast.FunctionDef, ast.AsyncFunctionDef, ast.ClassDef)):
            self.notes.append("nested definition %s in %s is not analysed" % (s.name, self.fn.name))
        else:
            _err("%s: statement `%s` is outside the analysable fragment" % (self.fn.name, norm(s)[:60]))


# ---------------------------------------------------------------------------
class Sink:
    def __init__(self, ctx=None, func=None):
        self.ctx = ctx
        self.func = func
        self.failed = {}
        self.counts = {}

    def check(self, rule, instance, ok, construct, message, node=None, witness=None, detail=""):
        if not ok:
            self.failed[(rule, norm(construct))] = message
        if self.ctx is not None:
            self.ctx.check(rule, instance, ok, self.func, construct, message, node=node, witness=witness, detail=detail)

    def count(self, name, n=1):
        self.counts[name] = self.counts.get(name, 0) + n
        if self.ctx is not None:
            self.ctx.count(name, n)


def core(sink, world, module, fnode):
    a = fnode.args
    env = {}
    for p in [x.arg for x in a.posonlyargs + a.args + a.kwonlyargs]:
        env[p] = ("par", p)
    if not any(p in TAINT_ROOTS for p in env):
        _err("%s has no Session parameter `s` (anchor vanished)" % fnode.name)
    ex = Exec(world, module, fnode, env)
    ex.block(fnode.body)
    n_tainted = 0
    for h in ex.hits.values():
        sink.count("sinks")
        terms = sorted(h.terms, key=render)
        bad = set()
        for t in terms:
            bad |= unsafe(t)
        tainted = any(is_tainted(t) for t in terms)
        n_tainted += tainted
        shown = render(phi(*terms))
        construct = "%s(%s)" % (h.label, shown)
        through = []
        for t in terms:
            partial_sanitizers(t, through)
        msg = ("DEX-controlled %s reach%s the path of %s unsanitised: %s" % (", ".join("<%s>" % b for b in sorted(bad)), "es" if len(bad) == 1 else "",
               h.label if not h.via else "%s (inside %s)" % (h.label, " -> ".join(h.via)), shown))
        if any(derived_after_check(t) for t in terms):
            msg += ("; the value that reaches the sink is not the value that was checked: it is derived from it afterwards, and a check that admits the "
                    "root itself (commonpath == root) does not cover <root> + suffix (a sibling of the output directory)")
        elif through:
            msg += "; passes through %s, none of which confines the path (a `..`/absolute segment survives)" % ", ".join(through)
        sink.check("path-sink", "%s at %s" % (h.label, "/".join(h.via) or fnode.name), not bad, construct, msg, node=h.node,
                   witness=dict(sources=sorted(bad), path=shown, sink=h.label, via=list(h.via)),
                   detail=("path %s: DEX-independent" % shown) if not tainted else ("path %s: every DEX-derived part is confined/filtered" % shown))
    sink.count("tainted_sinks", n_tainted)
    sink.count("guards", ex.guards)
    for lab in NAMED_SOURCES:
        if lab in ex.labels:
            sink.count("named_sources")
    return ex


# ---------------------------------------------------------------------------
def run(ctx):
    ctx.explanation = __doc__
    m = ctx.mod(MAIN)
    ctx.mod("androguard/misc.py")
    ctx.mod("androguard/core/bytecode.py")
    f = m.func(ROOT_FN)
    ctx.analysed(f)
    for n in ("valid_class_name", "create_directory"):
        ctx.analysed(m.func(n))
    ctx.require(m.imports.get("os") == ("os", None) and m.imports.get("shutil") == ("shutil", None), "`os`/`shutil` are not the standard modules in cli/main.py")
    sink = Sink(ctx, f)
    ex = core(sink, World(ctx.repo), m, f.node)
    for n in ex.notes:
        ctx.note(n)
    ctx.floor("sinks", 4)
    ctx.floor("tainted_sinks", 4)
    ctx.floor("named_sources", 4)
    ctx.assume("trusted (not DEX-controlled): the CLI parameters output, form, filename, methods_filter, decompiler_type, jar and androconf.CONF")
    ctx.assume("POSIX path semantics: '/' is the only separator; a sanitised path is only ever extended by DEX-independent suffixes")
    ctx.note("DEX-derived labels seen: %s" % ", ".join(sorted(ex.labels)))
    if ctx.tier == "thorough":
        _thorough(ctx, m, f, sink)


# ---------------------------------------------------------------------------
def _clone(node):
    return ast.parse(ast.unparse(node)).body[0]


def _mutants(m):
    root = m.functions[ROOT_FN].node
    vcn = m.functions["valid_class_name"].node
    cd = m.functions["create_directory"].node
    out = []

    def mut(label, which, fn, breaking):
        nodes = {ROOT_FN: root, "valid_class_name": vcn, "create_directory": cd}
        t = _clone(nodes[which])
        if fn(t):
            ast.fix_missing_locations(t)
            out.append((label, {(m.relpath, which): t}, breaking))

    def drop_clean(t):
        for n in ast.walk(t):
            if isinstance(n, ast.Assign) and isinstance(n.value, ast.Call) and dotted(n.value.func) == "clean_file_name":
                n.value = n.value.args[0]
                return True
    mut("clean_file_name no longer applied", ROOT_FN, drop_clean, "if-unconfined")

    def bypass_vcn(t):
        for n in ast.walk(t):
            if isinstance(n, ast.Call) and dotted(n.func) == "valid_class_name":
                n.func = ast.Name("str", ast.Load())
                return True
    mut("class name used as a path without valid_class_name", ROOT_FN, bypass_vcn, "if-unconfined")

    def new_sink(t):
        for n in ast.walk(t):
            if isinstance(n, ast.For) and "get_encoded_methods" in ast.unparse(n.iter):
                n.body.append(ast.parse("with open(os.path.join(output, method.get_name() + '.txt'), 'w') as fd:\n    fd.write('x')").body[0])
                return True
    mut("new file named after the method", ROOT_FN, new_sink, True)

    def jar_name(t):
        for n in ast.walk(t):
            if isinstance(n, ast.Call) and dotted(n.func) == "shutil.move":
                n.args[1] = ast.parse("os.path.join(output, vm.get_classes_names()[0] + '.jar')", mode="eval").body
                return True
    mut("jar named after the first class", ROOT_FN, jar_name, True)

    def makedirs_direct(t):
        for n in ast.walk(t):
            if isinstance(n, ast.Call) and dotted(n.func) == "os.makedirs":
                n.keywords.append(ast.keyword("exist_ok", ast.Constant(True)))
                return True
    mut("create_directory uses exist_ok", "create_directory", makedirs_direct, False)

    def rename_local(t):
        hit = False
        for n in ast.walk(t):
            if isinstance(n, ast.Name) and n.id == "filename_class":
                n.id = "class_dir"
                hit = True
        return hit
    mut("local renamed", ROOT_FN, rename_local, False)

    def vcn_temp(t):
        t.body[-1] = ast.parse("parts = class_name.split('/')\nreturn os.path.join(*parts)").body[0]
        t.body.append(ast.parse("def f():\n    return os.path.join(*parts)").body[0].body[0])
        return True
    mut("valid_class_name with a temporary", "valid_class_name", vcn_temp, False)

    def weak_guard(t):
        for n in ast.walk(t):
            if isinstance(n, ast.For) and "get_encoded_methods" in ast.unparse(n.iter):
                for i, s in enumerate(n.body):
                    if isinstance(s, ast.Expr) and isinstance(s.value, ast.Call) and dotted(s.value.func) == "create_directory":
                        n.body.insert(i, ast.parse("if not os.path.abspath(filename_class).startswith(os.path.abspath(output)):\n    continue").body[0])
                        return True
    mut("containment check without separator", ROOT_FN, weak_guard, None)  # must NOT count as a sanitizer: findings stay as today
    return out


def _thorough(ctx, m, f, base_sink):
    base = set(base_sink.failed)
    killed = total = silent = btotal = 0
    survivors, noisy = [], []
    for label, overrides, breaking in _mutants(m):
        if breaking == "if-unconfined":
            # dropping a partial transformer only matters while the path is not confined by a containment check
            if not any("checked" not in k[1] for k in base):
                continue
            breaking = True
        s = Sink()
        err = None
        try:
            fnode = overrides.get((m.relpath, ROOT_FN), f.node)
            core(s, World(ctx.repo, overrides), m, fnode)
            fired = any(k not in base for k in s.failed)
            same = set(s.failed) == base
        except AnalysisError as e:
            fired, same, err = False, False, str(e)
        if breaking is None:
            # a weak sanitizer must leave today's findings exactly as they are
            ok = same and err is None
            total += 1
            killed += ok
            if not ok:
                survivors.append(label + " (accepted as a sanitizer)")
        elif breaking:
            total += 1
            killed += fired
            if not fired:
                survivors.append(label + (" [analysis error: %s]" % err if err else ""))
        else:
            btotal += 1
            if not fired and err is None:
                silent += 1
            else:
                noisy.append(label + (" [%s]" % (err or sorted(k for k in s.failed if k not in base))))
        ctx.ob("mutation", label, True, "breaking" if breaking else "benign")
    # repaired variants: a recognised sanitizer must silence the sinks
    for label, src in _REPAIRS.items():
        total += 1
        s = Sink()
        try:
            mod = ast.parse(src)
            ov = {(m.relpath, n.name): n for n in mod.body if isinstance(n, ast.FunctionDef)}
            core(s, World(ctx.repo, ov), m, ov[(m.relpath, ROOT_FN)])
            if not s.failed:
                killed += 1
            else:
                survivors.append("repair not recognised: %s %s" % (label, sorted(s.failed)[:1]))
        except AnalysisError as e:
            survivors.append("repair %s: %s" % (label, e))
    ctx.extra["mutants_killed"], ctx.extra["mutants_total"] = killed, total
    ctx.extra["benign_silent"], ctx.extra["benign_total"] = silent, btotal
    if survivors:
        raise AnalysisError("rule lost its teeth: %s" % "; ".join(survivors))
    if noisy:
        raise AnalysisError("rule fires on benign edits: %s" % "; ".join(noisy))
    ctx.floor("mutants", 5, total)


# miniature repaired versions of the export loop (checker-owned fixtures, never executed): the rule must accept them
_REPAIRS = {
    "containment helper": '''
def _inside(root, path):
    root = os.path.realpath(root)
    resolved = os.path.realpath(path)
    if resolved == root or os.path.commonpath([root, resolved]) != root:
        raise ValueError(path)
    return path

def export_apps_to_format(filename, s, output, form=None):
    from androguard.misc import clean_file_name
    for _, vm, vmx in s.get_objects_dex():
        for method in vm.get_encoded_methods():
            filename_class = _inside(output, os.path.join(output, valid_class_name(str(method.get_class_name()))))
            create_directory(filename_class)
            filename = _inside(output, clean_file_name(os.path.join(filename_class, method.get_short_string())))
            with open(filename + ".ag", "w") as fd:
                fd.write("x")
''',
    "inline startswith guard": '''
def export_apps_to_format(filename, s, output, form=None):
    for _, vm, vmx in s.get_objects_dex():
        for method in vm.get_encoded_methods():
            target = os.path.join(output, valid_class_name(str(method.get_class_name())))
            if not os.path.abspath(target).startswith(os.path.abspath(output) + os.sep):
                continue
            os.makedirs(target)
''',
    "segment filter": '''
def valid_class_name(class_name):
    if class_name[-1] == ";":
        class_name = class_name[1:-1]
    return os.path.join(*[p for p in class_name.split("/") if p not in ("", ".", "..")])

def export_apps_to_format(filename, s, output, form=None):
    for _, vm, vmx in s.get_objects_dex():
        for method in vm.get_encoded_methods():
            create_directory(os.path.join(output, valid_class_name(str(method.get_class_name()))))
''',
}
