"""L0 source model: modules, classes (with MRO), functions by qualname."""
from __future__ import annotations

import ast
import hashlib
import os
from dataclasses import dataclass, field


class AnalysisError(Exception):
    """The analysed code left the fragment a rule understands, or an anchor
    vanished.  Not a verdict (exit 2)."""


@dataclass
class Func:
    module: "Module"
    qualname: str  # Class.method or function
    node: ast.FunctionDef
    cls: "Cls | None" = None

    @property
    def name(self):
        return self.node.name

    @property
    def file(self):
        return self.module.relpath

    @property
    def line(self):
        return self.node.lineno

    def params(self):
        a = self.node.args
        return [x.arg for x in a.posonlyargs + a.args]

    def loc(self, node=None):
        n = node if node is not None else self.node
        return "%s:%d" % (self.module.relpath, getattr(n, "lineno", self.node.lineno))


@dataclass
class Cls:
    module: "Module"
    name: str
    node: ast.ClassDef
    base_names: list = field(default_factory=list)
    methods: dict = field(default_factory=dict)
    attrs: dict = field(default_factory=dict)  # class-level simple assignments: name -> ast expr

    def mro(self):
        out, seen = [], set()

        def walk(c):
            if c is None or id(c) in seen:
                return
            seen.add(id(c))
            out.append(c)
            for b in c.base_names:
                walk(c.module.resolve_class(b))

        walk(self)
        return out

    def lookup(self, name):
        """method lookup through the MRO -> Func or None"""
        for c in self.mro():
            if name in c.methods:
                return c.methods[name]
        return None

    def lookup_attr(self, name):
        for c in self.mro():
            if name in c.attrs:
                return c.attrs[name]
        return None

    def is_subclass_of(self, name):
        return any(c.name == name for c in self.mro())


class Module:
    def __init__(self, repo, relpath, text):
        self.repo = repo
        self.relpath = relpath
        self.text = text
        self.sha256 = hashlib.sha256(text.encode("utf-8", "surrogatepass")).hexdigest()
        self.tree = ast.parse(text, filename=relpath)
        self.lines = text.splitlines()
        self.classes: dict[str, Cls] = {}
        self.functions: dict[str, Func] = {}  # qualname -> Func (incl. methods)
        self.assigns: dict[str, ast.expr] = {}  # module-level NAME = expr (last wins)
        self.imports: dict[str, tuple] = {}  # local name -> (module dotted, attr|None)
        self.star_imports: list[str] = []
        for n in self.tree.body:
            self._top(n)
        for parent in ast.walk(self.tree):
            for ch in ast.iter_child_nodes(parent):
                ch._parent = parent  # type: ignore[attr-defined]

    @property
    def dotted(self):
        p = self.relpath[:-3].replace("/", ".")
        if p.endswith(".__init__"):
            p = p[: -len(".__init__")]
        return p

    def _pkg(self):
        d = self.dotted
        if self.relpath.endswith("__init__.py"):
            return d
        return d.rsplit(".", 1)[0]

    def _top(self, n):
        if isinstance(n, ast.ClassDef):
            c = Cls(self, n.name, n)
            for b in n.bases:
                if isinstance(b, ast.Name):
                    c.base_names.append(b.id)
                elif isinstance(b, ast.Attribute):
                    c.base_names.append(b.attr)
            for m in n.body:
                if isinstance(m, (ast.FunctionDef, ast.AsyncFunctionDef)):
                    f = Func(self, "%s.%s" % (n.name, m.name), m, c)
                    c.methods[m.name] = f
                    self.functions[f.qualname] = f
                elif isinstance(m, ast.Assign):
                    for t in m.targets:
                        if isinstance(t, ast.Name):
                            c.attrs[t.id] = m.value
                elif isinstance(m, ast.AnnAssign) and isinstance(m.target, ast.Name) and m.value is not None:
                    c.attrs[m.target.id] = m.value
            self.classes[n.name] = c
        elif isinstance(n, (ast.FunctionDef, ast.AsyncFunctionDef)):
            self.functions[n.name] = Func(self, n.name, n, None)
        elif isinstance(n, ast.Assign):
            for t in n.targets:
                if isinstance(t, ast.Name):
                    self.assigns[t.id] = n.value
        elif isinstance(n, ast.AnnAssign) and isinstance(n.target, ast.Name) and n.value is not None:
            self.assigns[n.target.id] = n.value
        elif isinstance(n, ast.Import):
            for a in n.names:
                self.imports[a.asname or a.name.split(".")[0]] = (a.name, None)
        elif isinstance(n, ast.ImportFrom):
            base = n.module or ""
            if n.level:
                pkg = self._pkg().split(".")
                if n.level > 1:
                    pkg = pkg[: -(n.level - 1)]
                base = ".".join(pkg + ([n.module] if n.module else []))
            for a in n.names:
                if a.name == "*":
                    self.star_imports.append(base)
                else:
                    self.imports[a.asname or a.name] = (base, a.name)
        elif isinstance(n, (ast.If, ast.Try)):
            for sub in ast.iter_child_nodes(n):
                if isinstance(sub, ast.stmt):
                    self._top(sub)

    # ---- resolution -------------------------------------------------
    def resolve_class(self, name, _seen=None):
        _seen = _seen or set()
        if (self.relpath, name) in _seen:
            return None
        _seen.add((self.relpath, name))
        if name in self.classes:
            return self.classes[name]
        if name in self.imports:
            mod, attr = self.imports[name]
            m = self.repo.by_dotted(mod)
            if m is not None and attr:
                return m.resolve_class(attr, _seen)
        for s in self.star_imports:
            m = self.repo.by_dotted(s)
            if m is not None:
                c = m.resolve_class(name, _seen)
                if c is not None:
                    return c
        return None

    def resolve_name(self, name, _seen=None):
        """-> ('class', Cls) | ('func', Func) | ('const', Module, expr) | ('module', Module) | None"""
        _seen = _seen or set()
        if (self.relpath, name) in _seen:
            return None
        _seen.add((self.relpath, name))
        if name in self.classes:
            return ("class", self.classes[name])
        if name in self.functions and "." not in name:
            return ("func", self.functions[name])
        if name in self.assigns:
            return ("const", self, self.assigns[name])
        if name in self.imports:
            mod, attr = self.imports[name]
            if attr is None:
                m = self.repo.by_dotted(mod)
                return ("module", m) if m else None
            m = self.repo.by_dotted(mod + "." + attr)
            if m is not None:
                return ("module", m)
            m = self.repo.by_dotted(mod)
            if m is not None:
                return m.resolve_name(attr, _seen)
            return None
        for s in self.star_imports:
            m = self.repo.by_dotted(s)
            if m is not None:
                r = m.resolve_name(name, _seen)
                if r is not None:
                    return r
        return None

    def func(self, qualname) -> Func:
        f = self.functions.get(qualname)
        if f is None:
            raise AnalysisError("anchor vanished: %s:%s" % (self.relpath, qualname))
        return f

    def cls(self, name) -> Cls:
        c = self.classes.get(name)
        if c is None:
            raise AnalysisError("anchor vanished: class %s in %s" % (name, self.relpath))
        return c

    def src(self, node):
        return ast.unparse(node)


class Repo:
    def __init__(self, root):
        self.root = os.path.abspath(root)
        self.modules: dict[str, Module] = {}
        self.consulted: set[str] = set()
        pkg = os.path.join(self.root, "androguard")
        if not os.path.isdir(pkg):
            raise AnalysisError("no androguard package under %s" % self.root)
        for dp, dn, fn in os.walk(pkg):
            dn[:] = [d for d in dn if d != "__pycache__"]
            for f in sorted(fn):
                if f.endswith(".py"):
                    full = os.path.join(dp, f)
                    rel = os.path.relpath(full, self.root)
                    with open(full, encoding="utf-8") as fh:
                        text = fh.read()
                    try:
                        self.modules[rel] = Module(self, rel, text)
                    except SyntaxError as e:
                        raise AnalysisError("cannot parse %s: %s" % (rel, e))
        self._dotted = {m.dotted: m for m in self.modules.values()}

    def by_dotted(self, dotted):
        return self._dotted.get(dotted)

    def mod(self, relpath) -> Module:
        m = self.modules.get(relpath)
        if m is None:
            raise AnalysisError("anchor vanished: module %s" % relpath)
        self.consulted.add(relpath)
        return m

    def all_functions(self):
        for m in self.modules.values():
            yield from m.functions.values()


# convenient names
DEX = "androguard/core/dex/__init__.py"
DEX_TYPES = "androguard/core/dex/dex_types.py"
ANALYSIS = "androguard/core/analysis/analysis.py"
AXML = "androguard/core/axml/__init__.py"
AXML_TYPES = "androguard/core/axml/types.py"
APK = "androguard/core/apk/__init__.py"


def norm(node) -> str:
    """normalised source of a construct (key for findings; no line numbers)."""
    if isinstance(node, str):
        return " ".join(node.split())
    return " ".join(ast.unparse(node).split())


def clone(node):
    """deep copy of an AST subtree that does not follow the `_parent` back-links
    (copy.deepcopy would copy the whole module through them)"""
    if isinstance(node, ast.AST):
        new = type(node).__new__(type(node))
        for f in node._fields:
            if hasattr(node, f):
                setattr(new, f, clone(getattr(node, f)))
        for a in node._attributes:
            if hasattr(node, a):
                setattr(new, a, getattr(node, a))
        return new
    if isinstance(node, list):
        return [clone(x) for x in node]
    return node


def parent(node):
    return getattr(node, "_parent", None)


def enclosing_stmt(node):
    n = node
    while n is not None and not isinstance(n, ast.stmt):
        n = parent(n)
    return n


def walk_no_nested(node):
    """ast.walk that does not descend into nested function/class definitions
    (but yields the root even if it is one)."""
    stack = [node]
    first = True
    while stack:
        n = stack.pop()
        if not first and isinstance(n, (ast.FunctionDef, ast.AsyncFunctionDef, ast.ClassDef, ast.Lambda)):
            continue
        first = False
        yield n
        stack.extend(ast.iter_child_nodes(n))


def calls_in(node, include_nested=False):
    it = ast.walk(node) if include_nested else walk_no_nested(node)
    return [n for n in it if isinstance(n, ast.Call)]


def call_name(call):
    """'f' for f(...), 'x.y.m' dotted for attribute chains, else None"""
    return dotted(call.func)


def dotted(e):
    if isinstance(e, ast.Name):
        return e.id
    if isinstance(e, ast.Attribute):
        b = dotted(e.value)
        return None if b is None else b + "." + e.attr
    return None
