"""Persistent mutable state ("history dependence") scan.

Every claimed property is of the form "for every input, the observed result is the specified function of that input".
That can only hold if the result does not depend on what the process did before.  State that outlives a call -- a
module-level container mutated inside a function, a class-level attribute written through the class (or through an
instance that never rebinds it), a mutable default argument used as storage, a caching decorator -- makes the result of
a later call a function of the call history.  The abstract executions of the rules start every scenario from a fresh
state and therefore cannot see this; this module finds such state *statically* and reports, for every site,

  * where it lives and which function writes it,
  * which functions read it,
  * and, where it is a keyed store, whether the key determines the stored value (`key_verdict`).

It decides nothing by itself: `check_sites` (used by the driver for every property) compares the sites in the call
closure of a property's analysed functions with the table of sites confirmed by reading on the pinned tree
(`KNOWN_STATE`, one line of reason each).  A new site is

  * a VIOLATION only when the key of a keyed store provably omits an input the stored value depends on
    (a parameter of the storing function, or -- for one store shared by several wrapped functions -- the function),
  * otherwise an analysis error (exit 2): history independence is not established, the checker refuses to certify.
"""
from __future__ import annotations

import ast
from dataclasses import dataclass, field

from .model import walk_no_nested

MUTATORS = {"append", "extend", "insert", "add", "update", "setdefault", "pop", "popitem", "remove", "discard", "clear",
            "sort", "reverse", "appendleft", "extendleft", "popleft", "move_to_end", "__setitem__", "__delitem__"}
CONTAINER_CALLS = {"dict", "list", "set", "defaultdict", "OrderedDict", "deque", "Counter", "bytearray", "WeakValueDictionary",
                   "WeakKeyDictionary", "ChainMap",
                   # iterator objects are state as well: every next() advances them for the rest of the process
                   "count", "cycle", "iter", "chain", "repeat", "islice"}
TRANSPARENT_DECORATORS = {"staticmethod", "classmethod", "property", "abstractmethod", "overload", "final", "wraps", "setter", "getter",
                          "deleter", "dataclass", "total_ordering", "contextmanager", "unique", "abstractproperty", "override"}
CACHE_DECORATORS = {"lru_cache", "cache", "cached_property"}


def is_container_expr(e):
    if isinstance(e, (ast.Dict, ast.List, ast.Set, ast.ListComp, ast.DictComp, ast.SetComp, ast.GeneratorExp)):
        return True
    if isinstance(e, ast.Call):
        f = e.func
        n = f.id if isinstance(f, ast.Name) else f.attr if isinstance(f, ast.Attribute) else None
        return n in CONTAINER_CALLS
    return False


@dataclass
class Site:
    kind: str            # module-state | class-state | mutable-default | cache-decorator | closure-state
    module: str          # relpath
    state: str           # dotted name of the state
    writer: str          # qualname of the function that writes it
    line: int
    op: str              # normalised text of the writing construct
    readers: list = field(default_factory=list)
    key_verdict: str = "n/a"     # sufficient | insufficient | unknown | n/a
    key_detail: str = ""
    shared_by: list = field(default_factory=list)   # functions wrapped by one shared store

    def key(self):
        return (self.module, self.state, self.writer)


def _deco_name(d):
    if isinstance(d, ast.Call):
        d = d.func
    if isinstance(d, ast.Name):
        return d.id
    if isinstance(d, ast.Attribute):
        return d.attr
    return None


def _local_names(fn):
    """names bound locally in a function (parameters, assignments, loop targets ...) minus those declared global"""
    a = fn.args
    names = {x.arg for x in a.posonlyargs + a.args + a.kwonlyargs}
    if a.vararg:
        names.add(a.vararg.arg)
    if a.kwarg:
        names.add(a.kwarg.arg)
    glob = set()
    for n in walk_no_nested(fn):
        if isinstance(n, (ast.Global, ast.Nonlocal)):
            glob.update(n.names)
        elif isinstance(n, ast.Name) and isinstance(n.ctx, (ast.Store, ast.Del)):
            names.add(n.id)
        elif isinstance(n, (ast.FunctionDef, ast.AsyncFunctionDef, ast.ClassDef)) and n is not fn:
            names.add(n.name)
        elif isinstance(n, ast.ExceptHandler) and n.name:
            names.add(n.name)
        elif isinstance(n, (ast.Import, ast.ImportFrom)):
            for al in n.names:
                names.add((al.asname or al.name).split(".")[0])
    return names - glob, glob


def _target_root(node):
    """for X[...]..., X.attr...: the innermost Name/Attribute chain that is subscripted/called"""
    while isinstance(node, ast.Subscript):
        node = node.value
    return node


def _mutations(fn):
    """yield (base_expr, op_text, node) for every container mutation / attribute store in a function body (nested defs excluded)"""
    for n in walk_no_nested(fn):
        if isinstance(n, (ast.Assign, ast.AugAssign, ast.AnnAssign, ast.Delete)):
            tgts = n.targets if isinstance(n, (ast.Assign, ast.Delete)) else [n.target]
            for t in tgts:
                for tt in (t.elts if isinstance(t, (ast.Tuple, ast.List)) else [t]):
                    if isinstance(tt, ast.Subscript):
                        yield _target_root(tt), "subscript-store", n
                    elif isinstance(tt, ast.Attribute):
                        yield tt, "attr-store", n
                    elif isinstance(tt, ast.Name) and isinstance(n, ast.AugAssign):
                        yield tt, "augassign", n
                    elif isinstance(tt, ast.Name):
                        yield tt, "rebind", n
        elif isinstance(n, ast.Call) and isinstance(n.func, ast.Attribute) and n.func.attr in MUTATORS:
            yield _target_root(n.func.value), "call:" + n.func.attr, n
        elif isinstance(n, ast.Call) and isinstance(n.func, ast.Name) and n.func.id == "next" and n.args:
            yield _target_root(n.args[0]), "call:next", n
        elif isinstance(n, ast.Call) and isinstance(n.func, ast.Attribute) and n.func.attr == "__next__":
            yield _target_root(n.func.value), "call:next", n


class Scanner:
    def __init__(self, repo, relpaths=None):
        self.repo = repo
        self.mods = [m for m in repo.modules.values()] if relpaths is None else [repo.modules[r] for r in relpaths if r in repo.modules]
        self.sites = []

    # ------------------------------------------------------------------
    def run(self):
        for m in self.mods:
            self._scan_module(m)
        self._readers()
        return self.sites

    def _functions(self, m):
        """(qualname, FunctionDef, Cls|None) for every function incl. nested ones"""
        out = []

        def rec(body, prefix, cls):
            for n in body:
                if isinstance(n, (ast.FunctionDef, ast.AsyncFunctionDef)):
                    q = prefix + n.name
                    out.append((q, n, cls))
                    rec(n.body, q + ".<locals>.", cls)
                elif isinstance(n, ast.ClassDef):
                    c = m.classes.get(n.name) if prefix == "" else None
                    rec(n.body, prefix + n.name + ".", c)
                elif isinstance(n, (ast.If, ast.Try, ast.With, ast.For, ast.While)):
                    for fld in ("body", "orelse", "finalbody", "handlers"):
                        sub = getattr(n, fld, [])
                        for s in sub:
                            if isinstance(s, ast.ExceptHandler):
                                rec(s.body, prefix, cls)
                        rec([s for s in sub if not isinstance(s, ast.ExceptHandler)], prefix, cls)
        rec(m.tree.body, "", None)
        return out

    def _module_level_names(self, m):
        names = {}
        for n in m.tree.body:
            if isinstance(n, ast.Assign):
                for t in n.targets:
                    if isinstance(t, ast.Name):
                        names[t.id] = n.value
            elif isinstance(n, ast.AnnAssign) and isinstance(n.target, ast.Name) and n.value is not None:
                names[n.target.id] = n.value
        return names

    def _instance_rebinds(self, cls):
        """attribute names assigned as self.<attr> = ... in any method of the class or its repository bases"""
        out = set()
        for c in cls.mro():
            for f in c.methods.values():
                for n in ast.walk(f.node):
                    if isinstance(n, (ast.Assign, ast.AnnAssign, ast.AugAssign)):
                        tgts = n.targets if isinstance(n, ast.Assign) else [n.target]
                        for t in tgts:
                            for tt in (t.elts if isinstance(t, (ast.Tuple, ast.List)) else [t]):
                                if isinstance(tt, ast.Attribute) and isinstance(tt.value, ast.Name) and tt.value.id == "self" and not isinstance(n, ast.AugAssign):
                                    out.add(tt.attr)
        return out

    def _class_ref(self, e, m, cls, local):
        """does expression e denote a class object?  -> Cls or None.  Forms: ClassName, cls (in classmethod), type(self), self.__class__"""
        if isinstance(e, ast.Name):
            if e.id == "cls" and cls is not None:
                return cls
            if e.id in local:
                return None
            r = m.resolve_name(e.id)
            if r and r[0] == "class":
                return r[1]
        if isinstance(e, ast.Call) and isinstance(e.func, ast.Name) and e.func.id == "type" and len(e.args) == 1 and isinstance(e.args[0], ast.Name) and e.args[0].id == "self":
            return cls
        if isinstance(e, ast.Attribute) and e.attr == "__class__" and isinstance(e.value, ast.Name) and e.value.id == "self":
            return cls
        return None

    def _class_attr_owner(self, c, attr):
        for k in c.mro():
            if attr in k.attrs:
                return k
        return None

    def _scan_module(self, m):
        modnames = self._module_level_names(m)
        funcs = self._functions(m)
        rebind_cache = {}
        for q, fn, cls in funcs:
            local, glob = _local_names(fn)
            # --- mutable defaults used as storage
            a = fn.args
            params = a.posonlyargs + a.args
            defaults = [None] * (len(params) - len(a.defaults)) + list(a.defaults)
            mut_defaults = {p.arg: d for p, d in list(zip(params, defaults)) + list(zip(a.kwonlyargs, a.kw_defaults)) if d is not None and is_container_expr(d)}
            for base, op, node in _mutations(fn):
                txt = " ".join(ast.unparse(node).split())[:160]
                if isinstance(base, ast.Name):
                    if base.id in mut_defaults and op != "rebind":
                        self._add("mutable-default", m, "%s(%s=)" % (q, base.id), q, node, txt, fn, base.id)
                    elif base.id in glob:
                        self._add("module-state", m, base.id, q, node, txt, fn, base.id)
                    elif base.id not in local and op != "rebind":
                        r = m.resolve_name(base.id)
                        if r and r[0] == "const":
                            self._add("module-state", r[1], base.id, q, node, txt, fn, base.id, src_module=m)
                elif isinstance(base, ast.Attribute):
                    owner = self._class_ref(base.value, m, cls, local)
                    if owner is not None:
                        k = self._class_attr_owner(owner, base.attr)
                        self._add("class-state", (k or owner).module, "%s.%s" % ((k or owner).name, base.attr), q, node, txt, fn, None, src_module=m)
                    elif isinstance(base.value, ast.Name) and base.value.id == "self" and cls is not None and op != "attr-store":
                        k = self._class_attr_owner(cls, base.attr)
                        if k is not None and is_container_expr(k.attrs[base.attr]):
                            if id(cls) not in rebind_cache:
                                rebind_cache[id(cls)] = self._instance_rebinds(cls)
                            if base.attr not in rebind_cache[id(cls)]:
                                self._add("class-state", k.module, "%s.%s" % (k.name, base.attr), q, node, txt, fn, None, src_module=m)
                    elif isinstance(base.value, ast.Name) and base.value.id not in local:
                        r = m.resolve_name(base.value.id)
                        if r and r[0] == "func" and op == "attr-store":
                            self._add("module-state", m, "%s.%s" % (base.value.id, base.attr), q, node, txt, fn, None)
                        elif r and r[0] == "module" and r[1] is not None and base.attr in self._module_level_names(r[1]):
                            self._add("module-state", r[1], base.attr, q, node, txt, fn, None, src_module=m)
            # --- decorators
            for d in fn.decorator_list:
                dn = _deco_name(d)
                if dn in TRANSPARENT_DECORATORS:
                    continue
                if dn in CACHE_DECORATORS:
                    s = self._add("cache-decorator", m, "%s@%s" % (q, dn), q, d, "@" + " ".join(ast.unparse(d).split())[:80], fn, None)
                    if s is not None and dn in ("lru_cache", "cache"):
                        decos = {_deco_name(x) for x in fn.decorator_list}
                        first = (fn.args.posonlyargs + fn.args.args)[:1]
                        plain = cls is None or "staticmethod" in decos
                        if plain and not (first and first[0].arg in ("self", "cls")):
                            # candidate for a transparent cache: keyed by ALL arguments of a function that has no receiver;
                            # confirmed in check_sites if the function reads no persistent state
                            s.key_verdict = "all-arguments"
                            s.key_detail = "functools.%s on a function without receiver: the key is the complete argument list" % dn
                            local, glob = _local_names(fn)
                            s.shared_by = sorted({n.id for n in walk_no_nested(fn) if isinstance(n, ast.Name) and isinstance(n.ctx, ast.Load) and n.id not in local} | set(glob))
                    continue
                # repository-defined decorator: closure / default-argument state of the decorator written by its wrapper
                base = d.func if isinstance(d, ast.Call) else d
                r = m.resolve_name(base.id) if isinstance(base, ast.Name) else None
                if r and r[0] == "func":
                    self._decorator_state(m, q, fn, d, r[1])
                elif dn is not None:
                    self._add("cache-decorator", m, "%s@%s" % (q, dn), q, d, "@" + " ".join(ast.unparse(d).split())[:80] + " (decorator not resolved in the repository)", fn, None)

    def _decorator_state(self, m, q, fn, d, deco):
        dfn = deco.node
        a = dfn.args
        params = a.posonlyargs + a.args
        defaults = [None] * (len(params) - len(a.defaults)) + list(a.defaults)
        shared = {p.arg for p, dv in list(zip(params, defaults)) + list(zip(a.kwonlyargs, a.kw_defaults)) if dv is not None and is_container_expr(dv)}
        per_func = set()
        for n in walk_no_nested(dfn):
            if isinstance(n, ast.Assign) and is_container_expr(n.value):
                for t in n.targets:
                    if isinstance(t, ast.Name):
                        per_func.add(t.id)
        for inner in ast.walk(dfn):
            if isinstance(inner, (ast.FunctionDef, ast.AsyncFunctionDef, ast.Lambda)) and inner is not dfn:
                if isinstance(inner, ast.Lambda):
                    continue
                il, _ = _local_names(inner)
                for base, op, node in _mutations(inner):
                    if isinstance(base, ast.Name) and base.id not in il and (base.id in shared or base.id in per_func) and op != "rebind":
                        kind = "mutable-default" if base.id in shared else "closure-state"
                        s = self._add(kind, deco.module, "%s(%s=)" % (deco.qualname, base.id) if base.id in shared else "%s.<locals>.%s" % (deco.qualname, base.id),
                                      "%s.<locals>.%s" % (deco.qualname, inner.name), node, " ".join(ast.unparse(node).split())[:160], inner, base.id, src_module=deco.module)
                        if s is not None and q not in s.shared_by:
                            s.shared_by.append(q)

    def _add(self, kind, module, state, writer, node, txt, fn, store_name, src_module=None):
        relpath = module.relpath if hasattr(module, "relpath") else module
        for s in self.sites:
            if s.kind == kind and s.module == relpath and s.state == state and s.writer == writer:
                return s
        s = Site(kind, relpath, state, writer, getattr(node, "lineno", 0), txt)
        if store_name is not None and kind in ("mutable-default", "closure-state", "module-state"):
            s.key_verdict, s.key_detail = key_sufficiency(fn, store_name)
        elif kind == "class-state":
            s.key_verdict, s.key_detail = key_sufficiency(fn, None, attr=state.split(".")[-1])
        self.sites.append(s)
        return s

    def _readers(self):
        """functions that read each state (a Load of the module-level name / class attribute outside the writers' own mutation)"""
        by_mod = {}
        for s in self.sites:
            by_mod.setdefault(s.module, []).append(s)
        for m in self.mods:
            sites = by_mod.get(m.relpath)
            if not sites:
                continue
            for q, fn, cls in self._functions(m):
                local, glob = _local_names(fn)
                for n in walk_no_nested(fn):
                    if isinstance(n, ast.Name) and isinstance(n.ctx, ast.Load):
                        for s in sites:
                            if s.kind == "module-state" and s.state == n.id and (n.id not in local or n.id in glob) and q not in s.readers:
                                s.readers.append(q)
                    elif isinstance(n, ast.Attribute) and isinstance(n.ctx, ast.Load):
                        for s in sites:
                            if s.kind == "class-state" and s.state.split(".")[-1] == n.attr and q not in s.readers:
                                s.readers.append(q)


# ---------------------------------------------------------------------------------------------------------------------
def _names_in(e):
    return {n.id for n in ast.walk(e) if isinstance(n, ast.Name)}


def key_sufficiency(fn, store, attr=None):
    """For a keyed store `S[k] = v` / `S.setdefault(k, v)` / `S.add(k)` guarded by `k in S` / `S.get(k)` inside `fn`:
    does every parameter of `fn` that `v` (or the computation the membership test skips) depends on also occur in `k`?
    Local def-use is followed (`k = (a, b)`; `v = f(x)`).  -> ('sufficient'|'insufficient'|'unknown', detail)"""
    if isinstance(fn, ast.Lambda):
        return "unknown", ""

    def is_store(e):
        if store is not None:
            return isinstance(e, ast.Name) and e.id == store
        return isinstance(e, ast.Attribute) and e.attr == attr

    a = fn.args
    params = [x.arg for x in a.posonlyargs + a.args + a.kwonlyargs if x.arg not in ("self", "cls")]
    if a.vararg:
        params.append(a.vararg.arg)
    if a.kwarg:
        params.append(a.kwarg.arg)
    # def-use: local name -> set of parameters it may depend on (flow-insensitive fixpoint; `self` state counts as the pseudo parameter 'self')
    deps = {p: {p} for p in params}
    has_self = any(x.arg == "self" for x in a.posonlyargs + a.args)
    if has_self:
        deps["self"] = {"self"}
    assigns = []
    for n in walk_no_nested(fn):
        if isinstance(n, ast.Assign):
            for t in n.targets:
                for tt in (t.elts if isinstance(t, (ast.Tuple, ast.List)) else [t]):
                    if isinstance(tt, ast.Name):
                        assigns.append((tt.id, n.value))
        elif isinstance(n, ast.AugAssign) and isinstance(n.target, ast.Name):
            assigns.append((n.target.id, n.value))
        elif isinstance(n, (ast.For, ast.comprehension)):
            for tt in ast.walk(n.target):
                if isinstance(tt, ast.Name):
                    assigns.append((tt.id, n.iter))
        elif isinstance(n, ast.NamedExpr):
            assigns.append((n.target.id, n.value))
        elif isinstance(n, ast.withitem) and n.optional_vars is not None and isinstance(n.optional_vars, ast.Name):
            assigns.append((n.optional_vars.id, n.context_expr))
    changed = True
    while changed:
        changed = False
        for name, val in assigns:
            d = set()
            for x in _names_in(val):
                if is_store(ast.Name(id=x)) if store is not None else False:
                    continue
                d |= deps.get(x, set())
            if not d <= deps.get(name, set()):
                deps[name] = deps.get(name, set()) | d
                changed = True

    def dep(e):
        out = set()
        for x in _names_in(e):
            if store is not None and x == store:
                continue
            out |= deps.get(x, set())
        return out

    keys, vals = [], []
    for n in walk_no_nested(fn):
        if isinstance(n, ast.Assign):
            for t in n.targets:
                if isinstance(t, ast.Subscript) and is_store(t.value):
                    keys.append(t.slice)
                    vals.append(n.value)
        elif isinstance(n, ast.Call) and isinstance(n.func, ast.Attribute) and is_store(n.func.value):
            if n.func.attr == "setdefault" and len(n.args) == 2:
                keys.append(n.args[0])
                vals.append(n.args[1])
            elif n.func.attr == "add" and len(n.args) == 1:
                keys.append(n.args[0])
    if not keys:
        return "unknown", "no keyed store recognised"
    kd = set()
    for k in keys:
        kd |= dep(k)
    vd = set()
    for v in vals:
        vd |= dep(v)
    # what the function returns also depends on the hit/miss decision: everything the returned values depend on
    for n in walk_no_nested(fn):
        if isinstance(n, ast.Return) and n.value is not None:
            vd |= dep(n.value)
    # a call through a free variable of an enclosing decorator (`func(*args)`) depends on that function
    free_calls = set()
    for n in walk_no_nested(fn):
        if isinstance(n, ast.Call) and isinstance(n.func, ast.Name) and n.func.id not in deps and n.func.id not in __builtins_names__:
            free_calls.add(n.func.id)
    missing = sorted(vd - kd)
    detail = "key depends on {%s}; stored/returned value depends on {%s}" % (", ".join(sorted(kd)), ", ".join(sorted(vd)))
    key_names = set()
    for k in keys:
        key_names |= _names_in(k)
        for x in list(_names_in(k)):
            for nm, val in assigns:
                if nm == x:
                    key_names |= _names_in(val)
    if free_calls and free_calls & key_names:
        detail += "; key names the wrapped function"
    if missing:
        return "insufficient", detail + "; not in the key: " + ", ".join(missing)
    if free_calls:
        return "sufficient-per-function", detail + "; the value is computed by the enclosing free variable(s) %s" % ", ".join(sorted(free_calls))
    return "sufficient", detail


__builtins_names__ = set(dir(__builtins__)) if not isinstance(__builtins__, dict) else set(__builtins__)


# ---------------------------------------------------------------------------------------------------------------------
# Persistent state confirmed by reading on the pinned tree: (module, state) -> reason it does not make a claimed result history dependent
KNOWN_STATE = {
    ("androguard/core/androconf.py", "Configuration.instance"):
        "the process-wide configuration singleton (CONF); set once to default_conf; C36/C39 read it as an explicit input of the property",
    ("androguard/core/androconf.py", "CONF"):
        "the configuration object itself: CONF[key] = value is the documented way to configure the library (misc.get_default_session stores the default session)",
    ("androguard/core/androconf.py", "default_conf"):
        "backing dict of the configuration singleton",
    ("androguard/core/axml/__init__.py", "ARSCResTableConfig.DEFAULT"):
        "lazily created constant: ARSCResTableConfig(None) takes no input, every call returns an equal default configuration",
    ("androguard/decompiler/node.py", "MakeProperties._attrs"):
        "metaclass __init__: runs once per class definition at import time, value is a function of the class body only",
}


def relevant_sites(repo, root_funcs, cg=None, module_scope=()):
    """persistent-state sites written or read inside the call closure of `root_funcs` (Func objects), or wrapping one of them"""
    from .callgraph import CallGraph
    cg = cg or CallGraph(repo)
    closure = cg.closure([f for f in root_funcs if f is not None])
    names = {}
    for f in closure:
        names.setdefault(f.module.relpath, set()).add(f.qualname)
    sites = Scanner(repo).run()
    relevant_sites.last_all = sites
    out = []
    for s in sites:
        def inside(q, mod):
            qs = names.get(mod, ())
            return q in qs or q.split(".<locals>.")[0] in qs
        hit = s.module in module_scope or inside(s.writer, s.module) or any(inside(q, m) for m in names for q in s.shared_by) or any(inside(q, s.module) for q in s.readers)
        if not hit:
            # writer may live in another module than the state (CONF mutated from misc.py)
            hit = any(s.writer in qs or s.writer.split(".<locals>.")[0] in qs for qs in names.values())
        if hit:
            out.append(s)
    return out, closure


# entry points whose call closure is part of a property's scope although the rule itself does not evaluate them
EXTRA_ROOTS = {
    # C22 is about the text a whole decompilation produces: anything the decompiler entry points reach can make it history dependent
    "C22": [("androguard/decompiler/decompile.py", "DvMethod.process"), ("androguard/decompiler/decompile.py", "DvClass.process"),
            ("androguard/decompiler/decompile.py", "DvMethod.get_source"), ("androguard/decompiler/decompile.py", "DvClass.get_source")],
}


def roots_of(ctx, cg):
    """(Func objects of the analysed functions the call graph knows, relpaths of modules holding analysed functions it does not know
    -- methods of nested classes, nested functions: for those the whole module is taken as the scope)"""
    out, loose = [], set()
    for fq in sorted(ctx.functions_analysed):
        rel, _, q = fq.partition(":")
        try:
            f = cg.func(rel, q)
        except Exception:
            f = None
        if f is not None:
            out.append(f)
        else:
            loose.add(rel)
    for rel, q in EXTRA_ROOTS.get(ctx.prop, ()):
        try:
            f = cg.func(rel, q)
        except Exception:
            f = None
        if f is None:
            from .model import AnalysisError
            raise AnalysisError("history-independence pass: entry point %s:%s vanished" % (rel, q))
        out.append(f)
    return out, loose


def check_sites(ctx, roots=None):
    """driver hook: called after a rule ran.  New persistent state in the closure of the analysed functions:
    key provably insufficient -> finding (exit 1); otherwise AnalysisError (exit 2, history independence not established)."""
    from .model import AnalysisError
    from .callgraph import CallGraph
    cg = CallGraph(ctx.repo)
    loose = set()
    if roots is None:
        roots, loose = roots_of(ctx, cg)
    if not roots and not loose:
        raise AnalysisError("history-independence pass: the rule recorded no analysed function (ctx.analysed) to take the call closure of")
    sites, closure = relevant_sites(ctx.repo, roots, cg, loose)
    all_sites = relevant_sites.last_all
    ctx.extra["history_scope_functions"] = len(closure)
    ctx.extra["persistent_state_sites"] = ["%s %s::%s written by %s" % (s.kind, s.module, s.state, s.writer) for s in sites]
    undecided = []
    for s in sites:
        if (s.module, s.state) in KNOWN_STATE:
            ctx.ob("history-independence", "%s::%s" % (s.module, s.state), True, "known state: " + KNOWN_STATE[(s.module, s.state)])
            continue
        # one store (a default argument of the decorator, created once) serving several wrapped functions under a key that
        # does not name the function: a value computed by one function is handed out for another.  This is the only case
        # reported as a violation; may-dependence of the value on a parameter missing from the key is NOT (the dependence
        # can be spurious, e.g. a verbosity flag) -- it is reported as undecided.
        shared = len(s.shared_by) > 1 and s.kind == "mutable-default"
        if shared and s.key_verdict in ("sufficient-per-function", "insufficient") and "key names the wrapped function" not in s.key_detail:
            ctx.check("history-independence", "%s::%s" % (s.module, s.state), False, s.writer, "%s %s" % (s.kind, s.state),
                      "result depends on the call history: the store %s (%s) is created once and shared by the wrapped functions %s, but its key does not "
                      "name the function: a value cached by one of them is returned by the other for an equal key (%s)" % (
                          s.state, s.op, ", ".join(s.shared_by), s.key_detail), file=s.module)
        elif s.kind == "cache-decorator" and s.key_verdict == "all-arguments" and not (
                set(s.shared_by) & {x.state for x in all_sites if x.kind == "module-state" and x.module == s.module}):
            ctx.ob("history-independence", "%s::%s" % (s.module, s.state), True,
                   "transparent cache: %s, and the function reads no module-level state that any function mutates" % s.key_detail)
        elif s.key_verdict == "sufficient" or (s.key_verdict == "sufficient-per-function" and (len(s.shared_by) <= 1 or "key names the wrapped function" in s.key_detail)):
            ctx.ob("history-independence", "%s::%s" % (s.module, s.state), True, "keyed store whose key covers every input of the stored value: " + s.key_detail)
        else:
            undecided.append(s)
    ctx.count("history_sites_examined", len(sites))
    if undecided:
        s = undecided[0]
        raise AnalysisError("history independence is not established: %s %s::%s is written by %s (%s) and outlives the call%s; key analysis: %s %s" % (
            s.kind, s.module, s.state, s.writer, s.op[:100], (", read by " + ", ".join(s.readers[:4])) if s.readers else "", s.key_verdict, s.key_detail[:200]))
