"""C04 -- encoded constant values keep their declared width and signedness.

Rule: EncodedValue.__init__ is abstractly interpreted for every header byte
(value_type 0..31 x value_arg 0..7) over a stream of symbolic bytes.  For each
type the DEX specification defines, the reported value must be: the
little-endian integer of value_arg+1 bytes sign-extended (BYTE/SHORT/INT/LONG)
or zero-extended (CHAR); the item resolved through the right ClassManager
accessor from the zero-extended index (STRING/TYPE/FIELD/METHOD/ENUM); a nested
EncodedArray/EncodedAnnotation parsed from the same stream; None; or the
boolean held in value_arg -- and exactly the declared bytes must be consumed.
ClassDataItem.set_static_fields must bind value i to static field i, and the
conversion DvClass.get_source applies before printing a field initialiser is
interpreted on the reader's abstract value: what is printed must be the
specified (signed) value.
"""
from __future__ import annotations

import ast

from ..absint import Interp, Sym, StreamV, BufV, BytesV, Obj, Raised, explore, show, is_exact
from ..bits import bits_relation
from ..bits import Bits
from ..consts import Folder, Unknown
from ..model import DEX, AnalysisError, walk_no_nested

# DEX format, "encoded_value encoding" (source.android.com/docs/core/runtime/dex-format)
# type -> (name, max value_arg, kind)
SPEC = {
    0x00: ("VALUE_BYTE", 0, "sint"),
    0x02: ("VALUE_SHORT", 1, "sint"),
    0x03: ("VALUE_CHAR", 1, "uint"),
    0x04: ("VALUE_INT", 3, "sint"),
    0x06: ("VALUE_LONG", 7, "sint"),
    0x10: ("VALUE_FLOAT", 3, "float"),
    0x11: ("VALUE_DOUBLE", 7, "float"),
    0x15: ("VALUE_METHOD_TYPE", 3, "other"),
    0x16: ("VALUE_METHOD_HANDLE", 3, "other"),
    0x17: ("VALUE_STRING", 3, "string"),
    0x18: ("VALUE_TYPE", 3, "type"),
    0x19: ("VALUE_FIELD", 3, "field"),
    0x1A: ("VALUE_METHOD", 3, "method"),
    0x1B: ("VALUE_ENUM", 3, "field"),
    0x1C: ("VALUE_ARRAY", 0, "array"),
    0x1D: ("VALUE_ANNOTATION", 0, "annotation"),
    0x1E: ("VALUE_NULL", 0, "null"),
    0x1F: ("VALUE_BOOLEAN", 1, "bool"),
}
ACCESSORS = {"string": {"get_raw_string", "get_string"}, "type": {"get_type"}, "field": {"get_field"}, "method": {"get_method"}}
NESTED = {"array": "EncodedArray", "annotation": "EncodedAnnotation"}
# Java field descriptor letter -> encoded value type that initialises it
PROTO_OF = {"B": 0x00, "S": 0x02, "C": 0x03, "I": 0x04, "J": 0x06}


def _spec_int(nbytes, signed, asg):
    bl = []
    for k in range(1, 1 + nbytes):
        for i in range(8):
            key = ("s", k, i)
            bl.append(asg.get(key, key))
    return Bits.source(bl, signed)


ACCESSOR_NAMES = {a for v in ACCESSORS.values() for a in v}


def _cm_method(it, recv, name, args, kwargs, e, func):
    if isinstance(recv, Obj) and recv.name == "cm" and name in ACCESSOR_NAMES:
        return Sym("call", Sym("attr", Sym("cm"), name), *args)
    return NotImplemented


def _cm_func(it, target, args, kwargs, e, func):
    # the same accessors reached as values (getattr(cm, name)(idx), a bound method kept in a table ...)
    if target.qualname.startswith("ClassManager.") and target.qualname.split(".")[-1] in ACCESSOR_NAMES:
        return Sym("call", Sym("attr", Sym("cm"), target.qualname.split(".")[-1]), *args)
    return NotImplemented


def _cm_attr(it, base, name, func):
    if isinstance(base, Obj) and base.name == "cm" and name == "packer":
        return Sym("attr", Sym("cm"), "packer")   # the struct table of the DEX, as for a plain symbolic ClassManager
    return NotImplemented


def _new_cm(it, m):
    """the ClassManager the values are decoded with: an object of the repository's class initialised by its real __init__ (vm=None), so that
    whatever the code keeps on the ClassManager (tables, caches) behaves as written; the four id accessors stay symbolic"""
    cmcls = m.cls("ClassManager")
    if cmcls is None:
        return Sym("cm")
    cm = Obj(cmcls, "cm")
    f = cmcls.lookup("__init__")
    if f is not None:
        it.call_function(f, [None], recv=cm)
    return cm


def _hooks():
    return {"inline_funcs": {"*module*"}, "method": _cm_method, "attr": _cm_attr, "func": _cm_func,
            # helper classes introduced by refactorings are instantiated for real; the nested item classes of the format stay symbolic
            "construct_module_classes": True, "construct_opaque": set(NESTED.values()) | {"EncodedValue", "ClassManager"}}


def run(ctx):
    ctx.explanation = __doc__
    repo = ctx.repo
    m = ctx.mod(DEX)
    folder = Folder(repo)
    cls = m.cls("EncodedValue")
    init = cls.lookup("__init__")
    ctx.require(init is not None, "EncodedValue.__init__ vanished")
    ctx.analysed(init)
    gi = cls.lookup("_getintvalue")
    if gi is not None:
        ctx.analysed(gi)
    # the repository's VALUE_* constants must be the specification's numbers
    for t, (name, _, _) in SPEC.items():
        if name in ("VALUE_METHOD_TYPE", "VALUE_METHOD_HANDLE"):
            continue
        v = folder.global_(m, name)
        ctx.check("constants", name, not isinstance(v, Unknown) and v == t, "module", "%s = %s" % (name, v if not isinstance(v, Unknown) else "?"),
                  "%s is 0x%02x in the DEX specification, the module says %r" % (name, t, v), file=m.relpath)

    reader_values = {}
    for t, (name, maxarg, kind) in sorted(SPEC.items()):
        if kind in ("float", "other"):
            continue
        for arg in range(maxarg + 1):
            ctx.count("headers")
            _check_header(ctx, repo, folder, m, cls, init, t, name, arg, kind, reader_values)
    ctx.floor("headers", 32)
    ctx.note("VALUE_FLOAT/VALUE_DOUBLE (source says TODO; the statement does not list them) and VALUE_METHOD_TYPE/VALUE_METHOD_HANDLE are not decided")

    get_value = cls.lookup("get_value")
    ctx.require(get_value is not None, "EncodedValue.get_value vanished")
    ok = any(isinstance(n, ast.Return) and n.value is not None and ast.unparse(n.value) == "self.value" for n in ast.walk(get_value.node))
    ctx.check("getter", "EncodedValue.get_value returns self.value", ok, get_value, "EncodedValue.get_value", "get_value() no longer returns the decoded value")

    _check_ref_sequence(ctx, repo, folder, m, cls, init)
    _check_binding(ctx, m)
    _check_class_binding(ctx, m)
    _check_printing(ctx, repo, folder, reader_values)


def _check_header(ctx, repo, folder, m, cls, init, t, name, arg, kind, reader_values):
    hdr = (arg << 5) | t
    nbytes = arg + 1

    def run(asg):
        a = dict(asg)
        for i in range(8):
            a[("s", 0, i)] = (hdr >> i) & 1
        it = Interp(repo, folder, asg=a, hooks=_hooks())
        it.max_split = 4
        st = StreamV("buff")
        o = it.new_obj(cls)
        it.call_function(init, [st, _new_cm(it, m)], recv=o)
        return a, o, st

    inst = "%s value_arg=%d" % (name, arg)
    res = explore(run)
    for asg0, r in res:
        if isinstance(r, Raised):
            ctx.check("accepts", inst, False, init, inst, "EncodedValue raises %s for header 0x%02x (%s)" % (r, hdr, inst), node=r.node)
            continue
        asg, o, st = r
        val = o.attrs.get("value")
        if kind in ("sint", "uint"):
            exp = _spec_int(nbytes, kind == "sint", asg)
            got = Bits.const(val) if isinstance(val, int) and not isinstance(val, bool) else val
            if not is_exact(got) and not (isinstance(got, Bits) and bits_relation(got.subst(asg), exp) == "different"):
                raise AnalysisError("EncodedValue.__init__: the value of %s leaves the exact bit domain (%s)" % (inst, show(got)[:160]))
            ok = isinstance(got, Bits) and got.subst(asg) == exp
            ctx.check("int-value", inst, ok, init, "%s/%d byte(s): %s" % (name, nbytes, show(got)[:120]),
                      "%s with %d byte(s) is reported as %s; the DEX specification says %s (%s-extended)" % (
                          name, nbytes, show(got)[:200], exp.describe(), "sign" if kind == "sint" else "zero"),
                      detail="= %s" % exp.describe())
            ctx.check("consumed", inst, st.pos == 1 + nbytes, init, "%s size" % name,
                      "%s with value_arg=%d consumes %s bytes after the header, expected %d" % (name, arg, st.pos - 1 if isinstance(st.pos, int) else st.pos, nbytes))
            reader_values[(t, arg)] = (got, exp, asg)
        elif kind in ACCESSORS:
            exp = _spec_int(nbytes, False, asg)
            ok = False
            why = show(val)[:200]
            if isinstance(val, Sym) and not (val.op == "call" and val.args and isinstance(val.args[0], Sym) and val.args[0].op == "attr" and val.args[0].args[0] == Sym("cm")):
                raise AnalysisError("EncodedValue.__init__: the value of %s is a term the rule cannot read (%s)" % (inst, why))
            if isinstance(val, Sym) and val.op == "call" and val.args and isinstance(val.args[0], Sym) and val.args[0].op == "attr":
                recv, meth = val.args[0].args[0], val.args[0].args[1]
                idx = val.args[1] if len(val.args) > 1 else None
                idxb = Bits.const(idx) if isinstance(idx, int) else idx
                ok = (recv == Sym("cm") and meth in ACCESSORS[kind] and isinstance(idxb, Bits) and idxb.subst(asg) == exp)
            ctx.check("ref-value", inst, ok, init, name,
                      "%s must resolve index %s through cm.%s; got %s" % (name, exp.describe(), "/".join(sorted(ACCESSORS[kind])), why),
                      detail="cm.%s(%s)" % ("/".join(sorted(ACCESSORS[kind])), exp.describe()))
            ctx.check("consumed", inst, st.pos == 1 + nbytes, init, "%s size" % name,
                      "%s with value_arg=%d consumes %s bytes after the header, expected %d" % (name, arg, st.pos, nbytes))
        elif kind in NESTED:
            ok = isinstance(val, Sym) and val.op == "new" and val.args[0] == NESTED[kind] and len(val.args) >= 3 and isinstance(val.args[1], StreamV) and (val.args[2] == Sym("cm") or (isinstance(val.args[2], Obj) and val.args[2].name == "cm"))
            ctx.check("nested-value", inst, ok, init, name, "%s must be parsed as %s(buff, cm) from the same stream; got %s" % (name, NESTED[kind], show(val)[:120]))
        elif kind == "null":
            ctx.check("null-value", inst, val is None and st.pos == 1, init, name, "VALUE_NULL must be None and consume no bytes; got %s" % show(val))
        elif kind == "bool":
            ctx.check("bool-value", inst, val is bool(arg) and st.pos == 1, init, name,
                      "VALUE_BOOLEAN with value_arg=%d must be %s and consume no bytes; got %s" % (arg, bool(arg), show(val)))

def _check_ref_sequence(ctx, repo, folder, m, cls, init):
    """Two index-typed values of DIFFERENT kinds with the SAME index are decoded one after the other from one stream with one
    ClassManager (constructed by its real __init__, so whatever the code keeps on it is shared): the second value must still be
    resolved through its own accessor.  (A reference memo whose key does not name the id table hands out the first item.)"""
    ctx.require(m.cls("ClassManager") is not None, "ClassManager vanished")
    refs = [(t, name, kind) for t, (name, _, kind) in sorted(SPEC.items()) if kind in ACCESSORS]

    for (ta, na, ka), (tb, nb, kb) in [(a, b) for a in refs for b in refs if a[0] != b[0]]:
        if ACCESSORS[ka] == ACCESSORS[kb]:
            continue   # VALUE_FIELD / VALUE_ENUM are both indices into field_ids
        inst = "%s then %s with the same index" % (na, nb)
        ctx.count("ref_sequences")

        def run(asg, ta=ta, tb=tb):
            a = dict(asg)
            it = Interp(repo, folder, asg=a, hooks=_hooks())
            it.max_split = 4
            idx = [a.get(("s", "i", i), ("s", "i", i)) for i in range(8)]
            backing = BytesV([[(ta >> i) & 1 for i in range(8)], list(idx), [(tb >> i) & 1 for i in range(8)], list(idx)])
            st = StreamV("buff", backing=backing)
            cm = _new_cm(it, m)
            first = it.new_obj(cls)
            it.call_function(init, [st, cm], recv=first)
            second = it.new_obj(cls)
            it.call_function(init, [st, cm], recv=second)
            return a, second.attrs.get("value"), st.pos

        for asg0, r in explore(run):
            if isinstance(r, Raised):
                ctx.check("ref-sequence", inst, False, init, inst, "EncodedValue raises %s when %s" % (r, inst), node=r.node)
                continue
            asg, val, pos = r
            exp = Bits.source([asg.get(("s", "i", i), ("s", "i", i)) for i in range(8)], False)
            if not (isinstance(val, Sym) and val.op == "call" and val.args and isinstance(val.args[0], Sym) and val.args[0].op == "attr" and val.args[0].args[0] == Sym("cm")):
                raise AnalysisError("EncodedValue.__init__: the value of the second item (%s) is a term the rule cannot read (%s)" % (inst, show(val)[:160]))
            meth = val.args[0].args[1]
            idx = val.args[1] if len(val.args) > 1 else None
            idxb = Bits.const(idx) if isinstance(idx, int) and not isinstance(idx, bool) else idx
            ok = meth in ACCESSORS[kb] and isinstance(idxb, Bits) and idxb.subst(asg) == exp.subst(asg)
            ctx.check("ref-sequence", inst, ok, init, "%s after %s" % (nb, na),
                      "%s decoded after a %s with the same index is resolved as %s; it must be cm.%s(index)" % (nb, na, show(val)[:120], "/".join(sorted(ACCESSORS[kb]))),
                      detail="second item resolved through cm.%s" % "/".join(sorted(ACCESSORS[kb])))
    ctx.floor("ref_sequences", 10)


def _check_binding(ctx, m):
    """ClassDataItem.set_static_fields is executed abstractly on marker fields F0..F2 and marker values:
    value i must be bound to static field i (and to nothing else)."""
    repo = ctx.repo
    folder = Folder(repo)
    cdi = m.cls("ClassDataItem")
    f = cdi.lookup("set_static_fields")
    ctx.require(f is not None, "ClassDataItem.set_static_fields vanished")
    ctx.analysed(f)

    class _Mark:
        def __init__(self, name):
            self.name = name

        def __repr__(self):
            return self.name

    for nvals in (0, 1, 2, 3):
        fields = [_Mark("F%d" % k) for k in range(3)]
        inst_fields = [_Mark("I%d" % k) for k in range(2)]
        vals = [_Mark("V%d" % k) for k in range(nvals)]
        bound = []

        def method(it, recv, name, args, kwargs, e, func):
            if isinstance(recv, _Mark):
                if name == "set_init_value" and args:
                    bound.append((recv, args[0]))
                    return None
                return Sym("%s.%s" % (recv.name, name))
            if isinstance(recv, Obj) and recv.name == "encoded_array" and name == "get_values":
                return list(vals)
            return NotImplemented

        def run(asg):
            del bound[:]
            it = Interp(repo, folder, asg=dict(asg), hooks={"method": method, "inline_funcs": {"*module*"} | {q.qualname for c in cdi.mro() for q in c.methods.values()}})
            o = Obj(cdi, "class_data")
            o.attrs["static_fields"] = list(fields)
            o.attrs["instance_fields"] = list(inst_fields)
            o.attrs["direct_methods"] = []
            o.attrs["virtual_methods"] = []
            arr = Obj(None, "encoded_array")
            it.call_function(f, [arr], recv=o)
            return list(bound)

        res = explore(run)
        if len(res) != 1:
            raise AnalysisError("ClassDataItem.set_static_fields: abstract run split into %d paths" % len(res))
        r = res[0][1]
        ctx.path(res[0][0])
        inst = "%d static value(s), 3 static fields" % nvals
        if isinstance(r, Raised):
            ctx.check("binding", inst, False, f, "set_static_fields raises %s" % r.exc, "set_static_fields raises %s with %s" % (r, inst), node=r.node)
            continue
        want = [(fields[k], vals[k]) for k in range(nvals)]
        ok = len(r) == len(want) and all(a is c and b is d for (a, b), (c, d) in zip(sorted(r, key=lambda t: repr(t)), sorted(want, key=lambda t: repr(t))))
        ctx.check("binding", inst, ok, f, "static value i -> static field i (%s)" % ("ok" if ok else "got %s" % r),
                  "static values are not bound index by index to the static fields: with %s the bindings are %s, expected %s" % (inst, r, want),
                  detail="bindings %s" % want)
        ctx.count("bindings")
    ctx.path(None)
    ctx.floor("bindings", 4)


def _mentions(term, v):
    if term is v:
        return True
    if isinstance(term, Bits) and isinstance(v, Bits):
        return bool(set(term.sources()) & set(v.sources()))
    if isinstance(term, Sym):
        return any(_mentions(a, v) for a in term.args)
    if isinstance(term, (tuple, list)):
        return any(_mentions(a, v) for a in term)
    return False


def _flatten(v, out):
    if isinstance(v, (list, tuple)):
        for x in v:
            _flatten(x, out)
    elif isinstance(v, Sym) and v.op == "call" and v.args and isinstance(v.args[0], Sym) and v.args[0].op == "attr" and v.args[0].args[-1] == "join":
        for x in v.args[1:]:
            _flatten(x, out)
    elif isinstance(v, Sym) and v.op in ("concat", "strop", "extend"):
        for x in v.args:
            _flatten(x, out)
    else:
        out.append(v)

def _check_class_binding(ctx, m):
    """ClassDefItem.reload is executed on two model class definitions that share one encoded_array_item (dx/d8 intern equal
    static-value lists: both class_defs carry the same static_values_off), first A, then B, then A again (reload runs again on
    every rename): after each run the static fields of THAT class must be bound index by index."""
    repo = ctx.repo
    folder = Folder(repo)
    cdef = m.cls("ClassDefItem")
    cdi = m.cls("ClassDataItem")
    eai = m.cls("EncodedArrayItem")
    f = cdef.lookup("reload")
    ctx.require(f is not None and cdi is not None and eai is not None, "ClassDefItem.reload / ClassDataItem / EncodedArrayItem vanished")
    ctx.analysed(f)
    finit = eai.lookup("__init__")

    class _Mark:
        def __init__(self, name):
            self.name = name

        def __repr__(self):
            return self.name

    vals = [_Mark("V%d" % k) for k in range(2)]
    bound = []

    def method(it, recv, name, args, kwargs, e, func):
        if isinstance(recv, _Mark):
            if name == "set_init_value" and args:
                bound.append((recv, args[0]))
                return None
            return Sym("%s.%s" % (recv.name, name))
        if isinstance(recv, Obj) and recv.name == "encoded_array" and name == "get_values":
            return list(vals)
        if isinstance(recv, Obj) and recv.name == "cm":
            # the model ClassManager answers an item lookup by the offset it is asked for, whatever the accessor is called
            # (the run is only judged if the class definition ends up holding exactly the model items, see below)
            offs = [a for a in args if isinstance(a, int) and not isinstance(a, bool)]
            for a in offs:
                if a in cm_tables["class_data"]:
                    return cm_tables["class_data"][a]
                if a in cm_tables["arrays"]:
                    return cm_tables["arrays"][a]
            if name == "get_type_list":
                return []
            return Sym(name, *args)
        return NotImplemented

    def construct(it, cls, args, kwargs, e, func):
        if cls.name == "EncodedArray":
            return Obj(None, "encoded_array")
        return NotImplemented

    cm_tables = {}

    def run(asg):
        del bound[:]
        hooks = {"method": method, "construct": construct, "inline_funcs": {"*module*"} | {q.qualname for c in cdi.mro() for q in c.methods.values()}}
        it = Interp(repo, folder, asg=dict(asg), hooks=hooks)
        cm = Obj(None, "cm")
        shared = Obj(eai, "static_values@0x500")
        if finit is not None:
            st = StreamV("buff")
            st.pos = 0x500
            it.call_function(finit, [st, cm], recv=shared)
        classes = {}
        cm_tables["class_data"] = {}
        cm_tables["arrays"] = {0x500: shared}
        for nm, off in (("A", 0x100), ("B", 0x200)):
            cd = Obj(cdi, "class_data_%s" % nm)
            cd.attrs["static_fields"] = [_Mark("%s.F%d" % (nm, k)) for k in range(2)]
            cd.attrs["instance_fields"] = []
            cd.attrs["direct_methods"] = []
            cd.attrs["virtual_methods"] = []
            cm_tables["class_data"][off] = cd
            o = Obj(cdef, "class_def_%s" % nm)
            o.attrs.update(CM=cm, class_idx=1, superclass_idx=2, interfaces_off=0, source_file_idx=0, annotations_off=0, class_data_off=off,
                           static_values_off=0x500, interfaces=[], class_data_item=None, static_values=None, annotations_directory_item=None,
                           name=None, sname=None, access_flags_string=None, access_flags=1, offset=0)
            classes[nm] = (o, cd)
        out = []
        current = {}
        for nm in ("A", "B", "A"):
            del bound[:]
            it.call_function(f, [], recv=classes[nm][0])
            for fld, v in bound:
                current[fld] = v
            o_, cd_ = classes[nm]
            if o_.attrs.get("class_data_item") is not cd_ or o_.attrs.get("static_values") is not shared:
                raise AnalysisError("ClassDefItem.reload: the model class definition does not end up holding the model class_data_item / encoded_array_item "
                                    "(class_data_item=%s, static_values=%s): the way reload() obtains them is outside the model" % (
                                        show(o_.attrs.get("class_data_item"))[:60], show(o_.attrs.get("static_values"))[:60]))
            flds = classes[nm][1].attrs["static_fields"]
            # the state that matters is what each field holds after the step (a class that is not bound a second time keeps its values)
            out.append((nm, [(x, current[x]) for x in flds if x in current], flds))
        return out

    res = explore(run)
    if len(res) != 1:
        raise AnalysisError("ClassDefItem.reload: abstract run on the two-class model split into %d paths (a condition on model state is undecided)" % len(res))
    r = res[0][1]
    ctx.path(res[0][0])
    if isinstance(r, Raised):
        ctx.check("class-binding", "two class_defs sharing one encoded_array_item", False, f, "reload raises %s" % r.exc,
                  "ClassDefItem.reload raises %s on two class definitions that share their static values" % r, node=r.node)
        return
    for step, (nm, b, fields) in enumerate(r):
        want = [(fields[k], vals[k]) for k in range(2)]
        ok = len(b) == 2 and all(x is w and y is v for (x, y), (w, v) in zip(b, want))
        inst = "reload #%d (class %s) of two class_defs sharing one encoded_array_item" % (step + 1, nm)
        ctx.check("class-binding", inst, ok, f, "static values of class %s at step %d" % (nm, step + 1),
                  "after %s the static fields of class %s are bound as %s, expected %s (two classes with equal static-value lists share one encoded_array_item)" % (inst, nm, b, want),
                  detail="bindings %s" % want)
        ctx.count("class_bindings")
    ctx.path(None)
    ctx.floor("class_bindings", 3)


def _check_printing(ctx, repo, folder, reader_values):
    """DvClass.get_source is executed abstractly on a class with one static field whose initial value is the reader's
    abstract value; the number that reaches the formatted initialiser must be the value the DEX file defines."""
    dm = ctx.mod("androguard/decompiler/decompile.py")
    cls = dm.cls("DvClass")
    f = cls.lookup("get_source")
    ctx.require(f is not None, "DvClass.get_source vanished")
    ctx.analysed(f)
    JAVA = {"B": "byte", "S": "short", "C": "char", "I": "int", "J": "long"}
    helpers = {"*module*"} | {q.qualname for c in cls.mro() for q in c.methods.values() if q.name != "get_source"}
    for letter, t in PROTO_OF.items():
        maxarg = SPEC[t][1]
        for arg in range(maxarg + 1):
            if (t, arg) not in reader_values:
                continue
            got, exp, asg = reader_values[(t, arg)]
            if not isinstance(got, Bits):
                continue
            inst = "print %s field from %s value_arg=%d" % (JAVA[letter], SPEC[t][0], arg)

            def runp(extra, got=got, letter=letter, asg=asg, arg=arg):
                a = {**asg, **extra}
                iv = Obj(None, "init_value")
                iv.attrs["value"] = got
                fld = Obj(None, "field")
                fld.attrs["proto"] = letter
                fld.attrs["init_value"] = iv

                def method(it, recv, name, args, kwargs, e, func):
                    if recv is fld:
                        if name == "get_init_value":
                            return iv
                        if name == "get_descriptor":
                            return letter
                        if name == "get_access_flags":
                            return 0
                        if name == "get_name":
                            return "fieldname"
                        return Sym("field." + name)
                    if recv is iv and name in ("get_value",):
                        return got
                    if name == "get_type" and args and args[0] == letter:
                        return JAVA[letter]
                    if name == "get_access_field":
                        return []
                    return NotImplemented

                it = Interp(repo, folder, asg=a, hooks={"method": method, "inline_funcs": helpers})
                it.max_split = 8 if arg == 0 else 4
                o = Obj(cls, "dvclass")
                o.attrs.update(fields=[fld], methods=[], interfaces=[], superclass=None, prototype="class X", access=[], name="X", package="p",
                               subclasses={}, thisclass="Lp/X;", inner=False)
                res = it.call_function(f, [], recv=o)
                return a, res

            res = explore(runp)
            if len(res) > 1200:
                raise AnalysisError("DvClass.get_source: %d abstract paths for one field" % len(res))
            for a0, r in res:
                if isinstance(r, Raised):
                    if r.exc in ("struct.error", "OverflowError", "ValueError"):
                        ctx.check("printed", inst, False, f, "print %s raises %s" % (SPEC[t][0], r.exc),
                                  "printing a %s initialiser raises %s for some stored values" % (JAVA[letter], r), node=r.node)
                        continue
                    raise AnalysisError("DvClass.get_source: abstract run raises %s" % r)
                a, out = r
                pieces_ = []
                _flatten(out, pieces_)
                printed = None
                for piece in pieces_:
                    if isinstance(piece, Sym) and piece.op in ("strformat", "fstring"):
                        args = piece.args[1] if len(piece.args) > 1 and isinstance(piece.args[1], tuple) else piece.args[1:]
                        for x in args:
                            y = x.args[0] if isinstance(x, Sym) and x.op in ("hex", "str") and x.args else x
                            if isinstance(y, Bits) or (isinstance(y, int) and not isinstance(y, bool)):
                                printed = x
                    elif isinstance(piece, Sym) and piece.op in ("hex", "str") and piece.args and isinstance(piece.args[0], Bits):
                        printed = piece
                    elif isinstance(piece, str) and "fieldname" in piece and "=" in piece:
                        # the value was a constant on this path: the initialiser is concrete text
                        import re as _re
                        mm = _re.search(r"=\s*(-?(?:0[xX][0-9a-fA-F]+|\d+))", piece)
                        if mm:
                            printed = int(mm.group(1), 0)
                pv = printed
                if isinstance(pv, Sym) and pv.op in ("hex", "str") and pv.args:
                    pv = pv.args[0]
                if isinstance(pv, int) and not isinstance(pv, bool):
                    pv = Bits.const(pv)
                if printed is None:
                    raise AnalysisError("DvClass.get_source: could not find the printed initialiser of a %s field in the abstract output (%s)" % (
                        JAVA[letter], ", ".join(show(p)[:50] for p in pieces_[:6])))
                ok = isinstance(pv, Bits) and pv.subst(a) == exp.subst(a)
                ctx.count("printed_paths")
                ctx.check("printed", inst, ok, f, "print %s/%d byte(s): %s" % (SPEC[t][0], arg + 1, show(printed)[:120]),
                          "the %s initialiser is printed from %s; the value the DEX file defines is %s" % (JAVA[letter], show(printed)[:160], exp.describe()),
                          detail="prints %s" % exp.describe())
            ctx.count("print_cases")
    ctx.floor("print_cases", 10)
    ctx.floor("printed_paths", 10)

MUTATION_TARGETS = [(DEX, "EncodedValue.__init__"), (DEX, "EncodedValue._getintvalue"), (DEX, "EncodedValue.get_value"),
                    (DEX, "ClassDataItem.set_static_fields"), ("androguard/decompiler/decompile.py", "DvClass.get_source")]
