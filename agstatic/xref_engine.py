"""Shared engine of C13 / C14 / C15 / C16 / C40.

A *symbolic path executor* over the handful of functions the cross-reference
properties are about (`Analysis._create_xref`, the recorder methods it calls,
`Analysis.add`, `_resolve_method`, `get_call_graph`, `DEXBasicBlock.push`,
`dex.determineNext`, the offset accumulators).  Nothing of the repository is
executed: every value is a *term* (a nested tuple describing where the value
comes from), every `if` whose test is not decided by the opcode under
consideration forks the path, loops are executed for one generic iteration,
and calls to repository methods whose receiver type is known are inlined
(bounded depth) so that the *primitive effects* -- `set.add((..))`, keyed
stores -- become visible with the provenance of every component.

On top of the executor:
  * opcode partition: the opcode domain (0..255 and the three payload idents)
    is split at every integer constant occurring in the analysed code; every
    predicate built from comparisons of the opcode with constants is constant
    on each part, so one run per part decides the predicate for all opcodes
    (interval analysis by region partition; falls back to one run per opcode
    if the opcode is ever used arithmetically);
  * origin typing (`Roles`): terms are classified CUR (derived from the class
    being scanned), TARGET (decoded from the instruction's reference index
    through `get_cm_*`), OFF (first loop variable of `get_instructions_idx`);
  * linear forms over opaque atoms for offset / unit arithmetic (C40).
"""
from __future__ import annotations

import ast
import copy

from .consts import Folder, Unknown, EnumVal, Ref, is_unknown
from .model import ANALYSIS, DEX, AnalysisError, Cls, Func, Module, norm, walk_no_nested
from .spec import dalvik

MAX_PATHS = 6000
MAX_DEPTH = 5

OP = ("op",)
ROOT_SELF = ("self0",)

MUTATORS = {"add", "append", "extend", "insert", "update", "pop", "remove", "setdefault", "discard", "clear", "popitem"}


# ---------------------------------------------------------------------------
# terms
# ---------------------------------------------------------------------------
def const(v):
    return ("const", v)


def is_const(t):
    return isinstance(t, tuple) and t and t[0] == "const"


def mk_attr(b, n):
    return ("attr", b, n)


def mk_call(f, args=(), kw=()):
    return ("call", f, tuple(args), tuple(kw))


def mk_mcall(recv, name, args=(), kw=()):
    return ("call", ("attr", recv, name), tuple(args), tuple(kw))


def is_mcall(t, name=None):
    """method-call term?  -> (recv, name, args) or None"""
    if isinstance(t, tuple) and len(t) == 4 and t[0] == "call" and isinstance(t[1], tuple) and t[1][0] == "attr":
        if name is None or t[1][2] == name:
            return t[1][1], t[1][2], t[2]
    return None


def subterms(t):
    yield t
    if isinstance(t, tuple):
        for x in t[1:] if t and isinstance(t[0], str) else t:
            if isinstance(x, tuple):
                yield from subterms(x)


def mentions(t, what):
    return any(s == what for s in subterms(t))


def subst_term(t, mapping, _memo=None):
    """replace every occurrence of the keys of `mapping` (terms) in t (outermost match first)"""
    if not isinstance(t, tuple):
        return t
    memo = {} if _memo is None else _memo
    try:
        if t in memo:
            return memo[t]
    except TypeError:
        return t
    if t in mapping:
        r = mapping[t]
    else:
        r = tuple(subst_term(x, mapping, memo) if isinstance(x, tuple) else x for x in t)
    memo[t] = r
    return r


def show(t, depth=0):
    """human readable rendering of a term"""
    if not isinstance(t, tuple) or not t:
        return repr(t)
    k = t[0]
    if depth > 8:
        return "..."
    s = lambda x: show(x, depth + 1)
    if k == "const":
        v = t[1]
        return hex(v) if isinstance(v, int) and not isinstance(v, bool) and v > 9 else repr(v)
    if k == "self0":
        return "self"
    if k == "param":
        return t[2]
    if k == "attr":
        return "%s.%s" % (s(t[1]), t[2])
    if k == "call":
        return "%s(%s)" % (s(t[1]), ", ".join([s(a) for a in t[2]] + ["%s=%s" % (n, s(v)) for n, v in t[3]]))
    if k == "sub":
        return "%s[%s]" % (s(t[1]), s(t[2]))
    if k == "elem":
        return "<element of %s>" % s(t[1])
    if k == "enumidx":
        return "<index in %s>" % s(t[1])
    if k == "item":
        return "%s[%d]" % (s(t[1]), t[2])
    if k in ("tuple", "list"):
        return "(" + ", ".join(s(x) for x in t[1:]) + ")"
    if k == "new":
        return "%s(%s)" % (t[1], ", ".join(s(a) for a in t[2]))
    if k == "op":
        return "<opcode>"
    if k == "lin":
        parts = []
        for a, c in t[1]:
            parts.append(s(a) if c == 1 else "%d*%s" % (c, s(a)))
        if t[2] or not parts:
            parts.append(str(t[2]))
        return " + ".join(parts)
    if k == "cmp":
        return "%s %s %s" % (s(t[2]), t[1], s(t[3]))
    if k == "not":
        return "not (%s)" % s(t[1])
    if k in ("and", "or"):
        return "(" + (" %s " % k).join(s(x) for x in t[1:]) + ")"
    if k == "class":
        return t[1]
    if k == "func":
        return t[2]
    if k == "builtin":
        return t[1]
    if k == "enumconv":
        return "%s(%s)" % (t[1], s(t[2]))
    if k == "ifexp":
        return "(%s if %s else %s)" % (s(t[2]), s(t[1]), s(t[3]))
    if k == "binop":
        return "(%s %s %s)" % (s(t[2]), t[1], s(t[3]))
    if k == "unk":
        return "<unknown: %s>" % " ".join(str(x) for x in t[1:])
    if k == "isinstance":
        return "isinstance(%s, %s)" % (s(t[1]), s(t[2]))
    return "%s(%s)" % (k, ", ".join(s(x) if isinstance(x, tuple) else repr(x) for x in t[1:]))


# ---- linear forms ----------------------------------------------------------
def lin_of(t):
    """term -> (dict atom->coef, const) for integer-valued terms, else None"""
    if not isinstance(t, tuple):
        return None
    if t[0] == "const":
        if isinstance(t[1], int) and not isinstance(t[1], bool):
            return {}, t[1]
        return None
    if t[0] == "lin":
        return dict(t[1]), t[2]
    return {t: 1}, 0


def mk_lin(terms, c):
    terms = {a: k for a, k in terms.items() if k}
    if not terms:
        return const(c)
    if len(terms) == 1 and c == 0:
        (a, k), = terms.items()
        if k == 1:
            return a
    return ("lin", tuple(sorted(terms.items(), key=lambda x: repr(x[0]))), c)


def lin_add(a, b, sign=1):
    la, lb = lin_of(a), lin_of(b)
    if la is None or lb is None:
        return None
    t = dict(la[0])
    for k, v in lb[0].items():
        t[k] = t.get(k, 0) + sign * v
    return mk_lin(t, la[1] + sign * lb[1])


def lin_mul(a, b):
    la, lb = lin_of(a), lin_of(b)
    if la is None or lb is None:
        return None
    if not la[0]:
        la, lb = lb, la
    if lb[0]:
        return None  # non-linear
    k = lb[1]
    return mk_lin({x: v * k for x, v in la[0].items()}, la[1] * k)


# ---------------------------------------------------------------------------
# constant values / three-valued truth
# ---------------------------------------------------------------------------
class _NoVal(Exception):
    pass


def pyval(t, op=None):
    """python value of a fully constant term (opcode substituted), else _NoVal"""
    if not isinstance(t, tuple):
        raise _NoVal
    k = t[0]
    if k == "const":
        return t[1]
    if k == "op":
        if op is None:
            raise _NoVal
        return op
    if k in ("tuple", "list"):
        return tuple(pyval(x, op) for x in t[1:])
    if k == "set":
        return frozenset(pyval(x, op) for x in t[1:])
    if k == "lin":
        s = t[2]
        for a, c in t[1]:
            v = pyval(a, op)
            if not isinstance(v, int):
                raise _NoVal
            s += c * v
        return s
    raise _NoVal


_CMP = {
    "==": lambda a, b: a == b, "!=": lambda a, b: a != b, "<": lambda a, b: a < b, "<=": lambda a, b: a <= b,
    ">": lambda a, b: a > b, ">=": lambda a, b: a >= b, "in": lambda a, b: a in b, "not in": lambda a, b: a not in b,
    "is": lambda a, b: a is b, "is not": lambda a, b: a is not b,
}


def truth(t, op=None):
    """Kleene truth value of a condition term: True / False / None"""
    if not isinstance(t, tuple):
        return None
    k = t[0]
    if k == "not":
        r = truth(t[1], op)
        return None if r is None else (not r)
    if k == "and":
        rs = [truth(x, op) for x in t[1:]]
        if any(r is False for r in rs):
            return False
        return True if all(r is True for r in rs) else None
    if k == "or":
        rs = [truth(x, op) for x in t[1:]]
        if any(r is True for r in rs):
            return True
        return False if all(r is False for r in rs) else None
    if k == "cmp":
        try:
            a, b = pyval(t[2], op), pyval(t[3], op)
            return bool(_CMP[t[1]](a, b))
        except (_NoVal, TypeError):
            if t[1] in ("==", "is") and t[2] == t[3]:
                return True
            if t[1] in ("!=", "is not") and t[2] == t[3]:
                return False
            return None
    if k == "new":
        return True
    try:
        return bool(pyval(t, op))
    except _NoVal:
        return None


def residual(t, op=None):
    """drop the decided operands of and/or so that the recorded condition is the opaque rest"""
    if not isinstance(t, tuple):
        return t
    if t[0] in ("and", "or"):
        keep = []
        for x in t[1:]:
            r = truth(x, op)
            if r is None:
                keep.append(residual(x, op))
        if len(keep) == 1:
            return keep[0]
        return (t[0],) + tuple(keep)
    if t[0] == "not":
        return ("not", residual(t[1], op))
    return t


def atoms_of_cond(t, out=None):
    out = [] if out is None else out
    if isinstance(t, tuple) and t and t[0] in ("and", "or", "not"):
        for x in t[1:]:
            atoms_of_cond(x, out)
    else:
        if t not in out:
            out.append(t)
    return out


def eval_cond(t, asg):
    k = t[0] if isinstance(t, tuple) and t else None
    if k == "not":
        return not eval_cond(t[1], asg)
    if k == "and":
        return all(eval_cond(x, asg) for x in t[1:])
    if k == "or":
        return any(eval_cond(x, asg) for x in t[1:])
    return asg[t]


def entails(conds, goal_atoms_pred):
    """conds: list of (term, outcome).  True iff every truth assignment of the
    opaque atoms satisfying all conds makes at least one atom accepted by
    `goal_atoms_pred` true (boolean-atom enumeration, <= 10 atoms)."""
    atoms = []
    for t, _ in conds:
        atoms_of_cond(t, atoms)
    if len(atoms) > 10:
        raise AnalysisError("condition with more than 10 opaque atoms")
    goals = [a for a in atoms if goal_atoms_pred(a)]
    if not goals:
        return False
    import itertools
    for vals in itertools.product((False, True), repeat=len(atoms)):
        asg = dict(zip(atoms, vals))
        if all(eval_cond(t, asg) == o for t, o in conds):
            if not any(asg[g] for g in goals):
                return False
    return True


# ---------------------------------------------------------------------------
# events / state
# ---------------------------------------------------------------------------
class Ev:
    __slots__ = ("kind", "node", "recv", "name", "args", "kw", "base", "key", "value", "conds", "stack", "func")

    def __init__(self, kind, node, func, stack, conds, **kw):
        self.kind = kind
        self.node = node
        self.func = func
        self.stack = stack
        self.conds = conds
        self.recv = self.name = self.base = self.key = self.value = None
        self.args = ()
        self.kw = ()
        for k, v in kw.items():
            setattr(self, k, v)

    def root_node(self):
        """the construct in the root function this event stems from"""
        return self.stack[0][1] if self.stack else self.node

    def chain(self):
        return [q for q, _ in self.stack] + [self.func.qualname]

    def __repr__(self):
        if self.kind == "call":
            return "call %s.%s(%s)" % (show(self.recv), self.name, ", ".join(show(a) for a in self.args))
        if self.kind == "store_sub":
            return "store %s[%s] = %s" % (show(self.base), show(self.key), show(self.value))
        if self.kind == "store_attr":
            return "store %s.%s = %s" % (show(self.base), self.name, show(self.value))
        return "%s %s" % (self.kind, show(self.value))


class St:
    __slots__ = ("env", "heap", "dirty", "events", "conds", "exit_guard", "retval", "raised")

    def __init__(self):
        self.env = {}
        self.heap = {}
        self.dirty = set()
        self.events = []
        self.conds = ()
        self.exit_guard = None
        self.retval = None
        self.raised = False

    def copy(self):
        s = St()
        s.env = dict(self.env)
        s.heap = dict(self.heap)
        s.dirty = set(self.dirty)
        s.events = list(self.events)
        s.conds = self.conds
        s.exit_guard = self.exit_guard
        s.retval = self.retval
        s.raised = self.raised
        return s


class Frame:
    __slots__ = ("func", "stack", "depth", "self_term")

    def __init__(self, func, stack, depth, self_term):
        self.func = func
        self.stack = stack
        self.depth = depth
        self.self_term = self_term


_AN_CACHE = {}


def _assigned_names(stmts):
    key = id(stmts)
    hit = _AN_CACHE.get(key)
    if hit is not None and hit[0] is stmts:
        return hit[1]
    r = _assigned_names0(stmts)
    _AN_CACHE[key] = (stmts, r)
    return r


def _assigned_names0(stmts):
    names, attrs = set(), set()
    for s in stmts:
        for n in ast.walk(s):
            if isinstance(n, ast.Name) and isinstance(n.ctx, ast.Store):
                names.add(n.id)
            elif isinstance(n, ast.Attribute) and isinstance(n.ctx, ast.Store):
                attrs.add(n.attr)
    return names, attrs


# ---------------------------------------------------------------------------
# the engine: source access (with in-memory overrides for mutation adequacy),
# type inference, executor
# ---------------------------------------------------------------------------
class Engine:
    def __init__(self, repo, overrides=None):
        self.repo = repo
        self.folder = Folder(repo)
        self.overrides = overrides or {}  # (relpath, qualname) -> ast.FunctionDef
        self._valtype = {}
        self._summary = {}

    # ---- source ----------------------------------------------------------
    def mod(self, rel) -> Module:
        return self.repo.mod(rel)

    def func(self, rel, qualname) -> Func:
        m = self.mod(rel)
        f = m.func(qualname)
        return self._ov(f)

    def _ov(self, f: Func) -> Func:
        n = self.overrides.get((f.module.relpath, f.qualname))
        if n is not None:
            return Func(f.module, f.qualname, n, f.cls)
        return f

    def lookup(self, cls: Cls, name):
        f = cls.lookup(name)
        return self._ov(f) if f is not None else None

    def cls_methods(self, cls: Cls):
        return [self._ov(f) for f in cls.methods.values()]

    # ---- globals -----------------------------------------------------------
    def global_term(self, module: Module, name):
        r = module.resolve_name(name)
        if r is None:
            import builtins
            if hasattr(builtins, name):
                return ("builtin", name)
            return ("global", name)
        if r[0] == "class":
            return ("class", r[1].name, r[1].module.relpath)
        if r[0] == "func":
            return ("func", r[1].module.relpath, r[1].qualname)
        if r[0] == "module":
            return ("module", r[1].relpath)
        v = self.folder.fold(r[2], r[1])
        t = self.lift(v)
        return t if t is not None else ("global", name)

    def lift(self, v):
        """python constant (folded) -> term"""
        if isinstance(v, Unknown) or is_unknown(v):
            return None
        if isinstance(v, (bool, int, str, bytes, float)) or v is None:
            return const(int(v) if isinstance(v, EnumVal) else v)
        if isinstance(v, (list, tuple)):
            xs = [self.lift(x) for x in v]
            return None if any(x is None for x in xs) else ("tuple",) + tuple(xs)
        if isinstance(v, (set, frozenset)):
            xs = [self.lift(x) for x in sorted(v, key=repr)]
            return None if any(x is None for x in xs) else ("set",) + tuple(xs)
        if isinstance(v, Ref):
            if v.kind == "class":
                return ("class", v.obj.name, v.obj.module.relpath)
            return ("func", v.obj.module.relpath, v.obj.qualname)
        return None

    def cls_of_term(self, t):
        if isinstance(t, tuple) and t and t[0] == "class":
            return self.repo.modules[t[2]].classes.get(t[1])
        return None

    # ---- annotations / types ----------------------------------------------
    def ann_class(self, ann, module: Module, want_elem=False):
        """class named by an annotation; Union[X, None]/Optional[X] -> X;
        with want_elem: list[X]/Iterator[X] -> X"""
        if ann is None:
            return None
        if isinstance(ann, ast.Constant) and isinstance(ann.value, str):
            try:
                ann = ast.parse(ann.value, mode="eval").body
            except SyntaxError:
                return None
        if isinstance(ann, ast.Subscript):
            head = ast.unparse(ann.value).split(".")[-1]
            sl = ann.slice
            elts = list(sl.elts) if isinstance(sl, ast.Tuple) else [sl]
            if head in ("Union", "Optional"):
                if want_elem:
                    return None
                cands = [self.ann_class(e, module) for e in elts if not (isinstance(e, ast.Constant) and e.value is None)]
                cands = [c for c in cands if c is not None]
                return cands[0] if len(cands) == 1 else None
            if head in ("list", "List", "Iterator", "Iterable", "set", "Set", "Generator") and want_elem:
                return self.ann_class(elts[0], module)
            return None
        if want_elem:
            return None
        if isinstance(ann, ast.Name):
            return module.resolve_class(ann.id)
        if isinstance(ann, ast.Attribute) and isinstance(ann.value, ast.Name):
            r = module.resolve_name(ann.value.id)
            if r and r[0] == "module" and r[1] is not None:
                return r[1].resolve_class(ann.attr)
        return None

    def valtype(self, cls: Cls, attr):
        """class of the values stored in the dict attribute `self.<attr>` of cls"""
        key = (cls.module.relpath, cls.name, attr)
        if key in self._valtype:
            return self._valtype[key]
        self._valtype[key] = None
        found = {}
        for f in self.cls_methods(cls):
            params = {a.arg: a.annotation for a in f.node.args.args}
            local = {}
            for n in ast.walk(f.node):
                if isinstance(n, ast.Assign) and len(n.targets) == 1 and isinstance(n.targets[0], ast.Name):
                    local[n.targets[0].id] = n.value
            for n in ast.walk(f.node):
                if isinstance(n, ast.Assign):
                    for t in n.targets:
                        if (isinstance(t, ast.Subscript) and isinstance(t.value, ast.Attribute) and t.value.attr == attr
                                and isinstance(t.value.value, ast.Name) and t.value.value.id == "self"):
                            c = self._expr_class(n.value, cls, params, local, 0)
                            found[id(c)] = c
        found.pop(id(None), None)
        r = list(found.values())[0] if len(found) == 1 else None
        self._valtype[key] = r
        return r

    def _expr_class(self, e, cls, params, local, depth):
        if depth > 4:
            return None
        m = cls.module
        if isinstance(e, ast.Call) and isinstance(e.func, ast.Name):
            return m.resolve_class(e.func.id)
        if isinstance(e, ast.Name):
            if e.id in params:
                return self.ann_class(params[e.id], m)
            if e.id in local:
                return self._expr_class(local[e.id], cls, params, local, depth + 1)
        if (isinstance(e, ast.Subscript) and isinstance(e.value, ast.Attribute) and isinstance(e.value.value, ast.Name)
                and e.value.value.id == "self"):
            return self.valtype(cls, e.value.attr)
        return None

    def attr_class(self, cls: Cls, attr):
        """class of the plain attribute self.<attr> from __init__ (param annotation or constructor)"""
        init = self.lookup(cls, "__init__")
        if init is None:
            return None
        params = {a.arg: a.annotation for a in init.node.args.args}
        for n in ast.walk(init.node):
            if isinstance(n, ast.Assign):
                for t in n.targets:
                    if isinstance(t, ast.Attribute) and t.attr == attr and isinstance(t.value, ast.Name) and t.value.id == "self":
                        return self._expr_class(n.value, cls, params, {}, 0)
        return None

    def type_of(self, t, root_cls=None, hints=None):
        """Cls of the object a term denotes, or None"""
        if not isinstance(t, tuple) or not t:
            return None
        hints = hints or {}
        if t in hints:
            return hints[t]
        k = t[0]
        if k == "self0":
            return root_cls
        if k == "new":
            return self.repo.modules[t[3]].classes.get(t[1]) if len(t) > 3 and t[3] else None
        if k == "param":
            return hints.get(t)
        if k == "sub" or (is_mcall(t, "get") and len(t[2]) >= 1):
            base = t[1] if k == "sub" else t[1][1]
            if isinstance(base, tuple) and base[0] == "attr":
                c = self.type_of(base[1], root_cls, hints)
                if c is not None:
                    return self.valtype(c, base[2])
            return None
        if k == "call":
            mc = is_mcall(t)
            if mc:
                c = self.type_of(mc[0], root_cls, hints)
                if c is not None:
                    f = self.lookup(c, mc[1])
                    if f is not None:
                        return self.ann_class(f.node.returns, f.module)
            return None
        if k == "attr":
            c = self.type_of(t[1], root_cls, hints)
            if c is not None:
                return self.attr_class(c, t[2])
            return None
        if k == "elem":
            it = t[1]
            mc = is_mcall(it)
            if mc:
                c = self.type_of(mc[0], root_cls, hints)
                if c is not None:
                    f = self.lookup(c, mc[1])
                    if f is not None:
                        return self.ann_class(f.node.returns, f.module, want_elem=True)
            return None
        return None

    # ---- opcode partition -------------------------------------------------
    def int_constants(self, funcs):
        """every integer constant occurring in (or folded from names used in) the given functions"""
        out = set()

        def add(v):
            if isinstance(v, bool):
                return
            if isinstance(v, int):
                out.add(int(v))
            elif isinstance(v, (list, tuple, set, frozenset)):
                for x in v:
                    add(x)
            elif isinstance(v, dict):
                for x in v:
                    add(x)

        for f in funcs:
            for n in ast.walk(f.node):
                if isinstance(n, ast.Constant):
                    add(n.value)
                elif isinstance(n, ast.Name) and isinstance(n.ctx, ast.Load):
                    r = f.module.resolve_name(n.id)
                    if r and r[0] == "const":
                        add(self.folder.fold(r[2], r[1]))
                    elif r and r[0] == "class" and self.folder.is_enum(r[1]):
                        for v in self.folder.enum_members(r[1]).values():
                            add(v)
        return out

    def op_partition(self, funcs, domain):
        """split the opcode domain at every constant -> list of (representative, members)"""
        cs = sorted(c for c in self.int_constants(funcs))
        dom = sorted(domain)
        parts = {}
        import bisect
        cset = set(cs)
        for d in dom:
            if d in cset:
                key = ("c", d)
            else:
                key = ("g", bisect.bisect_left(cs, d))
            parts.setdefault(key, []).append(d)
        return [(v[0], v) for v in parts.values()]


OP_DOMAIN = sorted(set(range(256)) | set(dalvik.PAYLOADS))


def op_name(k):
    if k in dalvik.OPCODES:
        return "0x%02x %s" % (k, dalvik.OPCODES[k][0])
    if k in dalvik.PAYLOADS:
        return "0x%04x %s" % (k, dalvik.PAYLOADS[k])
    return "0x%02x (unused)" % k


def op_set_str(s):
    s = sorted(s)
    if len(s) > 8:
        return ", ".join(op_name(k) for k in s[:8]) + ", ... (%d opcodes)" % len(s)
    return ", ".join(op_name(k) for k in s)


class Exec:
    """symbolic path executor (see module docstring)"""

    def __init__(self, eng: Engine, op=None, no_inline=(), root_cls=None, hints=None, inline_expr=True):
        self.eng = eng
        self.op = op
        self.no_inline = set(no_inline)
        self.root_cls = root_cls
        self.hints = hints or {}
        self.npaths = 0
        self.op_arith = False  # the opcode was used arithmetically (partition not exact)

    # ---- entry --------------------------------------------------------------
    def run(self, func: Func, args=None, self_term=None):
        """-> list of final St (one per path)"""
        st = St()
        fr = Frame(func, (), 0, self_term)
        self._bind_params(func, args, self_term, st, root=True)
        out = []
        for s, sig in self._block(func.node.body, st, fr):
            out.append(s)
        return out

    def _bind_params(self, func, args, self_term, st, root=False, kw=()):
        a = func.node.args
        names = [x.arg for x in a.posonlyargs + a.args]
        defaults = list(a.defaults)
        dmap = {}
        for n, d in zip(names[len(names) - len(defaults):], defaults):
            dmap[n] = d
        i = 0
        if func.cls is not None and names and names[0] in ("self", "cls") and not _is_static(func.node):
            st.env[names[0]] = self_term if self_term is not None else ROOT_SELF
            names = names[1:]
        args = list(args) if args is not None else None
        kwd = dict(kw)
        for j, n in enumerate(names):
            if args is not None and j < len(args):
                st.env[n] = args[j]
            elif n in kwd:
                st.env[n] = kwd[n]
            elif root or n not in dmap:
                st.env[n] = ("param", func.qualname, n)
            else:
                st.env[n] = self._fold_default(dmap[n], func)
        for x in a.kwonlyargs:
            st.env[x.arg] = kwd.get(x.arg, ("param", func.qualname, x.arg))

    def _fold_default(self, d, func):
        v = self.eng.folder.fold(d, func.module)
        t = self.eng.lift(v)
        return t if t is not None else ("unk", "default")

    # ---- statements ------------------------------------------------------------
    def _tick(self):
        self.npaths += 1
        if self.npaths > MAX_PATHS:
            raise AnalysisError("path budget exceeded (%d paths): the analysed function left the supported fragment" % MAX_PATHS)

    def _block(self, stmts, st, fr):
        if not stmts:
            yield st, None
            return
        head, rest = stmts[0], stmts[1:]
        for s, sig in self._stmt(head, st, fr):
            if sig is not None:
                yield s, sig
            else:
                yield from self._block(rest, s, fr)

    def _emit(self, st, fr, kind, node, **kw):
        ev = Ev(kind, node, fr.func, fr.stack, st.conds, **kw)
        st.events.append(ev)
        return ev

    def _stmt(self, s, st, fr):
        if isinstance(s, ast.Expr):
            v = s.value
            if isinstance(v, ast.Constant):
                yield st, None
            elif isinstance(v, ast.Call):
                for st2, _ in self._call_stmt(v, st, fr):
                    yield st2, None
            elif isinstance(v, (ast.Yield, ast.YieldFrom)):
                val = self.ev(v.value, st, fr) if v.value is not None else const(None)
                self._emit(st, fr, "yield", s, value=val)
                yield st, None
            else:
                self.ev(v, st, fr)
                yield st, None
        elif isinstance(s, ast.Assign):
            if isinstance(s.value, ast.Call):
                for st2, val in self._call_stmt(s.value, st, fr):
                    for t in s.targets:
                        self._assign(t, val, st2, fr, s)
                    yield st2, None
            else:
                val = self.ev(s.value, st, fr)
                for t in s.targets:
                    self._assign(t, val, st, fr, s)
                yield st, None
        elif isinstance(s, ast.AnnAssign):
            if s.value is not None:
                self._assign(s.target, self.ev(s.value, st, fr), st, fr, s)
            yield st, None
        elif isinstance(s, ast.AugAssign):
            cur = self.ev(_as_load(s.target), st, fr)
            val = self._binop(s.op, cur, self.ev(s.value, st, fr))
            self._assign(s.target, val, st, fr, s)
            yield st, None
        elif isinstance(s, ast.If):
            yield from self._if(s, st, fr)
        elif isinstance(s, (ast.For, ast.AsyncFor)):
            yield from self._for(s, st, fr)
        elif isinstance(s, ast.While):
            raise AnalysisError("%s: while loop at line %d is outside the analysed fragment" % (fr.func.qualname, s.lineno))
        elif isinstance(s, ast.Return):
            if s.value is not None and isinstance(s.value, ast.Call):
                for st2, val in self._call_stmt(s.value, st, fr):
                    st2.retval = val
                    self._emit(st2, fr, "return", s, value=val)
                    yield st2, "return"
            else:
                st.retval = self.ev(s.value, st, fr) if s.value is not None else const(None)
                self._emit(st, fr, "return", s, value=st.retval)
                yield st, "return"
        elif isinstance(s, ast.Continue):
            yield st, "continue"
        elif isinstance(s, ast.Break):
            yield st, "break"
        elif isinstance(s, ast.Raise):
            st.raised = True
            yield st, "raise"
        elif isinstance(s, (ast.Pass, ast.Import, ast.ImportFrom, ast.Global, ast.Nonlocal, ast.Assert, ast.Delete)):
            yield st, None
        elif isinstance(s, (ast.FunctionDef, ast.AsyncFunctionDef)):
            st.env[s.name] = ("localfunc", s.name)
            yield st, None
        elif isinstance(s, (ast.With, ast.AsyncWith)):
            for it in s.items:
                v = self.ev(it.context_expr, st, fr)
                if it.optional_vars is not None:
                    self._assign(it.optional_vars, v, st, fr, s)
            yield from self._block(s.body, st, fr)
        elif isinstance(s, ast.Try):
            # normal flow only; handlers are examined by the rules that care
            for st2, sig in self._block(s.body, st, fr):
                if sig is not None:
                    yield st2, sig
                    continue
                for st3, sig3 in self._block(s.orelse, st2, fr):
                    if sig3 is not None:
                        yield st3, sig3
                    else:
                        yield from self._block(s.finalbody, st3, fr)
            # an exception path into each handler (state of the try entry; effects of the body unknown)
            for h in s.handlers:
                sth = st.copy()
                sth.conds = sth.conds + ((("exc", ast.unparse(h.type) if h.type is not None else "BaseException", "try"), True, h),)
                if h.name:
                    sth.env[h.name] = ("unk", "exception")
                self._tick()
                for st3, sig3 in self._block(h.body, sth, fr):
                    if sig3 is not None:
                        yield st3, sig3
                    else:
                        yield from self._block(s.finalbody, st3, fr)
        elif isinstance(s, ast.ClassDef):
            yield st, None
        else:
            raise AnalysisError("%s: statement %s outside the analysed fragment" % (fr.func.qualname, type(s).__name__))

    def _if(self, s, st, fr):
        t = self.ev(s.test, st, fr)
        r = truth(t, self.op)
        if r is True:
            yield from self._branch(s, True, s.body, st, fr, None)
        elif r is False:
            yield from self._branch(s, False, s.orelse, st, fr, None)
        else:
            rt = residual(t, self.op)
            if self.op is not None and _op_direct(rt):
                raise AnalysisError("%s: the test `%s` (line %d) depends on the opcode in a way the interval analysis cannot decide" % (
                    fr.func.qualname, ast.unparse(s.test)[:120], s.lineno))
            self._tick()
            st_f = st.copy()
            yield from self._branch(s, True, s.body, st, fr, rt)
            yield from self._branch(s, False, s.orelse, st_f, fr, rt)

    def _branch(self, s, outcome, body, st, fr, cond_term):
        if cond_term is not None:
            st.conds = st.conds + ((cond_term, outcome, s),)
        for st2, sig in self._block(body, st, fr):
            if sig in ("continue", "break", "return", "raise") and cond_term is not None and st2.exit_guard is None:
                # remember the innermost opaque guard whose branch left the loop body / function
                st2.exit_guard = (cond_term, outcome, s)
            yield st2, sig

    def _for(self, s, st, fr):
        it = self.ev(s.iter, st, fr)
        names, attrs = _assigned_names(s.body)
        pre = {n: st.env[n] for n in names if n in st.env and not (st.env[n][0] == "unk" and st.env[n][1] in ("loop-carried", "after-loop"))}
        for n in names:
            # a variable defined before the loop and re-assigned in it is loop-carried: it is a
            # symbol inside the body; the rules compare its value at the end of the iteration with it
            ov = getattr(self, "carried_override", None)
            if ov and (s.lineno, n) in ov and n in pre:
                st.env[n] = ov[(s.lineno, n)]  # value the variable has after some earlier iteration (see XrefModel._unroll)
            else:
                st.env[n] = ("carried", n, s.lineno) if n in pre else ("unk", "loop-carried", n)
        for k in list(st.heap):
            if k[1] in attrs:
                st.heap[k] = ("unk", "loop-carried attribute", k[1])
        st.dirty |= attrs
        mc = it if isinstance(it, tuple) else None
        if mc and mc[0] == "call" and mc[1] == ("builtin", "enumerate") and mc[2]:
            x = mc[2][0]
            val = ("tuple", ("enumidx", x), ("elem", x))
        else:
            val = ("elem", it)
        self._assign(s.target, val, st, fr, s)
        any_path = False
        for st2, sig in self._block(s.body, st, fr):
            any_path = True
            if sig in ("return", "raise"):
                yield st2, sig
                continue
            self._emit(st2, fr, "iter_end", s, value=st2.exit_guard, name=sig or "end",
                       key={n: (pre[n], st2.env.get(n)) for n in pre})
            st2.exit_guard = None
            for n in names:
                st2.env[n] = ("unk", "after-loop", n)
            if sig == "break":
                yield st2, None
            else:
                yield from self._block(s.orelse, st2, fr)
        if not any_path:
            yield st, None

    # ---- assignment ---------------------------------------------------------
    def _assign(self, target, val, st, fr, node):
        if isinstance(target, ast.Name):
            st.env[target.id] = val
        elif isinstance(target, (ast.Tuple, ast.List)):
            if isinstance(val, tuple) and val and val[0] in ("tuple", "list") and len(val) - 1 == len(target.elts):
                for t, v in zip(target.elts, val[1:]):
                    self._assign(t, v, st, fr, node)
            else:
                for i, t in enumerate(target.elts):
                    self._assign(t, ("item", val, i), st, fr, node)
        elif isinstance(target, ast.Attribute):
            base = self.ev(target.value, st, fr)
            st.heap[(base, target.attr)] = val
            self._emit(st, fr, "store_attr", node, base=base, name=target.attr, value=val)
        elif isinstance(target, ast.Subscript):
            base = self.ev(target.value, st, fr)
            key = self.ev(target.slice, st, fr)
            self._emit(st, fr, "store_sub", node, base=base, key=key, value=val)
        elif isinstance(target, ast.Starred):
            self._assign(target.value, ("unk", "starred"), st, fr, node)
        else:
            raise AnalysisError("unsupported assignment target %s" % type(target).__name__)

    # ---- calls ----------------------------------------------------------------
    def _resolve_callee(self, call, st, fr):
        """-> (callee Func | None, recv_term | None, fterm, args, kw)"""
        args = []
        for a in call.args:
            if isinstance(a, ast.Starred):
                args.append(("unk", "star-arg"))
            else:
                args.append(self.ev(a, st, fr))
        kw = tuple((k.arg, self.ev(k.value, st, fr)) for k in call.keywords if k.arg is not None)
        f = call.func
        callee = None
        recv = None
        if isinstance(f, ast.Attribute):
            recv = self.ev(f.value, st, fr)
            fterm = ("attr", recv, f.attr)
            if isinstance(recv, tuple) and recv[0] == "module":
                m = self.eng.repo.modules.get(recv[1])
                if m is not None:
                    g = self.eng.global_term(m, f.attr)
                    fterm = g
                    recv = None
                    if g[0] == "func":
                        callee = self.eng.func(g[1], g[2])
            else:
                c = self.eng.type_of(recv, self.root_cls, self.hints)
                if c is None and fr.self_term is not None and recv == fr.self_term and fr.func.cls is not None:
                    c = fr.func.cls
                if c is not None:
                    callee = self.eng.lookup(c, f.attr)
                    if callee is not None and isinstance(callee.cls.lookup_attr(f.attr), ast.expr):
                        pass
                    if callee is None:
                        # alias at class level:  get_method_analysis = get_method
                        a = c.lookup_attr(f.attr)
                        if isinstance(a, ast.Name):
                            callee = self.eng.lookup(c, a.id)
        else:
            fterm = self.ev(f, st, fr)
            if isinstance(fterm, tuple) and fterm[0] == "func":
                callee = self.eng.func(fterm[1], fterm[2])
        return callee, recv, fterm, args, kw

    def _inlinable(self, callee, fr):
        if callee is None:
            return False
        if callee.name in self.no_inline or callee.qualname in self.no_inline:
            return False
        if fr.depth >= MAX_DEPTH:
            return False
        if any(q == callee.qualname for q, _ in fr.stack) or callee.qualname == fr.func.qualname:
            return False
        if _is_generator(callee.node) or _is_property(callee.node):
            return False
        if any(isinstance(n, ast.While) for n in walk_no_nested(callee.node)):
            return False  # outside the executor's fragment: the call stays opaque
        return True

    def _special_call(self, call, fterm, recv, args, kw, st, fr):
        """calls with a built-in meaning -> term or None"""
        if isinstance(fterm, tuple) and fterm[0] == "class":
            c = self.eng.cls_of_term(fterm)
            if c is not None and self.eng.folder.is_enum(c) and len(args) == 1:
                return ("enumconv", c.name, args[0])
            return ("new", fterm[1], tuple(args), fterm[2])
        if fterm == ("builtin", "isinstance") and len(args) == 2:
            return ("isinstance", args[0], args[1])
        if fterm == ("builtin", "len") and len(args) == 1:
            try:
                return const(len(pyval(args[0], None)))
            except (_NoVal, TypeError):
                return None
        if fterm == ("builtin", "range") and 1 <= len(args) <= 3:
            try:
                vals = [pyval(a, None) for a in args]
                if all(isinstance(v, int) for v in vals):
                    r = range(*vals)
                    if len(r) <= 70000:
                        return ("tuple",) + tuple(const(v) for v in r)
            except (_NoVal, TypeError, ValueError):
                pass
            return None
        if fterm in (("builtin", "set"), ("builtin", "frozenset"), ("builtin", "tuple"), ("builtin", "list")) and len(args) == 1 and args[0][0] in ("tuple", "list", "set"):
            return ("tuple",) + tuple(args[0][1:])
        if isinstance(fterm, tuple) and fterm[0] == "attr" and fterm[2] == "get_op_value" and not args and self.op is not None:
            return OP
        return None

    def _call_value(self, call, st, fr):
        """a call in expression context: no forking.  pure repository callees are
        replaced by their unique return value; everything else is an opaque term
        (and an event)."""
        callee, recv, fterm, args, kw = self._resolve_callee(call, st, fr)
        sp = self._special_call(call, fterm, recv, args, kw, st, fr)
        if sp is not None:
            return sp
        t = mk_call(fterm, args, kw)
        if self._inlinable(callee, fr):
            r = self._pure_summary(callee, args, kw, recv, fr)
            if r is not None:
                return r
        self._emit(st, fr, "call", call, recv=recv, name=_fname(fterm), args=tuple(args), kw=kw, value=t)
        return t

    def _pure_summary(self, callee, args, kw, recv, fr):
        key = (callee.module.relpath, callee.qualname, tuple(args), kw, recv, self.op)
        if key in self.eng._summary:
            return self.eng._summary[key]
        self.eng._summary[key] = None
        sub = Exec(self.eng, self.op, self.no_inline, self.root_cls, self.hints)
        sub.npaths = 0
        st = St()
        sub._bind_params(callee, args, recv, st, kw=kw)
        fr2 = Frame(callee, fr.stack + ((fr.func.qualname, None),), fr.depth + 1, recv)
        rets = set()
        pure = True
        try:
            for s, sig in sub._block(callee.node.body, st, fr2):
                if s.raised:
                    continue
                for e in s.events:
                    if e.kind in ("store_sub", "store_attr") or (e.kind == "call" and e.name in MUTATORS):
                        pure = False
                rets.add(s.retval if sig == "return" else const(None))
        except AnalysisError:
            pure = False
        r = None
        if pure:
            nn = {x for x in rets if x != const(None)}
            if len(nn) == 1:
                r = nn.pop()
                # the value must be expressible in the caller: no symbol created inside the callee
                outer = set()
                for a in list(args) + [v for _, v in kw] + ([recv] if recv is not None else []):
                    outer.update(x for x in subterms(a) if isinstance(x, tuple) and x and x[0] in ("elem", "carried", "unk", "enumidx"))
                for x in subterms(r):
                    if isinstance(x, tuple) and x and x[0] in ("elem", "carried", "unk", "enumidx") and x not in outer:
                        r = None
                        break
        self.eng._summary[key] = r
        return r

    def _call_stmt(self, call, st, fr):
        """a call that is a whole statement / the whole right-hand side: repository
        callees are inlined with forking.  yields (state, value)"""
        callee, recv, fterm, args, kw = self._resolve_callee(call, st, fr)
        sp = self._special_call(call, fterm, recv, args, kw, st, fr)
        if sp is not None:
            yield st, sp
            return
        if self._inlinable(callee, fr):
            r = self._pure_summary(callee, args, kw, recv, fr)
            if r is not None:
                yield st, r
                return
            fr2 = Frame(callee, fr.stack + ((fr.func.qualname, call),), fr.depth + 1, recv)
            saved_env = st.env
            st.env = {}
            self._bind_params(callee, args, recv, st, kw=kw)
            n = 0
            for s2, sig in self._block(callee.node.body, st, fr2):
                n += 1
                val = s2.retval if sig == "return" else const(None)
                s2.retval = None
                s2.env = dict(saved_env)
                s2.exit_guard = None
                if sig == "raise":
                    continue  # the path ends inside the callee
                yield s2, val
            return
        t = mk_call(fterm, args, kw)
        self._emit(st, fr, "call", call, recv=recv, name=_fname(fterm), args=tuple(args), kw=kw, value=t)
        yield st, t

    # ---- expressions -------------------------------------------------------------
    def ev(self, e, st, fr):
        if e is None:
            return const(None)
        if isinstance(e, ast.Constant):
            return const(e.value)
        if isinstance(e, ast.Name):
            if e.id in st.env:
                return st.env[e.id]
            if e.id in ("True", "False", "None"):
                return const({"True": True, "False": False, "None": None}[e.id])
            return self.eng.global_term(fr.func.module, e.id)
        if isinstance(e, ast.Attribute):
            base = self.ev(e.value, st, fr)
            if isinstance(base, tuple) and base[0] == "module":
                m = self.eng.repo.modules.get(base[1])
                if m is not None:
                    return self.eng.global_term(m, e.attr)
            if isinstance(base, tuple) and base[0] == "class":
                c = self.eng.cls_of_term(base)
                if c is not None and self.eng.folder.is_enum(c):
                    mem = self.eng.folder.enum_members(c)
                    if e.attr in mem and isinstance(mem[e.attr], int):
                        return const(int(mem[e.attr]))
            attr = e.attr
            if (base, attr) in st.heap:
                return st.heap[(base, attr)]
            if isinstance(base, tuple) and base[0] == "new":
                v = self._ctor_attr(base, attr)
                if v is not None:
                    return v
            if attr in st.dirty:
                return ("unk", "attribute written in a loop", attr)
            # property getters of known classes are summarised
            c = self.eng.type_of(base, self.root_cls, self.hints)
            if c is not None:
                f = self.eng.lookup(c, attr)
                if f is not None and _is_property(f.node) and fr.depth < MAX_DEPTH:
                    r = self._pure_summary(f, [], (), base, fr)
                    if r is not None:
                        return r
            return ("attr", base, attr)
        if isinstance(e, ast.Subscript):
            base = self.ev(e.value, st, fr)
            if isinstance(e.slice, ast.Slice):
                return ("slice", base, self.ev(e.slice.lower, st, fr), self.ev(e.slice.upper, st, fr))
            key = self.ev(e.slice, st, fr)
            if isinstance(base, tuple) and base[0] in ("tuple", "list") and is_const(key) and isinstance(key[1], int):
                if -len(base) + 1 <= key[1] < len(base) - 1:
                    return base[1:][key[1]]
            return ("sub", base, key)
        if isinstance(e, ast.Call):
            return self._call_value(e, st, fr)
        if isinstance(e, ast.BinOp):
            return self._binop(e.op, self.ev(e.left, st, fr), self.ev(e.right, st, fr))
        if isinstance(e, ast.UnaryOp):
            v = self.ev(e.operand, st, fr)
            if isinstance(e.op, ast.Not):
                return ("not", v)
            if isinstance(e.op, ast.USub):
                r = lin_mul(v, const(-1))
                if r is not None:
                    return r
            return ("unop", type(e.op).__name__, v)
        if isinstance(e, ast.BoolOp):
            vals = [self.ev(v, st, fr) for v in e.values]
            return ("and" if isinstance(e.op, ast.And) else "or",) + tuple(vals)
        if isinstance(e, ast.Compare):
            left = self.ev(e.left, st, fr)
            parts = []
            for op, c in zip(e.ops, e.comparators):
                right = self.ev(c, st, fr)
                parts.append(("cmp", _CMPNAME[type(op)], left, right))
                left = right
            return parts[0] if len(parts) == 1 else ("and",) + tuple(parts)
        if isinstance(e, ast.IfExp):
            t = self.ev(e.test, st, fr)
            r = truth(t, self.op)
            if r is True:
                return self.ev(e.body, st, fr)
            if r is False:
                return self.ev(e.orelse, st, fr)
            return ("ifexp", residual(t, self.op), self.ev(e.body, st, fr), self.ev(e.orelse, st, fr))
        if isinstance(e, (ast.Tuple, ast.List)):
            return ("tuple" if isinstance(e, ast.Tuple) else "list",) + tuple(self.ev(x, st, fr) for x in e.elts)
        if isinstance(e, ast.Set):
            return ("set",) + tuple(self.ev(x, st, fr) for x in e.elts)
        if isinstance(e, ast.Dict):
            return ("dict",) + tuple((self.ev(k, st, fr), self.ev(v, st, fr)) for k, v in zip(e.keys, e.values))
        if isinstance(e, (ast.ListComp, ast.SetComp, ast.GeneratorExp)) and len(e.generators) == 1:
            g = e.generators[0]
            it = self.ev(g.iter, st, fr)
            saved = dict(st.env)
            self._assign(g.target, ("elem", it), st, fr, e)
            elt = self.ev(e.elt, st, fr)
            conds = tuple(self.ev(c, st, fr) for c in g.ifs)
            st.env = saved
            return ("comp", elt, it, conds)
        if isinstance(e, ast.DictComp) and len(e.generators) == 1:
            g = e.generators[0]
            it = self.ev(g.iter, st, fr)
            saved = dict(st.env)
            self._assign(g.target, ("elem", it), st, fr, e)
            conds = tuple(self.ev(c, st, fr) for c in g.ifs)
            kt = self.ev(e.key, st, fr)
            vt = self.ev(e.value, st, fr)
            st.env = saved
            return ("dictcomp", kt, vt, it, conds)
        if isinstance(e, ast.JoinedStr):
            return ("fstring",) + tuple(self.ev(v.value, st, fr) for v in e.values if isinstance(v, ast.FormattedValue))
        if isinstance(e, ast.Lambda):
            return ("lambda", id(e))
        if isinstance(e, ast.Starred):
            return ("starred", self.ev(e.value, st, fr))
        if isinstance(e, ast.NamedExpr):
            v = self.ev(e.value, st, fr)
            st.env[e.target.id] = v
            return v
        return ("expr", type(e).__name__, norm(e))

    def _ctor_attr(self, new, attr):
        """X(a, b).attr where X.__init__ does `self.attr = <parameter>` -> the argument"""
        c = self.eng.repo.modules[new[3]].classes.get(new[1]) if len(new) > 3 and new[3] in self.eng.repo.modules else None
        if c is None:
            return None
        init = self.eng.lookup(c, "__init__")
        if init is None:
            return None
        params = init.params()[1:]
        for n in walk_no_nested(init.node):
            if isinstance(n, ast.Assign) and isinstance(n.value, ast.Name) and n.value.id in params:
                for t in n.targets:
                    if isinstance(t, ast.Attribute) and t.attr == attr and isinstance(t.value, ast.Name) and t.value.id == "self":
                        i = params.index(n.value.id)
                        if i < len(new[2]):
                            return new[2][i]
        return None

    def _binop(self, op, a, b):
        if mentions(a, OP) or mentions(b, OP):
            self.op_arith = True
        if isinstance(op, ast.Add):
            r = lin_add(a, b, 1)
            if r is not None and (_inty(a) and _inty(b)):
                return r
            if a[0] in ("tuple", "list") and b[0] in ("tuple", "list") and a[0] == b[0]:
                return a + b[1:]
        elif isinstance(op, ast.Sub):
            r = lin_add(a, b, -1)
            if r is not None and (_inty(a) and _inty(b)):
                return r
        elif isinstance(op, ast.Mult):
            r = lin_mul(a, b)
            if r is not None and (_inty(a) and _inty(b)):
                return r
        try:
            va, vb = pyval(a, None), pyval(b, None)
            import operator
            f = {ast.Add: operator.add, ast.Sub: operator.sub, ast.Mult: operator.mul, ast.Mod: operator.mod,
                 ast.FloorDiv: operator.floordiv, ast.BitAnd: operator.and_, ast.BitOr: operator.or_,
                 ast.LShift: operator.lshift, ast.RShift: operator.rshift, ast.BitXor: operator.xor}.get(type(op))
            if f is not None:
                r = f(va, vb)
                if isinstance(r, (int, str, bytes)):
                    return const(r)
        except (_NoVal, TypeError, ValueError, ZeroDivisionError):
            pass
        if isinstance(op, ast.LShift) and is_const(b) and isinstance(b[1], int) and 0 <= b[1] < 64:
            r = lin_mul(a, const(1 << b[1]))
            if r is not None:
                return r
        return ("binop", _BINNAME.get(type(op), type(op).__name__), a, b)


def _op_direct(t):
    """does the opcode occur in t other than inside the arguments of an opaque call / lookup?"""
    if t == OP:
        return True
    if not isinstance(t, tuple) or not t:
        return False
    if isinstance(t[0], str):
        if t[0] in ("call", "sub", "attr", "new", "elem", "item", "const"):
            return False
        return any(_op_direct(x) for x in t[1:] if isinstance(x, tuple))
    return any(_op_direct(x) for x in t if isinstance(x, tuple))


def _fname(fterm):
    if isinstance(fterm, tuple) and fterm:
        if fterm[0] in ("attr", "func"):
            return fterm[2]
        if fterm[0] in ("builtin", "global", "localfunc", "class"):
            return fterm[1]
    return str(fterm[-1]) if isinstance(fterm, tuple) and fterm else str(fterm)


def _inty(t):
    """may the term be an integer (not a known str/tuple)?"""
    if is_const(t):
        return isinstance(t[1], int) and not isinstance(t[1], bool)
    return t[0] not in ("tuple", "list", "set", "dict", "fstring", "new")


_CMPNAME = {ast.Eq: "==", ast.NotEq: "!=", ast.Lt: "<", ast.LtE: "<=", ast.Gt: ">", ast.GtE: ">=",
            ast.In: "in", ast.NotIn: "not in", ast.Is: "is", ast.IsNot: "is not"}
_BINNAME = {ast.Add: "+", ast.Sub: "-", ast.Mult: "*", ast.Mod: "%", ast.FloorDiv: "//", ast.Div: "/",
            ast.BitAnd: "&", ast.BitOr: "|", ast.BitXor: "^", ast.LShift: "<<", ast.RShift: ">>", ast.Pow: "**"}


def _as_load(t):
    t2 = copy.copy(t)
    t2.ctx = ast.Load()
    return t2


def _leaves_directly(body):
    return bool(body) and isinstance(body[-1], (ast.Continue, ast.Break, ast.Return, ast.Raise))


def _is_generator(fn):
    return any(isinstance(n, (ast.Yield, ast.YieldFrom)) for n in walk_no_nested(fn))


def _is_property(fn):
    return any((isinstance(d, ast.Name) and d.id == "property") or (isinstance(d, ast.Attribute) and d.attr in ("getter",))
               for d in fn.decorator_list)


def _is_static(fn):
    return any(isinstance(d, ast.Name) and d.id == "staticmethod" for d in fn.decorator_list)


# ===========================================================================
# sinks
# ===========================================================================
class Collector:
    """ctx-like sink used for in-memory mutation adequacy: records findings instead of reporting them"""

    def __init__(self, tier="quick"):
        self.findings = []
        self.counts = {}
        self.tier = tier
        self.obligations = 0

    def check(self, rule, instance, ok, func, construct, message, node=None, witness=None, detail=""):
        self.obligations += 1
        if not ok:
            self.finding(rule, func, construct, message, node=node)
        return ok

    def ob(self, rule, instance, ok, detail=""):
        self.obligations += 1
        return ok

    def finding(self, rule, func, construct, message, node=None, file=None, witness=None):
        qn = func.qualname if hasattr(func, "qualname") else func
        self.findings.append((rule, qn, norm(construct) if construct is not None else "", message))

    def count(self, name, n=1):
        self.counts[name] = self.counts.get(name, 0) + n

    def floor(self, name, minimum, actual=None):
        actual = self.counts.get(name, 0) if actual is None else actual
        if actual < minimum:
            raise AnalysisError("instance floor not met for %s: %d < %d" % (name, actual, minimum))

    def require(self, cond, what):
        if not cond:
            raise AnalysisError(what)

    def note(self, s):
        pass

    def assume(self, s):
        pass

    def analysed(self, f):
        pass

    def keys(self):
        return {(r, q, c) for r, q, c, m in self.findings}


# ===========================================================================
# origin typing
# ===========================================================================
XREF_CLASSES = ("ClassAnalysis", "MethodAnalysis", "StringAnalysis", "FieldAnalysis")
DECODERS = {"get_cm_type": "type", "get_cm_method": "method", "get_cm_string": "string", "get_cm_field": "field"}
ID_ITEM = {"method": "MethodIdItem", "field": "FieldIdItem"}


def _is_definition_lookup(name):
    return (name.startswith(("get_encoded_field", "get_encoded_method", "get_class", "get_method", "get_field", "get_all_fields"))
            or name in ("get_classes", "get_methods", "get_fields", "get_classes_names", "get_methods_class", "get_fields_class"))


def labels_of_role(r):
    """origin labels of a role: what the value is derived from"""
    if r is None:
        return {"UNKNOWN"}
    k = r[0]
    if k == "DERIVED":
        return set(r[1])
    if k == "CUR":
        return {"CUR"}
    if k == "WRONGIDX":
        return {"TARGET"} | labels_of_role(r[2])
    if k in ("T", "INFO", "REFIDX", "WRONGVM"):
        return {"TARGET"}
    if k == "OFF":
        return {"OFF"}
    if k in ("INS", "INSLEN", "CM", "INSPAIR"):
        return {"INS"}
    if k == "VM":
        return {"INS"} if r[1] == "ins" else set()
    if k in ("OP", "REF"):
        return {"OP"}
    if k == "const":
        return {"CONST"}
    if k == "PREV":
        return {"PREV"}
    if k in ("TABLE", "ANALYSIS"):
        return set()
    if k == "LIN":
        out = set()
        for a, _ in r[1]:
            out |= labels_of_role(a)
        return out
    if k == "METH" and r[1] == "CUR":
        return {"CUR"}
    if k == "ENC" and len(r) > 1 and r[1] == "CUR":
        return {"CUR"}
    out = set()
    for x in r[1:]:
        if isinstance(x, tuple):
            if x and isinstance(x[0], str):
                out |= labels_of_role(x)
            else:
                for y in x:
                    if isinstance(y, tuple):
                        out |= labels_of_role(y) if (y and isinstance(y[0], str)) else set()
        elif x is None:
            out.add("UNKNOWN")
    return out


def _essential(want):
    """what a value in the position of `want` must be derived from"""
    lab = labels_of_role(want)
    ess = set()
    for l in ("TARGET", "OFF", "CUR", "OP"):
        if l in lab:
            ess.add(l)
    return ess


def compare_roles(got, want):
    """'ok' | 'wrong' | 'unknown'.  wrong = the value provably is not what the specification asks for: it is a
    different specific role, or it stems from a previous iteration, or it is not derived from what it must be derived
    from (e.g. a class name derived from the scanned class where the instruction's reference is required)."""
    if got == want:
        return "ok"
    if got is None:
        return "unknown"
    lab = labels_of_role(got)
    if "PREV" in lab:
        return "wrong"
    if (isinstance(got, tuple) and isinstance(want, tuple) and got and want and got[0] == want[0] and len(got) == len(want)
            and got[0] in ("CLS", "STR", "METH", "FIELD", "ENC")):
        res = [compare_roles(g, w) if isinstance(w, tuple) and w and isinstance(w[0], str) else ("ok" if g == w else "wrong")
               for g, w in zip(got[1:], want[1:])]
        if "wrong" in res:
            return "wrong"
        if "unknown" in res:
            return "unknown"
        return "ok"
    if "UNKNOWN" in lab:
        return "unknown"
    if got[0] != "DERIVED":
        return "wrong"  # a specific, different role
    for e in _essential(want):
        have = lab | ({"TARGET"} if ("INS" in lab and e == "TARGET") else set())
        if e not in have:
            return "wrong"
    return "unknown"


class Roles:
    """classifies terms of `Analysis._create_xref` by origin"""

    def __init__(self, eng: Engine, root: Func):
        self.eng = eng
        self.root = root
        ps = root.params()
        if len(ps) < 2:
            raise AnalysisError("%s: expected (self, current_class)" % root.qualname)
        self.cls_param = ("param", root.qualname, ps[1])
        self.components = {}
        dexm = eng.mod(DEX)
        for pool, cname in ID_ITEM.items():
            f = eng.lookup(dexm.cls(cname), "get_list")
            if f is None:
                raise AnalysisError("anchor vanished: %s.get_list" % cname)
            comps = None
            for n in ast.walk(f.node):
                if isinstance(n, ast.Return) and isinstance(n.value, (ast.List, ast.Tuple)):
                    comps = []
                    for e in n.value.elts:
                        if (isinstance(e, ast.Call) and isinstance(e.func, ast.Attribute) and isinstance(e.func.value, ast.Name)
                                and e.func.value.id == "self" and e.func.attr.startswith("get_")):
                            comps.append(e.func.attr[4:])
                        else:
                            raise AnalysisError("%s.get_list: component %s is not a self.get_*() call" % (cname, ast.unparse(e)))
            if not comps:
                raise AnalysisError("%s.get_list does not return a literal list" % cname)
            self.components[pool] = comps
        self._memo = {}

    def role(self, t):
        if t in self._memo:
            return self._memo[t]
        self._memo[t] = None
        r = self._role(t)
        if r is None and isinstance(t, tuple) and t:
            # not one of the specific roles: if every leaf has a known origin the term is still *typed by what it is
            # derived from* (CUR / TARGET / OFF / INS / OP / CONST / PREV); an unknown leaf leaves it unclassified
            lab = self.labels_term(t)
            if "UNKNOWN" not in lab:
                r = ("DERIVED", tuple(sorted(lab)), self._render_struct(t))
        self._memo[t] = r
        return r

    def labels_term(self, t, depth=0):
        if not isinstance(t, tuple) or not t:
            return set()
        if depth > 40:
            return {"UNKNOWN"}
        k = t[0]
        if not isinstance(k, str):
            out = set()
            for x in t:
                if isinstance(x, tuple):
                    out |= self.labels_term(x, depth + 1)
            return out
        if k == "prev":
            return {"PREV"}
        if k == "unk":
            return {"PREV"} if len(t) > 1 and t[1] in ("loop-carried", "after-loop") else {"UNKNOWN"}
        if k in ("carried", "param", "localfunc", "lambda", "expr", "starred"):
            if t == self.cls_param:
                return {"CUR"}
            return {"UNKNOWN"}
        if k == "const":
            return {"CONST"}
        if k in ("self0", "global", "builtin", "class", "func", "module"):
            return set()
        r = self._memo.get(t) if t in self._memo else self._role(t)
        if r is not None and r[0] != "DERIVED":
            return labels_of_role(r)
        out = set()
        for x in t[1:]:
            if isinstance(x, tuple):
                out |= self.labels_term(x, depth + 1)
        return out

    def _render_struct(self, t):
        return self.render(t, 0, structural=True)

    def _role(self, t):
        if not isinstance(t, tuple) or not t:
            return None
        k = t[0]
        R = self.role
        if t == self.cls_param:
            return ("CUR", "classdef")
        if k == "prev":
            return None  # typed DERIVED{PREV} by role()
        if k == "const":
            return ("const", t[1])
        if t == OP:
            return ("OP",)
        if k == "self0":
            return ("ANALYSIS",)
        if k == "enumconv" and t[2] == OP:
            return ("REF", t[1])
        if k == "elem":
            mc = is_mcall(t[1])
            if mc and not mc[2]:
                rr = R(mc[0])
                if mc[1] == "get_methods" and rr == ("CUR", "classdef"):
                    return ("CUR", "encmeth")
                if mc[1] == "get_instructions_idx" and rr == ("CUR", "encmeth"):
                    return ("INSPAIR",)
            return None
        if k == "item":
            if R(t[1]) == ("INSPAIR",):
                return ("OFF",) if t[2] == 0 else (("INS",) if t[2] == 1 else None)
            return None
        if k == "attr":
            rb = R(t[1])
            if t[2] == "vm" and rb == ("CM",):
                return ("VM", "ins")
            if t[2] in ("cm", "CM") and rb == ("INS",):
                return ("CM",)
            if rb == ("ANALYSIS",):
                return ("TABLE", t[2])
            if t[2] == "vms" and rb == ("ANALYSIS",):
                return ("TABLE", "vms")
            if rb is not None and rb[0] == "METH" and t[2] == "method":
                return ("ENC",) + rb[1:]
            return None
        if k == "sub" or is_mcall(t, "get"):
            base, key = (t[1], t[2]) if k == "sub" else (t[1][1], t[2][0] if t[2] else None)
            rb = R(base)
            rk = R(key) if key is not None else None
            if rb == ("TABLE", "classes"):
                return ("CLS", rk) if rk is not None else None
            if rb == ("TABLE", "methods"):
                if rk == ("CUR", "encmeth"):
                    return ("METH", "CUR")
                return None
            if rb == ("TABLE", "strings"):
                return ("STR", rk) if rk is not None else None
            if rb == ("TABLE", "vms"):
                return ("VM", "positional")
            if rb is not None and rb[0] == "INFO" and rk is not None and rk[0] == "const" and isinstance(rk[1], int):
                comps = self.components[rb[1]]
                if 0 <= rk[1] < len(comps):
                    return ("T", rb[1], comps[rk[1]], "raw")
                return None
            if k == "sub" and isinstance(base, tuple) and base[0] == "attr" and base[2] == "_fields":
                rc = R(base[1])
                if rc is not None and rc[0] == "CLS" and rk is not None:
                    return ("FIELD", rc, rk)
            if k == "sub" and isinstance(base, tuple) and base[0] == "attr" and base[2] == "_methods":
                # ClassAnalysis._methods[M.method] is M (invariant of add_method, checked separately)
                if rk is not None and rk[0] == "ENC":
                    return ("METH",) + rk[1:]
            return None
        if k == "call":
            mc = is_mcall(t)
            if not mc:
                return None
            recv, name, args = mc
            rr = R(recv)
            if name == "get_name" and not args and rr == ("CUR", "classdef"):
                return ("CUR", "clsname")
            if name == "get_op_value" and rr == ("INS",):
                return ("OP",)
            if name == "get_ref_kind" and not args and rr == ("INS",):
                return ("REFIDX",)
            if name == "get_length" and not args and rr == ("INS",):
                return ("INSLEN",)
            if name in ("get_vm",) and rr in (("CM",), ("METH", "CUR")):
                return ("VM", "ins")
            if name in DECODERS and rr is not None and rr[0] == "VM" and len(args) == 1:
                ra = R(args[0])
                if ra is None:
                    return None
                pool = DECODERS[name]
                if ra != ("REFIDX",):
                    return ("WRONGIDX", pool, ra)
                if rr[1] != "ins":
                    return ("WRONGVM", pool, rr)
                if pool in ID_ITEM:
                    return ("INFO", pool)
                return ("T", pool, None, "raw")
            if name == "lstrip" and rr is not None and rr[0] == "T" and len(args) == 1 and args[0] == const("["):
                return rr[:3] + ("stripped",)
            if name == "get_encoded_field_descriptor" and rr is not None and rr[0] == "VM":
                return ("FIELDITEM", rr, tuple(R(a) for a in args))
            if name == "get_class_name" and not args and rr is not None and rr[0] == "FIELDITEM":
                return ("FIELDITEM.class_name",) + rr[1:]
            if name == "_resolve_method" and rr == ("ANALYSIS",) and len(args) == 3:
                ra = tuple(R(a) for a in args)
                return ("METH", "T") + ra
            if name == "get_method" and not args and rr is not None and rr[0] == "METH":
                return ("ENC",) + rr[1:]
            return None
        if k == "lin":
            parts = []
            for a, c in t[1]:
                ra = R(a)
                if ra is None:
                    return None
                parts.append((ra, c))
            return ("LIN", tuple(parts), t[2])
        if k == "binop":
            ra, rb = R(t[2]), R(t[3])
            if ra is not None and rb is not None:
                return ("BINOP", t[1], ra, rb)
            return None
        return None

    # ---- rendering (canonical, independent of local variable names) -------------
    def render(self, t, depth=0, structural=False):
        r = None if structural else self.role(t)
        if r is not None and r[0] != "DERIVED":
            s = self.rname(r)
            if s is not None:
                return s
        if not isinstance(t, tuple) or not t or depth > 10:
            return show(t)
        k = t[0]
        rd = lambda x: self.render(x, depth + 1)
        if k == "attr":
            return "%s.%s" % (rd(t[1]), t[2])
        if k == "sub":
            return "%s[%s]" % (rd(t[1]), rd(t[2]))
        if k == "call":
            return "%s(%s)" % (rd(t[1]), ", ".join(rd(a) for a in t[2]))
        if k == "cmp":
            return "%s %s %s" % (rd(t[2]), t[1], rd(t[3]))
        if k == "not":
            return "not %s" % rd(t[1])
        if k in ("and", "or"):
            return "(" + (" %s " % k).join(rd(x) for x in t[1:]) + ")"
        if k in ("tuple", "list"):
            return "(" + ", ".join(rd(x) for x in t[1:]) + ")"
        if k == "new":
            return "%s(%s)" % (t[1], ", ".join(rd(a) for a in t[2]))
        if k == "item":
            return "%s[%d]" % (rd(t[1]), t[2])
        if k == "lin":
            parts = [rd(a) if c == 1 else "%d*%s" % (c, rd(a)) for a, c in t[1]]
            if t[2]:
                parts.append(str(t[2]))
            return " + ".join(parts)
        if k == "isinstance":
            return "isinstance(%s, %s)" % (rd(t[1]), rd(t[2]))
        if k == "elem":
            return "<element of %s>" % rd(t[1])
        if k == "prev":
            return "<previous iteration's %s>" % rd(t[1])
        if k == "unk":
            return "<value left over from another iteration: %s>" % " ".join(str(x) for x in t[2:])
        return show(t)

    def rname(self, r):
        k = r[0]
        if r == ("CUR", "classdef"):
            return "current_class"
        if r == ("CUR", "clsname"):
            return "cur_class_name"
        if r == ("CUR", "encmeth"):
            return "current_method"
        if r == ("METH", "CUR"):
            return "cur_method_analysis"
        if k == "METH" and r[1] == "T":
            return "_resolve_method(%s)" % ", ".join(self.rname(x) if x else "?" for x in r[2:])
        if k == "ENC":
            return "%s.method" % self.rname(("METH",) + r[1:])
        if k == "CLS":
            return "classes[%s]" % (self.rname(r[1]) if r[1] else "?")
        if k == "STR":
            return "strings[%s]" % (self.rname(r[1]) if r[1] else "?")
        if k == "FIELD":
            return "%s._fields[%s]" % (self.rname(r[1]), self.rname(r[2]))
        if k == "OFF":
            return "off"
        if k == "INS":
            return "instruction"
        if k == "OP":
            return "op_value"
        if k == "REFIDX":
            return "ref_idx"
        if k == "CM":
            return "instruction.cm"
        if k == "VM":
            return {"ins": "instruction.cm.vm", "positional": "self.vms[..]"}.get(r[1], "vm")
        if k == "INFO":
            return "%sref" % r[1]
        if k == "T":
            base = "%sref" % r[1] + (".%s" % r[2] if r[2] else "")
            return base + (".lstrip('[')" if r[3] == "stripped" else "")
        if k == "FIELDITEM":
            return "%s.get_encoded_field_descriptor(%s)" % (self.rname(r[1]), ", ".join(self.rname(x) if x else "?" for x in r[2]))
        if k == "FIELDITEM.class_name":
            return self.rname(("FIELDITEM",) + r[1:]) + ".get_class_name()"
        if k == "REF":
            return "%s(op_value)" % r[1]
        if k == "TABLE":
            return "self.%s" % r[1]
        if k == "ANALYSIS":
            return "self"
        if k == "const":
            return repr(r[1])
        if k == "WRONGVM":
            return "%s.get_cm_%s(ref_idx)" % (self.rname(r[2]), r[1])
        if k == "WRONGIDX":
            return "get_cm_%s(%s)" % (r[1], self.rname(r[2]) or "?")
        if k == "INSLEN":
            return "instruction.get_length()"
        if k == "DERIVED":
            return r[2]
        if k == "PREV":
            return "<value of a previous iteration>"
        if k == "LIN":
            parts = [(self.rname(a) or "?") if c == 1 else "%d*%s" % (c, self.rname(a) or "?") for a, c in r[1]]
            if r[2]:
                parts.append(str(r[2]))
            return " + ".join(parts)
        if k == "BINOP":
            return "(%s %s %s)" % (self.rname(r[2]) or "?", r[1], self.rname(r[3]) or "?")
        return None


# ===========================================================================
# facts of _create_xref
# ===========================================================================
class Fact:
    """one primitive xref record:  <owner>.<set>[key].add(tuple)"""
    __slots__ = ("ev", "owner_cls", "attr", "getter", "owner", "key", "tup", "r_owner", "r_key", "r_tup", "pool")

    def site(self):
        return (id(self.ev.root_node()), self.owner_cls, self.getter)


class PathRec:
    __slots__ = ("ops", "state", "facts", "conds", "guard", "end", "reached")


def xref_getters(eng: Engine):
    """(class name, set attribute) -> getter name, from the get_xref_* methods"""
    m = eng.mod(ANALYSIS)
    out = {}
    for cn in XREF_CLASSES:
        c = m.cls(cn)
        for f in eng.cls_methods(c):
            if not f.name.startswith("get_xref_"):
                continue
            for n in ast.walk(f.node):
                if isinstance(n, ast.Return) and n.value is not None:
                    for a in ast.walk(n.value):
                        if isinstance(a, ast.Attribute) and isinstance(a.value, ast.Name) and a.value.id == "self":
                            prev = out.get((cn, a.attr))
                            if prev is not None and prev != f.name:
                                raise AnalysisError("%s.%s is returned by two getters (%s, %s)" % (cn, a.attr, prev, f.name))
                            out[(cn, a.attr)] = f.name
    return out


class XrefModel:
    """all paths of Analysis._create_xref for every opcode, reduced to facts"""

    NO_INLINE = ("_resolve_method", "Analysis._resolve_method")

    def __init__(self, eng: Engine):
        self.eng = eng
        self.m = eng.mod(ANALYSIS)
        self.root = eng.func(ANALYSIS, "Analysis._create_xref")
        self.root_cls = self.m.cls("Analysis")
        self.roles = Roles(eng, self.root)
        self.getters = xref_getters(eng)
        self.paths = []
        self.origin = {}
        self._run()

    def _funcs_for_constants(self):
        fs = [self.root]
        for cn in XREF_CLASSES:
            for f in self.eng.cls_methods(self.m.cls(cn)):
                if f.name.startswith("add_"):
                    fs.append(f)
        # helpers of Analysis called from the root (extract-method refactors)
        names = {n.func.attr for n in ast.walk(self.root.node)
                 if isinstance(n, ast.Call) and isinstance(n.func, ast.Attribute) and isinstance(n.func.value, ast.Name) and n.func.value.id == "self"}
        for nm in names:
            f = self.eng.lookup(self.root_cls, nm)
            if f is not None:
                fs.append(f)
        return fs

    def _run(self):
        parts = self.eng.op_partition(self._funcs_for_constants(), OP_DOMAIN)
        self.nparts = len(parts)
        arith = False
        runs = []
        for rep, members in parts:
            ex = Exec(self.eng, op=rep, no_inline=self.NO_INLINE, root_cls=self.root_cls)
            sts = ex.run(self.root)
            arith = arith or ex.op_arith
            runs.append((members, sts))
        if arith:
            runs = []
            for k in OP_DOMAIN:
                ex = Exec(self.eng, op=k, no_inline=self.NO_INLINE, root_cls=self.root_cls)
                runs.append(([k], ex.run(self.root)))
            self.nparts = len(OP_DOMAIN)
        self.ins_loops = set()
        self.unrolled_states = 0
        runs = self._unroll(runs)
        for members, sts in runs:
            for st in sts:
                self.paths.append(self._reduce(members, st))

    # ---- loop-carried state of the instruction loop: consecutive iterations --------------------------------
    def _int_typed(self, t):
        r = self.roles.role(t)
        return r in (("REFIDX",), ("OFF",)) or (r is not None and r[0] == "DERIVED" and False)

    def _cond_truth(self, term, op):
        """truth of a condition after substitution; an instruction index / offset is never None"""
        tv = truth(term, op)
        if tv is not None:
            return tv
        atom, pol = _norm_cond(term, True)
        # _norm_cond turns `X is None` / `X == None` into (X, False): i.e. the condition holds iff X is falsy/None
        if isinstance(term, tuple) and term and term[0] in ("cmp", "not"):
            inner = term
            neg = False
            while inner[0] == "not":
                inner, neg = inner[1], not neg
            if inner[0] == "cmp" and const(None) in (inner[2], inner[3]) and inner[1] in ("==", "is", "!=", "is not"):
                other = inner[3] if inner[2] == const(None) else inner[2]
                if self._int_typed(other) or self._int_typed(subst_term(other, self._unprev)):
                    val = inner[1] in ("!=", "is not")
                    return (not val) if neg else val
        return None

    def _unroll(self, runs):
        """If variables are carried from one iteration of the instruction loop to the next (defined before the loop,
        re-assigned in it, and read by a condition or a record), the generic iteration is instantiated with every
        state such a variable can have after 0, 1 and 2 earlier iterations; values of an earlier iteration are
        wrapped ("prev", ..) so that they are distinct from the current instruction's."""
        loop_line = None
        names = {}
        for members, sts in runs:
            for st in sts:
                e = self._ins_loop_end(st)
                if e is not None and e.key:
                    loop_line = e.node.lineno
                    for n, (pre, endv) in e.key.items():
                        names.setdefault(n, set()).add(pre)
        self._unprev = {}
        if not names:
            return runs
        order = sorted(names)
        sym = {n: ("carried", n, loop_line) for n in order}
        symset = set(sym.values())

        _uc = {}

        def uses_carried(st):
            k = id(st)
            if k not in _uc:
                _uc[k] = uses_carried0(st)
            return _uc[k]

        def uses_carried0(st):
            e = self._ins_loop_end(st)
            conds = e.conds if e is not None else st.conds
            for c in conds:
                if any(x in symset for x in subterms(c[0])):
                    return True
            for ev in st.events:
                if ev.kind == "iter_end":
                    continue
                for t in (ev.recv, ev.base, ev.key if not isinstance(ev.key, dict) else None, ev.value if ev.kind != "iter_end" else None) + tuple(ev.args):
                    if isinstance(t, tuple) and any(x in symset for x in subterms(t)):
                        return True
            return False

        if not any(uses_carried(st) for _, sts in runs for st in sts):
            return runs
        # the element of the instruction loop
        E = None
        for _, sts in runs:
            for st in sts:
                for ev in st.events:
                    for t in (ev.recv,) + tuple(ev.args):
                        if isinstance(t, tuple):
                            for x in subterms(t):
                                if isinstance(x, tuple) and x and x[0] == "elem" and self.roles.role(x) == ("INSPAIR",):
                                    E = x
                if E is not None:
                    break
            if E is not None:
                break
        if E is None:
            raise AnalysisError("%s: loop-carried variables %s but the loop element could not be identified" % (self.root.qualname, order))
        # instructions of one method live in one DEX: the DEX of an earlier instruction is the DEX of the current one
        cur_vm = ("attr", ("attr", ("item", E, 1), "cm"), "vm")
        pe = E
        for _ in range(4):
            pe = ("prev", pe)
            self._unprev[("attr", ("attr", ("item", pe, 1), "cm"), "vm")] = cur_vm
        self.assumptions = ["all instructions of one method belong to one DEX (instruction.cm.vm is the same for consecutive iterations)"]

        def wrap(v):
            return subst_term(v, {E: ("prev", E)})

        def has_prev(t):
            return any(isinstance(x, tuple) and x and x[0] == "prev" for x in subterms(t))

        def rewrite(st, op):
            """drop the path if its conditions are infeasible; identify values of an earlier iteration with the current
            ones where the path condition equates them (`idx == last_idx`) -> rewritten copy of the path, or None"""
            e_end = self._ins_loop_end(st)
            conds = e_end.conds if e_end is not None else st.conds
            eq = {}
            memo_u = {}
            for c in conds:
                t2 = subst_term(c[0], self._unprev, memo_u)
                tv = self._cond_truth(t2, op)
                if tv is not None and tv != c[1]:
                    return None
                atom, truthy = _norm_cond(t2, c[1])
                if isinstance(atom, tuple) and atom and atom[0] == "cmp" and atom[1] in ("==", "is") and truthy:
                    a, b = atom[2], atom[3]
                    pa, pb = has_prev(a), has_prev(b)
                    if pa and not pb:
                        eq[a] = b
                    elif pb and not pa:
                        eq[b] = a
            memo_e = {}

            def sub(t):
                if not isinstance(t, tuple):
                    return t
                r = subst_term(t, self._unprev, memo_u)
                return subst_term(r, eq, memo_e) if eq else r
            st2 = St()
            st2.raised = st.raised
            st2.retval = st.retval
            st2.conds = tuple((sub(c[0]), c[1], c[2]) for c in st.conds)
            for ev in st.events:
                ev2 = Ev(ev.kind, ev.node, ev.func, ev.stack, tuple((sub(c[0]), c[1], c[2]) for c in ev.conds))
                ev2.recv, ev2.name, ev2.base = sub(ev.recv), ev.name, sub(ev.base)
                ev2.args = tuple(sub(a) for a in ev.args)
                ev2.kw = ev.kw
                if isinstance(ev.key, dict):
                    ev2.key = {n: (pre, sub(v) if v is not None else None) for n, (pre, v) in ev.key.items()}
                else:
                    ev2.key = sub(ev.key)
                if ev.kind == "iter_end":
                    g = ev.value
                    ev2.value = (sub(g[0]), g[1], g[2]) if g is not None else None
                else:
                    ev2.value = sub(ev.value)
                st2.events.append(ev2)
            return st2

        cache = {}

        def exec_state(rep, state):
            """re-execute the root for opcode region `rep` with the carried variables holding `state`"""
            k = (rep, state)
            if k not in cache:
                ex = Exec(self.eng, op=rep, no_inline=self.NO_INLINE, root_cls=self.root_cls)
                ex.carried_override = {(loop_line, n): state[i] for i, n in enumerate(order)}
                out = []
                for st in ex.run(self.root):
                    if st.raised:
                        continue
                    st2 = rewrite(st, rep)
                    if st2 is not None:
                        out.append(st2)
                cache[k] = out
            return cache[k]

        def end_state(st2, state):
            e = self._ins_loop_end(st2)
            if e is None or not e.key:
                return None
            vals = []
            for i, n in enumerate(order):
                v = e.key[n][1]
                if v is None:
                    v = const(None)
                v = subst_term(v, {sym[n2]: state[i2] for i2, n2 in enumerate(order)})
                vals.append(wrap(v))
            return tuple(vals)

        relevant = [(members[0], members) for members, sts in runs if any(uses_carried(st) for st in sts)]
        relset = {r for r, _ in relevant}
        import itertools
        s0 = list(itertools.product(*[sorted(names[n], key=repr) for n in order]))
        all_states = list(s0)
        frontier = list(s0)
        for _gen in range(2):
            nxt = []
            for state in frontier:
                for members, sts in runs:
                    paths = exec_state(members[0], state) if members[0] in relset else [st for st in sts if not st.raised]
                    for st in paths:
                        ns = end_state(st, state)
                        if ns is not None and ns not in all_states and ns not in nxt:
                            nxt.append(ns)
            if len(all_states) + len(nxt) > 40:
                raise AnalysisError("%s: more than 40 distinct loop-carried states of %s after two iterations" % (self.root.qualname, order))
            all_states += nxt
            frontier = nxt
        self.unrolled_states = len(all_states)
        out = []
        for members, sts in runs:
            if members[0] not in relset:
                out.append((members, sts))
                continue
            new_sts = []
            for state in all_states:
                new_sts += exec_state(members[0], state)
            out.append((members, new_sts))
        return out

    def _ins_loop_end(self, st):
        """the iter_end event of the instruction loop on this path"""
        for e in st.events:
            if e.kind == "iter_end" and isinstance(e.node, (ast.For,)) and e.func.qualname == self.root.qualname:
                if _is_call_to(e.node.iter, "get_instructions_idx"):
                    return e
        return None

    def _reduce(self, members, st):
        p = PathRec()
        p.ops = members
        p.state = st
        p.facts = []
        end = self._ins_loop_end(st)
        p.end = end
        p.reached = end is not None
        p.guard = end.value if end is not None else None
        p.conds = end.conds if end is not None else st.conds
        for e in st.events:
            if e.kind == "call" and e.name == "add" and len(e.args) == 1 and e.recv is not None:
                f = self._fact(e)
                if f is not None:
                    p.facts.append(f)
        return p

    def _fact(self, e):
        recv = e.recv
        key = None
        if recv[0] == "sub" and isinstance(recv[1], tuple) and recv[1][0] == "attr":
            key = recv[2]
            recv = recv[1]
        if recv[0] != "attr":
            return None
        owner, attr = recv[1], recv[2]
        oc = self.eng.type_of(owner, self.root_cls)
        r_owner = self.roles.role(owner)
        if oc is None and r_owner is not None:
            oc_name = {"CLS": "ClassAnalysis", "METH": "MethodAnalysis", "STR": "StringAnalysis", "FIELD": "FieldAnalysis"}.get(r_owner[0])
        else:
            oc_name = oc.name if oc is not None else None
        if oc_name is None or (oc_name, attr) not in self.getters:
            return None
        f = Fact()
        f.ev = e
        f.owner_cls = oc_name
        f.attr = attr
        f.getter = self.getters[(oc_name, attr)]
        f.owner = owner
        f.key = key
        a = e.args[0]
        f.tup = tuple(a[1:]) if a[0] == "tuple" else (a,)
        f.r_owner = r_owner
        f.r_key = self.roles.role(key) if key is not None else None
        f.r_tup = tuple(self.roles.role(x) for x in f.tup)
        f.pool = None
        return f


def _is_call_to(e, name):
    return isinstance(e, ast.Call) and isinstance(e.func, ast.Attribute) and e.func.attr == name


def _pool_of_role(r):
    """which reference pool a role was decoded from (method / type / string / field), or None"""
    if r is None:
        return None
    if r[0] == "T":
        return r[1]
    if r[0] == "INFO":
        return r[1]
    if r[0] in ("CLS", "STR"):
        return _pool_of_role(r[1])
    if r[0] == "METH" and r[1] == "T":
        for x in r[2:]:
            p = _pool_of_role(x)
            if p:
                return p
    if r[0] in ("FIELDITEM", "FIELDITEM.class_name"):
        for x in r[2]:
            p = _pool_of_role(x)
            if p:
                return p
    if r[0] == "FIELD":
        return _pool_of_role(r[2]) or _pool_of_role(r[1])
    if r[0] in ("WRONGVM", "WRONGIDX"):
        return r[1]
    return None


def fact_pool(f: Fact):
    for r in (f.r_owner, f.r_key) + tuple(f.r_tup):
        p = _pool_of_role(r)
        if p:
            return p
    return None


# ===========================================================================
# rule core 1: facts of _create_xref against the specification
# ===========================================================================
CURCLS = ("CLS", ("CUR", "clsname"))
CURM = ("METH", "CUR")
OFFR = ("OFF",)

_CU = {dalvik.CONST_CLASS_OP, dalvik.NEW_INSTANCE_OP}
SPEC_OPS = {
    ("method", "MethodAnalysis", "get_xref_to"): dalvik.INVOKE_OPS,
    ("method", "MethodAnalysis", "get_xref_from"): dalvik.INVOKE_OPS,
    ("method", "ClassAnalysis", "get_xref_to"): dalvik.INVOKE_OPS,
    ("method", "ClassAnalysis", "get_xref_from"): dalvik.INVOKE_OPS,
    ("type", "ClassAnalysis", "get_xref_to"): _CU,
    ("type", "ClassAnalysis", "get_xref_from"): _CU,
    ("type", "MethodAnalysis", "get_xref_new_instance"): {dalvik.NEW_INSTANCE_OP},
    ("type", "ClassAnalysis", "get_xref_new_instance"): {dalvik.NEW_INSTANCE_OP},
    ("type", "MethodAnalysis", "get_xref_const_class"): {dalvik.CONST_CLASS_OP},
    ("type", "ClassAnalysis", "get_xref_const_class"): {dalvik.CONST_CLASS_OP},
    ("string", "StringAnalysis", "get_xref_from"): dalvik.CONST_STRING_OPS,
    ("field", "FieldAnalysis", "get_xref_read"): dalvik.FIELD_READ_OPS,
    ("field", "MethodAnalysis", "get_xref_read"): dalvik.FIELD_READ_OPS,
    ("field", "FieldAnalysis", "get_xref_write"): dalvik.FIELD_WRITE_OPS,
    ("field", "MethodAnalysis", "get_xref_write"): dalvik.FIELD_WRITE_OPS,
}
# facts the property statements require for every instruction of the kind (owner class, getter)
REQUIRED = {
    "method": lambda k: [("MethodAnalysis", "get_xref_to"), ("MethodAnalysis", "get_xref_from")],
    "type": lambda k: ([("MethodAnalysis", "get_xref_new_instance"), ("ClassAnalysis", "get_xref_new_instance")] if k == dalvik.NEW_INSTANCE_OP
                       else [("MethodAnalysis", "get_xref_const_class"), ("ClassAnalysis", "get_xref_const_class")]),
    "string": lambda k: [("StringAnalysis", "get_xref_from")],
    "field": lambda k: ([("FieldAnalysis", "get_xref_read"), ("MethodAnalysis", "get_xref_read")] if k in dalvik.FIELD_READ_OPS
                        else [("FieldAnalysis", "get_xref_write"), ("MethodAnalysis", "get_xref_write")]),
}


def spec_pool(k):
    if k in dalvik.INVOKE_OPS:
        return "method"
    if k in (dalvik.CONST_CLASS_OP, dalvik.NEW_INSTANCE_OP):
        return "type"
    if k in dalvik.CONST_STRING_OPS:
        return "string"
    if k in dalvik.FIELD_READ_OPS or k in dalvik.FIELD_WRITE_OPS:
        return "field"
    return None


def _norm_cond(term, outcome):
    """strip negations: -> (atom, truthy)"""
    while isinstance(term, tuple) and term and term[0] == "not":
        term, outcome = term[1], not outcome
    if isinstance(term, tuple) and term and term[0] == "cmp" and term[3] == const(None):
        if term[1] in ("is", "=="):
            return term[2], not outcome
        if term[1] in ("is not", "!="):
            return term[2], outcome
    if isinstance(term, tuple) and term and term[0] == "cmp" and term[1] in ("!=", "not in", "is not"):
        return ("cmp", {"!=": "==", "not in": "in", "is not": "is"}[term[1]], term[2], term[3]), not outcome
    return term, outcome


def _field_lookup_param_roles(eng: Engine):
    """component order expected by DEX.get_encoded_field_descriptor, derived from the way it
    builds its lookup key from the parameters and the cache key from the EncodedField getters"""
    f = eng.func(DEX, "DEX.get_encoded_field_descriptor")
    params = f.params()[1:]

    def chain(e):
        out = []
        while isinstance(e, ast.BinOp) and isinstance(e.op, ast.Add):
            out.insert(0, e.right)
            e = e.left
        out.insert(0, e)
        return out

    pkey = gkey = None
    for n in ast.walk(f.node):
        if isinstance(n, ast.BinOp) and isinstance(n.op, ast.Add) and not isinstance(getattr(n, "_parent", None), ast.BinOp):
            parts = chain(n)
            if all(isinstance(p, ast.Name) and p.id in params for p in parts):
                pkey = [p.id for p in parts]
            elif all(isinstance(p, ast.Call) and isinstance(p.func, ast.Attribute) and p.func.attr.startswith("get_") for p in parts):
                gkey = [p.func.attr[4:] for p in parts]
    if pkey is None or gkey is None or len(pkey) != len(gkey) or sorted(pkey) != sorted(params):
        raise AnalysisError("DEX.get_encoded_field_descriptor: cannot derive the key order (parameters %s, getters %s)" % (pkey, gkey))
    by_param = dict(zip(pkey, gkey))
    roles = [by_param[p] for p in params]
    # an EncodedField's descriptor is the field's type
    return ["type" if r == "descriptor" else r for r in roles]


class XrefRules:
    def __init__(self, sink, xm: XrefModel, prop):
        self.s = sink
        self.xm = xm
        self.R = xm.roles
        self.prop = prop
        self.root = xm.root
        self._field_roles = None
        self.missing_reported = False

    def sites_floor(self, minimum):
        """no vacuous pass: the number of recording sites; a shortfall already reported as a violation
        (missing record / unpaired record) is not reported a second time as an analysis error"""
        n = getattr(self.s, "counts", {}).get("recording_sites", 0)
        if n < minimum and not self.missing_reported:
            self.s.floor("recording_sites", minimum)
        elif hasattr(self.s, "floors"):
            self.s.floors["recording_sites"] = (n, minimum)

    # ---- helpers -------------------------------------------------------------
    def rn(self, r):
        if r is None:
            return "<unclassified>"
        return self.R.rname(r) or repr(r)

    def decide(self, got, want, term, what):
        """True / False for a component against its specified role; the origin cannot be classified -> exit 2"""
        res = compare_roles(got, want)
        if res == "unknown":
            raise AnalysisError("%s: cannot classify the origin of %s (%s) -- the code left the analysed fragment"
                                % (self.root.qualname, self.R.render(term), what))
        return res == "ok"

    def need(self, r, term, what):
        if r is None:
            raise AnalysisError("%s: cannot classify the origin of %s (%s) -- the code left the analysed fragment"
                                % (self.root.qualname, self.R.render(term), what))
        return r

    def field_item_ok(self, r):
        """is r the EncodedField looked up with (class_name, name, type) of the instruction's field reference?"""
        if r is None or r[0] != "FIELDITEM":
            return False
        if self._field_roles is None:
            self._field_roles = _field_lookup_param_roles(self.xm.eng)
        exp = tuple(("T", "field", c, "raw") for c in self._field_roles)
        return tuple(r[2]) == exp

    # ---- the per-fact signature ---------------------------------------------------
    def expected(self, f: Fact, pool, kt):
        """expected (owner, key, tuple) roles of a fact; kt = class-name role of the target"""
        g, oc = f.getter, f.owner_cls
        REF = ("REF", "REF_TYPE")
        if pool == "method":
            TM = ("METH", "T", kt, ("T", "method", "name", "raw"), ("T", "method", "proto", "raw"))
            TC = ("CLS", kt)
            if (oc, g) == ("MethodAnalysis", "get_xref_to"):
                return CURM, None, (TC, TM, OFFR)
            if (oc, g) == ("MethodAnalysis", "get_xref_from"):
                return TM, None, (CURCLS, CURM, OFFR)
            if (oc, g) == ("ClassAnalysis", "get_xref_to"):
                return CURCLS, TC, (REF, TM, OFFR)
            if (oc, g) == ("ClassAnalysis", "get_xref_from"):
                return TC, CURCLS, (REF, CURM, OFFR)
        if pool == "type":
            TC = ("CLS", kt)
            if (oc, g) == ("ClassAnalysis", "get_xref_to"):
                return CURCLS, TC, (REF, CURM, OFFR)
            if (oc, g) == ("ClassAnalysis", "get_xref_from"):
                return TC, CURCLS, (REF, CURM, OFFR)
            if oc == "MethodAnalysis" and g in ("get_xref_new_instance", "get_xref_const_class"):
                return CURM, None, (TC, OFFR)
            if oc == "ClassAnalysis" and g in ("get_xref_new_instance", "get_xref_const_class"):
                return TC, None, (CURM, OFFR)
        if pool == "string":
            if (oc, g) == ("StringAnalysis", "get_xref_from"):
                return ("STR", ("T", "string", None, "raw")), None, (CURCLS, CURM, OFFR)
        if pool == "field":
            if oc == "FieldAnalysis" and g in ("get_xref_read", "get_xref_write"):
                return "FIELD-OWNER", None, (CURCLS, CURM, OFFR)
            if oc == "MethodAnalysis" and g in ("get_xref_read", "get_xref_write"):
                return CURM, None, (CURCLS, "FIELD-ITEM", OFFR)
        return None

    def target_key(self, p: PathRec, pool):
        """the class-name role under which the target class is looked up on this path"""
        want = {"method": ("T", "method", "class_name"), "type": ("T", "type", None)}.get(pool)
        if want is None:
            return None
        found = []
        for f in p.facts:
            if fact_pool(f) != pool:
                continue
            for r in (f.r_owner, f.r_key) + tuple(f.r_tup):
                if r is not None and r[0] == "CLS" and r[1] is not None and r[1][:3] == want and r[1] not in found:
                    found.append(r[1])
        return found

    # ---- main ------------------------------------------------------------------------
    def run(self, pools):
        s, xm = self.s, self.xm
        s.analysed(self.root)
        site_ops = {}   # site -> set of opcodes
        site_info = {}  # site -> (fact sample, pool)
        reached_ops = set()
        n_paths = 0
        for p in xm.paths:
            if p.state.raised:
                continue
            n_paths += 1
            if p.reached:
                reached_ops |= set(p.ops)
            pools_here = []
            for f in p.facts:
                pool = fact_pool(f)
                if pool is None:
                    # nothing in the record was decoded from the instruction: type it by the instruction kind
                    sp = {spec_pool(k) for k in p.ops}
                    if len(sp) == 1:
                        pool = sp.pop()
                f.pool = pool
                if pool is None:
                    raise AnalysisError("%s: a record into %s.%s() has no classifiable target: %s"
                                        % (self.root.qualname, f.owner_cls, f.getter, "; ".join(self.R.render(t) for t in (f.owner,) + f.tup)))
                if pool not in pools_here:
                    pools_here.append(pool)
                st = f.site()
                if st not in site_info:
                    for q in f.ev.chain():
                        fn = xm.m.functions.get(q)
                        if fn is not None:
                            s.analysed(fn)
                site_ops.setdefault(st, set()).update(p.ops)
                site_info.setdefault(st, (f, pool))
            for pool in pools_here:
                if pool in pools:
                    self.check_path_facts(p, pool)
            self.check_coverage(p, pools)
        self.n_paths = n_paths
        s.count("paths", n_paths)
        s.count("opcode_regions", xm.nparts)
        s.require(set(OP_DOMAIN) <= reached_ops, "%s: the instruction loop is not reached for opcodes %s" % (
            self.root.qualname, op_set_str(set(OP_DOMAIN) - reached_ops)))
        # ---- opcode sets per recording site ------------------------------------------------
        covered = {}
        for st, ops in site_ops.items():
            f, pool = site_info[st]
            if pool not in pools:
                continue
            s.count("recording_sites")
            exp = SPEC_OPS.get((pool, f.owner_cls, f.getter))
            inst = "%s.%s via %s" % (f.owner_cls, f.getter, "/".join(f.ev.chain()[1:]) or "direct")
            if exp is None:
                s.check("opcode-sets", inst, False, self.root, self.site_construct(f), "a %s reference is recorded into %s.%s(), which the specification does not provide for"
                        % (pool, f.owner_cls, f.getter), node=f.ev.root_node())
                continue
            covered.setdefault((pool, f.owner_cls, f.getter), set()).update(ops)
            extra = ops - exp
            test = self.op_test_of(f.ev.root_node())
            s.check("opcode-sets", inst, not extra, self.root, test if test is not None else self.site_construct(f),
                    "%s.%s() is recorded for opcodes outside the specified set: %s (specified: %s)" % (
                        f.owner_cls, f.getter, op_set_str(extra), op_set_str(exp)),
                    node=f.ev.root_node(), detail="opcodes reaching the record = %s, all within the specified set" % op_set_str(ops))
        for pool in pools:
            for k in sorted(k for k in OP_DOMAIN if spec_pool(k) == pool):
                for oc, g in REQUIRED[pool](k):
                    got = covered.get((pool, oc, g), set())
                    if k not in got:
                        self.missing_reported = True
                        s.check("opcode-sets", "%s.%s" % (oc, g), False, self.root, "%s.%s: %s" % (oc, g, op_name(k)),
                                "no path records %s into %s.%s()" % (op_name(k), oc, g), node=self.root.node)
            for (pl, oc, g), got in covered.items():
                if pl == pool:
                    s.ob("opcode-sets", "%s %s.%s covers" % (pool, oc, g), SPEC_OPS[(pool, oc, g)] <= got,
                         "every opcode of {%s} reaches the record" % op_set_str(SPEC_OPS[(pool, oc, g)]))

    def site_construct(self, f: Fact):
        return "%s.%s <- (%s)" % (self.rn(f.r_owner) if f.r_owner else self.R.render(f.owner), f.getter,
                                  ", ".join(self.rn(r) if r else self.R.render(t) for r, t in zip(f.r_tup, f.tup)))

    def op_test_of(self, node):
        """innermost enclosing `if` of the root function whose test depends on the opcode variable"""
        opvars = set()
        for n in ast.walk(self.root.node):
            if isinstance(n, ast.Assign) and _is_call_to(n.value, "get_op_value"):
                for t in n.targets:
                    if isinstance(t, ast.Name):
                        opvars.add(t.id)
        cur = getattr(node, "_parent", None)
        child = node
        while cur is not None and cur is not self.root.node:
            if isinstance(cur, ast.If) and child not in cur.orelse:
                for x in ast.walk(cur.test):
                    if (isinstance(x, ast.Name) and x.id in opvars) or _is_call_to(x, "get_op_value"):
                        return cur.test
            child, cur = cur, getattr(cur, "_parent", None)
        return None

    # ---- typing of the facts on one path ------------------------------------------------
    def check_path_facts(self, p: PathRec, pool):
        s = self.s
        kts = self.target_key(p, pool)
        kt = None
        if pool in ("method", "type"):
            if not kts:
                # no fact names a target class: the signature check below reports what is there instead
                kt = ("T", pool, "class_name" if pool == "method" else None, "raw")
            else:
                kt = kts[0]
                if len(kts) > 1:
                    f0 = next(f for f in p.facts if f.pool == pool)
                    s.check("origin", "target class agreement", False, self.root, "target classes " + " / ".join(self.rn(("CLS", k)) for k in kts),
                            "records of one %s instruction name different target classes: %s" % (pool, ", ".join(self.rn(("CLS", k)) for k in kts)),
                            node=f0.ev.root_node())
            # ---- target identity: the class on which the reference is filed is the class the instruction names
            if kt[3] != "raw":
                f0 = next(f for f in p.facts if f.pool == pool)
                what = "invoke" if pool == "method" else "new-instance/const-class"
                s.check("target-identity", "%s target class" % what, False, self.root, self.rn(kt),
                        "the target class of a %s instruction is looked up as %s, not as the class named by the instruction: "
                        "a reference to an array class '[LFoo;' is recorded against 'LFoo;'" % (what, self.rn(kt)), node=f0.ev.root_node())
            else:
                s.ob("target-identity", "%s target class" % pool, True, "target class key = %s" % self.rn(kt))
        for f in p.facts:
            if f.pool != pool:
                continue
            s.count("facts")
            exp = self.expected(f, pool, kt)
            inst = "%s.%s %s" % (f.owner_cls, f.getter, op_name(p.ops[0]))
            if exp is None:
                continue  # reported by the opcode-set rule (unspecified record)
            e_owner, e_key, e_tup = exp
            via = "/".join(f.ev.chain()[1:])
            node = f.ev.root_node()
            # owner
            if e_owner == "FIELD-OWNER":
                self.check_field_owner(f, inst, node)
            else:
                s.check("origin", inst + " owner", self.decide(f.r_owner, e_owner, f.owner, "owner of the %s record" % f.getter), self.root,
                        "%s.%s owner %s" % (f.owner_cls, f.getter, self.rn(f.r_owner)),
                        "%s.%s(): the record is made on %s, specification: on %s (via %s)" % (f.owner_cls, f.getter, self.rn(f.r_owner), self.rn(e_owner), via or "direct call"),
                        node=node, detail="owner = %s" % self.rn(e_owner))
            if e_key is not None or f.key is not None:
                okk = f.r_key == e_key
                if f.key is not None and e_key is not None:
                    okk = self.decide(f.r_key, e_key, f.key, "key of the %s record" % f.getter)
                s.check("origin", inst + " key", okk, self.root,
                        "%s.%s key %s" % (f.owner_cls, f.getter, self.rn(f.r_key)),
                        "%s.%s(): the record is keyed by %s, specification: %s" % (f.owner_cls, f.getter, self.rn(f.r_key), self.rn(e_key) if e_key else "no key"),
                        node=node, detail="key = %s" % (self.rn(e_key) if e_key else None))
            ok_len = len(f.r_tup) == len(e_tup)
            s.check("origin", inst + " arity", ok_len, self.root, "%s.%s tuple of %d" % (f.owner_cls, f.getter, len(f.r_tup)),
                    "%s.%s(): recorded tuple has %d components, specification: %d" % (f.owner_cls, f.getter, len(f.r_tup), len(e_tup)), node=node)
            if not ok_len:
                continue
            for i, (got, want, term) in enumerate(zip(f.r_tup, e_tup, f.tup)):
                if want == "FIELD-ITEM":
                    ok = self.field_item_ok(got)
                    if not ok:
                        ok = self.decide(got, ("FIELDITEM", ("VM", "ins"), (("T", "field", "class_name", "raw"),)), term, "component %d of the %s record" % (i, f.getter))
                    wants = "the EncodedField of the instruction's field reference"
                else:
                    ok = self.decide(got, want, term, "component %d of the %s record" % (i, f.getter))
                    wants = self.rn(want)
                s.check("origin", "%s [%d]" % (inst, i), ok, self.root,
                        "%s.%s[%d] = %s" % (f.owner_cls, f.getter, i, self.rn(got)),
                        "%s.%s(): component %d of the recorded tuple is %s, specification: %s (via %s)" % (
                            f.owner_cls, f.getter, i, self.rn(got), wants, via or "direct call"),
                        node=node, detail="component %d = %s" % (i, wants))
            # REF_TYPE(op) must be defined for every opcode that reaches it
            for got in f.r_tup:
                if got is not None and got[0] == "REF":
                    self.check_ref_members(got[1], p.ops, node)
        # ---- pairing of the class-level to/from records ----------------------------------
        if pool in ("method", "type"):
            have = {(f.owner_cls, f.getter) for f in p.facts if f.pool == pool}
            for a, b in ((("ClassAnalysis", "get_xref_to"), ("ClassAnalysis", "get_xref_from")),
                         (("MethodAnalysis", "get_xref_to"), ("MethodAnalysis", "get_xref_from"))):
                if (a in have) != (b in have):
                    present, absent = (a, b) if a in have else (b, a)
                    f0 = next(f for f in p.facts if (f.owner_cls, f.getter) == present)
                    self.missing_reported = True
                    s.check("pairing", "%s.%s <-> %s" % (present + (absent[1],)), False, self.root,
                            "%s.%s without %s.%s" % (present + absent),
                            "a path through the %s branch records %s.%s() but not the mirror %s.%s() (conditions: %s)" % (
                                pool, present[0], present[1], absent[0], absent[1],
                                "; ".join("%s is %s" % (self.R.render(c), o) for c, o, _ in p.conds) or "none"),
                            node=f0.ev.root_node())
                elif a in have:
                    s.ob("pairing", "%s %s %s" % (pool, a[0], op_name(p.ops[0])), True, "to and from recorded on the same path")

    def check_field_owner(self, f: Fact, inst, node):
        s = self.s
        r = self.need(f.r_owner, f.owner, "owner of the %s record" % f.getter)
        ok = False
        why = ""
        want_owner = ("FIELD", ("CLS", ("T", "field", "class_name", "raw")), ("FIELDITEM", ("VM", "ins"), (("T", "field", "class_name", "raw"),)))
        if r[0] == "DERIVED":
            self.decide(r, want_owner, f.owner, "owner of the %s record" % f.getter)  # unknown origin -> exit 2; provably wrong -> reported below
        if r[0] == "FIELD":
            cls_role, item = r[1], r[2]
            item_ok = self.field_item_ok(item)
            kf = cls_role[1] if cls_role is not None and cls_role[0] == "CLS" else None
            if kf is not None and kf[0] == "DERIVED":
                self.decide(kf, ("T", "field", "class_name", "raw"), f.owner, "class of the %s record" % f.getter)
            if item is not None and item[0] == "DERIVED":
                self.decide(item, want_owner[2], f.owner, "field key of the %s record" % f.getter)
            cls_ok = kf is not None and (kf == ("T", "field", "class_name", "raw") or kf[0] == "FIELDITEM.class_name")
            ok = item_ok and cls_ok
            if not cls_ok:
                why = "the FieldAnalysis is looked up (and created if absent) in %s, specification: in the class that defines the field (classes[fieldref.class_name])" % self.rn(cls_role)
            elif not item_ok:
                why = "the FieldAnalysis is keyed by %s, not by the EncodedField of the instruction's field reference" % self.rn(item)
        else:
            why = "the record is made on %s, not on a FieldAnalysis of the field's class" % self.rn(r)
        where = self.rn(r[1]) + "._fields" if r[0] == "FIELD" else self.rn(r)
        s.check("origin", inst + " owner", ok, self.root, "%s.%s kept in %s" % (f.owner_cls, f.getter, where),
                "%s.%s(): %s (via %s)" % (f.owner_cls, f.getter, why, "/".join(f.ev.chain()[1:])), node=node,
                detail="owner = FieldAnalysis of the target field in the field's own class")

    def check_ref_members(self, enum_name, ops, node):
        s = self.s
        c = self.xm.m.classes.get(enum_name)
        s.require(c is not None and self.xm.eng.folder.is_enum(c), "REF_TYPE enum vanished")
        mem = self.xm.eng.folder.enum_members(c)
        vals = {int(v) for v in mem.values() if isinstance(v, int)}
        bad = [k for k in ops if k not in vals]
        s.check("ref-type", "%s defined for %s" % (enum_name, op_name(ops[0])), not bad, self.root,
                "%s(op_value) for %s" % (enum_name, op_set_str(bad) if bad else ""),
                "%s(op_value) is evaluated for %s, which is not a member of %s (ValueError at run time)" % (enum_name, op_set_str(bad), enum_name),
                node=node, detail="%s has a member for the opcode" % enum_name)

    # ---- coverage: every instruction of the kind is recorded unless excused ---------------------------
    def excuse(self, pool, cond, kts):
        term, outcome, _ = cond
        atom, truthy = _norm_cond(term, outcome)
        r = self.R.role(atom)
        if pool == "method" and r == ("INFO", "method") and not truthy:
            return "unresolvable method reference"
        if pool == "field" and r is not None and r[0] == "FIELDITEM" and not truthy:
            return "target field not defined"
        if pool == "type" and self.is_self_test(atom) and truthy:
            return "self reference"
        return None

    def is_self_test(self, atom):
        if isinstance(atom, tuple) and atom and atom[0] == "cmp" and atom[1] == "==":
            ra, rb = self.R.role(atom[2]), self.R.role(atom[3])
            rs = {ra, rb}
            if ("CUR", "clsname") in rs:
                other = (rs - {("CUR", "clsname")})
                if other:
                    o = other.pop()
                    return o is not None and o[0] == "T" and o[2] in ("class_name", None) and o[1] in ("type", "method", "field")
        return False

    def check_coverage(self, p: PathRec, pools):
        s = self.s
        if not p.reached:
            return
        have = {(f.owner_cls, f.getter) for f in p.facts}
        for k in p.ops:
            pool = spec_pool(k)
            if pool is None or pool not in pools:
                continue
            req = REQUIRED[pool](k)
            missing = [x for x in req if x not in have]
            inst = "%s path %s" % (op_name(k), "|".join("%s=%s" % (self.R.render(c)[:60], o) for c, o, _ in p.conds) or "-")
            if not missing:
                s.ob("coverage", inst, True, "records %s" % ", ".join("%s.%s" % x for x in req))
                if pool == "type":
                    self.check_self_guard(p, k)
                else:
                    # no self-exclusion outside the class-usage branch
                    for c in p.conds:
                        atom, truthy = _norm_cond(c[0], c[1])
                        if self.is_self_test(atom):
                            s.check("exclusions", "%s self test" % op_name(k), False, self.root, self.R.render(atom),
                                    "%s instructions are filtered by a comparison with the current class (%s); only new-instance/const-class exclude self references"
                                    % (pool, self.R.render(atom)), node=c[2])
                continue
            culprit = p.guard or (p.conds[-1] if p.conds else None)
            if culprit is None:
                # not recorded although nothing was tested on the way: reported by the opcode-set rule if no
                # path records it at all, otherwise here (the record is missing on an unconditional path)
                self.missing_reported = True
                s.check("coverage", inst, False, self.root, "%s: %s not recorded" % (op_name(k), ", ".join("%s.%s" % x for x in missing)),
                        "%s: no %s record is made" % (op_name(k), ", ".join("%s.%s" % x for x in missing)), node=self.root.node)
                continue
            why = self.excuse(pool, culprit, None)
            atom, truthy = _norm_cond(culprit[0], culprit[1])
            s.check("coverage", inst, why is not None, self.root, "skip when %s is %s" % (self.R.render(atom), truthy),
                    "%s: the instruction is not recorded (%s missing) when `%s` is %s; the specification only excuses %s" % (
                        op_name(k), ", ".join("%s.%s" % x for x in missing), self.R.render(atom), truthy,
                        {"method": "an unresolvable method reference", "field": "a field that is not defined in the analysed DEX files",
                         "type": "a reference of a class to itself", "string": "nothing"}[pool]),
                    node=culprit[2], detail="excused: %s" % why)

    def check_self_guard(self, p: PathRec, k):
        ok = False
        for c in p.conds:
            atom, truthy = _norm_cond(c[0], c[1])
            if self.is_self_test(atom) and not truthy:
                ok = True
        f0 = next((f for f in p.facts if f.pool == "type"), None)
        self.s.check("exclusions", "%s self guard" % op_name(k), ok, self.root, "self-reference guard of %s" % op_name(k),
                     "%s on the scanned class itself is recorded: no `type == current class` guard on the recording path" % op_name(k),
                     node=f0.ev.root_node() if f0 else self.root.node, detail="recording path passes `target type == current class` is False")


# ===========================================================================
# rule core 2: registration stores made while recording (ClassAnalysis._methods / ._fields)
# ===========================================================================
def rule_registration(sink, xm: XrefModel, which):
    """`which` in ('methods', 'fields').  A recorder that does not find the method / field in the
    receiving ClassAnalysis registers it there: the receiving class must be the class of the item."""
    R = xm.roles
    root = xm.root
    attr = "_" + which
    seen = set()
    for p in xm.paths:
        if p.state.raised:
            continue
        for e in p.state.events:
            if e.kind != "store_sub" or not (isinstance(e.base, tuple) and e.base[0] == "attr" and e.base[2] == attr):
                continue
            rc = R.role(e.base[1])
            rk = R.role(e.key)
            via = "/".join(e.chain()[1:]) or "direct"
            if which == "methods":
                if rc is None or rk is None or any(r[0] == "DERIVED" and "PREV" not in r[1] for r in (rc, rk)):
                    raise AnalysisError("%s: cannot classify the registration %s" % (root.qualname, e))
                ok = False
                want = None
                if rk[0] == "ENC":
                    m = ("METH",) + rk[1:]
                    want = CURCLS if m == CURM else (("CLS", m[2]) if m[1] == "T" else None)
                    ok = rc == want and R.role(e.value) == m
                sink.count("registrations")
                k = ("m", rc, rk)
                sink.check("registration", "_methods %s via %s" % (R.rname(rk), via), ok, root,
                           "%s._methods[%s] via %s" % (R.rname(rc), R.rname(rk), via),
                           "a MethodAnalysis (%s) is registered in %s, which is not its class (%s)" % (R.rname(rk), R.rname(rc), R.rname(want) if want else "?"),
                           node=e.root_node(), detail="registered in its own class %s" % (R.rname(want) if want else ""))
            else:
                if rc is None or rk is None:
                    raise AnalysisError("%s: cannot classify the registration %s" % (root.qualname, e))
                kf = rc[1] if rc[0] == "CLS" else None
                ok = kf is not None and (kf == ("T", "field", "class_name", "raw") or kf[0] == "FIELDITEM.class_name")
                sink.count("registrations")
                sink.check("single-field-analysis", "_fields via %s" % via, ok, root,
                           "%s._fields[field] = FieldAnalysis(field) via %s" % (R.rname(rc), via),
                           "a second FieldAnalysis for the accessed field is created in %s (the accessing class) instead of using the one "
                           "Analysis.add() registered in the class that defines the field" % R.rname(rc),
                           node=e.root_node(), detail="created only in the defining class")


def rule_add_method_invariant(sink, eng: Engine):
    """every store into ClassAnalysis._methods / ._fields has the shape  d[v.get_method()] = v  (resp. get_field):
    this is what lets `C._methods[M.get_method()]` be read as M"""
    m = eng.mod(ANALYSIS)
    c = m.cls("ClassAnalysis")
    n = 0
    for f in eng.cls_methods(c):
        for node in ast.walk(f.node):
            if isinstance(node, ast.Assign):
                for t in node.targets:
                    if (isinstance(t, ast.Subscript) and isinstance(t.value, ast.Attribute) and t.value.attr == "_methods"
                            and isinstance(t.value.value, ast.Name) and t.value.value.id == "self"):
                        n += 1
                        k, v = t.slice, node.value
                        ok = (isinstance(v, ast.Name) and isinstance(k, ast.Call) and isinstance(k.func, ast.Attribute)
                              and k.func.attr == "get_method" and isinstance(k.func.value, ast.Name) and k.func.value.id == v.id)
                        sink.check("registration", "ClassAnalysis._methods store in %s" % f.name, ok, f, "_methods[v.get_method()] = v",
                                   "%s stores into _methods with a key that is not the value's own get_method()" % f.qualname, node=node,
                                   detail="_methods[v.get_method()] = v")
    sink.count("methods_stores", n)
    sink.floor("methods_stores", 1)


# ===========================================================================
# rule core 3: _resolve_method  and the table Analysis.add fills
# ===========================================================================
def _leaf_params(t):
    return {x for x in subterms(t) if isinstance(x, tuple) and x and x[0] == "param"}


def rule_resolve(sink, eng: Engine):
    m = eng.mod(ANALYSIS)
    A = m.cls("Analysis")
    f = eng.func(ANALYSIS, "Analysis._resolve_method")
    sink.analysed(f)
    ps = f.params()
    sink.require(len(ps) == 4, "Analysis._resolve_method: expected (self, class_name, method_name, method_descriptor)")
    P = [("param", f.qualname, x) for x in ps[1:]]
    sts = [s for s in Exec(eng, root_cls=A).run(f) if not s.raised]
    sink.require(sts, "Analysis._resolve_method has no normal path")
    tables = set()
    hit = miss = 0
    def _entry(ret):
        return ret is not None and ret[0] == "sub" and ret[1][0] == "attr" and ret[1][1] == ROOT_SELF
    sink.require(any(_entry(st.retval) for st in sts), "Analysis._resolve_method: no path returns an entry of a lookup table of the Analysis")
    for st in sts:
        ret = st.retval
        if not _entry(ret):
            sink.check("resolution", "returns the shared entry", False, f, "returns %s" % _prender(ret, P),
                       "a path of _resolve_method returns %s instead of the entry stored in the lookup table: the stub is not shared between call sites" % _prender(ret, P),
                       node=f.node)
            continue
        table, key = ret[1][2], ret[2]
        tables.add(table)
        # key shape
        comps = key[1:] if key[0] == "tuple" else None
        ok = comps is not None and len(comps) == 3 and all(_leaf_params(c) == {P[i]} for i, c in enumerate(comps))
        if ok:
            # class and name are used as they are; the descriptor arrives as the [parameters, return] list of the
            # method reference and must be flattened with ''.join to equal the descriptor string Analysis.add stores
            ok = comps[0] == P[0] and comps[1] == P[1] and comps[2] == mk_mcall(const(""), "join", (P[2],))
        sink.check("resolution", "lookup key", ok, f, "key %s" % _prender(key, P),
                   "the lookup key of _resolve_method is %s; specification: a triple (class name, method name, descriptor) built from the three parameters in this order" % _prender(key, P),
                   node=f.node, detail="key = (class_name, method_name, ''.join(descriptor))")
        absent = [c for c in st.conds if _norm_cond(c[0], c[1]) in (((("cmp", "in", key, ("attr", ROOT_SELF, table))), False),)]
        stores = [e for e in st.events if e.kind == "store_sub" and e.base == ("attr", ROOT_SELF, table)]
        news = [x for e in st.events if e.kind == "store_sub" for x in subterms(e.value) if isinstance(x, tuple) and x and x[0] == "new" and x[1] == "ExternalMethod"]
        if not absent:
            hit += 1
        else:
            miss += 1
        if not ok:
            continue
        if not absent:
            sink.check("resolution", "hit path", not stores and not news, f, "hit path of _resolve_method",
                       "a path on which the key is not known to be absent stores into the table or creates an ExternalMethod: the analysed method is not returned as is",
                       node=f.node, detail="returns the stored MethodAnalysis, creates nothing")
            continue
        inst = "miss path (%s)" % "; ".join("%s=%s" % (_prender(c, P)[:50], o) for c, o, _ in st.conds)
        ok1 = len(stores) == 1 and stores[0].key == key
        sink.check("resolution", inst + " one stub", ok1, f, "stub stores: %s" % ", ".join(_prender(e.key, P) for e in stores),
                   "on a miss _resolve_method must store exactly one stub under the looked-up key (so that it is shared); it stores %d time(s): %s" % (
                       len(stores), ", ".join("%s[%s]" % (table, _prender(e.key, P)) for e in stores) or "never"),
                   node=stores[0].node if stores else f.node, detail="one store under the same key")
        if not ok1:
            continue
        v = stores[0].value
        ext = None
        if v[0] == "new" and v[1] == "MethodAnalysis" and len(v[2]) == 2 and v[2][1][0] == "new" and v[2][1][1] == "ExternalMethod":
            ext = v[2][1]
        ok2 = ext is not None and tuple(ext[2]) == tuple(comps)
        sink.check("resolution", inst + " stub identity", ok2, f, "stub %s" % _prender(v, P),
                   "the stub stored on a miss is %s; specification: MethodAnalysis(None, ExternalMethod(class, name, descriptor)) with the components of the key in the same order" % _prender(v, P),
                   node=stores[0].node, detail="ExternalMethod(%s)" % ", ".join(_prender(c, P) for c in comps))
        if ext is not None:
            _check_external_method_ctor(sink, eng, f)
    sink.count("resolve_hit_paths", hit)
    sink.count("resolve_miss_paths", miss)
    sink.floor("resolve_hit_paths", 1)
    sink.floor("resolve_miss_paths", 1)
    sink.require(len(tables) == 1, "Analysis._resolve_method uses more than one table: %s" % sorted(tables))
    table = tables.pop()
    # ---- the same table is filled (by Analysis.add, a helper of it, or a pre-fill of create_xref) with the same key shape
    n = 0
    seen_keys = set()
    for qn, ni in (("Analysis.add", ()), ("Analysis.create_xref", ("_create_xref",))):
        fa = eng.func(ANALYSIS, qn)
        sink.analysed(fa)
        for st in Exec(eng, root_cls=A, no_inline=ni).run(fa):
            if st.raised:
                continue
            for e in st.events:
                if e.kind == "store_sub" and e.base == ("attr", ROOT_SELF, table):
                    key = e.key
                    if key in seen_keys:
                        continue
                    seen_keys.add(key)
                    n += 1
                    comps = key[1:] if key[0] == "tuple" else ()
                    meth = None
                    if e.value[0] == "sub" and e.value[1] == ("attr", ROOT_SELF, "methods"):
                        meth = e.value[2]
                    roles = [_add_key_role(c, meth) for c in comps]
                    ok = roles == ["class_name", "name", "descriptor"]
                    sink.check("resolution", "table fill key", ok, e.func, "fill key (%s)" % ", ".join(r or "?" for r in roles),
                               "%s fills %s with the key (%s); _resolve_method looks up (class_name, name, descriptor)" % (
                                   e.func.qualname, table, ", ".join(show(c) for c in comps)), node=e.node,
                               detail="fill key = (class name, method name, str(descriptor)) of the method stored")
    sink.count("add_table_stores", n)
    sink.check("resolution", "table is filled with the analysed methods", n >= 1, f, "self.%s is never filled" % table,
               "neither Analysis.add (helpers included) nor create_xref stores the analysed methods into self.%s: _resolve_method can only ever return external stubs" % table,
               node=f.node, detail="self.%s[(class, name, descriptor)] = MethodAnalysis for every analysed method" % table)
    sink.assume("str(EncodedMethod.get_descriptor()) and ''.join(MethodIdItem.get_proto()) denote the same descriptor string")
    return table


def _prender(t, P):
    names = {P[0]: "class_name", P[1]: "method_name", P[2]: "descriptor"} if len(P) >= 3 else {}

    def rd(x):
        if x in names:
            return names[x]
        if not isinstance(x, tuple) or not x:
            return repr(x)
        if x[0] in ("tuple", "list"):
            return "(" + ", ".join(rd(y) for y in x[1:]) + ")"
        if x[0] == "call":
            return "%s(%s)" % (rd(x[1]), ", ".join(rd(a) for a in x[2]))
        if x[0] == "attr":
            return "%s.%s" % (rd(x[1]), x[2])
        if x[0] == "new":
            return "%s(%s)" % (x[1], ", ".join(rd(a) for a in x[2]))
        if x[0] == "cmp":
            return "%s %s %s" % (rd(x[2]), x[1], rd(x[3]))
        if x[0] == "sub":
            return "%s[%s]" % (rd(x[1]), rd(x[2]))
        if x[0] == "not":
            return "not %s" % rd(x[1])
        return show(x)
    return rd(t)


def _add_key_role(c, meth):
    """role of a component of the key Analysis.add stores: class_name / name / descriptor of `meth`"""
    if c[0] == "call" and c[1] == ("builtin", "str") and len(c[2]) == 1:
        c = c[2][0]
    mc = is_mcall(c)
    if not mc or mc[2]:
        return None
    recv, name, _ = mc
    if meth is not None and recv == meth:
        return {"get_name": "name", "get_descriptor": "descriptor", "get_class_name": "class_name"}.get(name)
    # the class whose get_methods() yields the method
    if meth is not None and meth[0] == "elem":
        it = is_mcall(meth[1], "get_methods")
        if it and it[0] == recv and name == "get_name":
            return "class_name"
    return None


def _check_external_method_ctor(sink, eng, f):
    c = eng.mod(ANALYSIS).cls("ExternalMethod")
    init = eng.lookup(c, "__init__")
    sink.require(init is not None, "ExternalMethod.__init__ vanished")
    params = init.params()[1:]
    attr_of = {}
    for n in walk_no_nested(init.node):
        if isinstance(n, ast.Assign) and isinstance(n.value, ast.Name) and n.value.id in params:
            for t in n.targets:
                if isinstance(t, ast.Attribute):
                    attr_of[n.value.id] = t.attr
    got = []
    for p in params[:3]:
        a = attr_of.get(p)
        g = None
        for name in ("get_class_name", "get_name", "get_descriptor"):
            fn = eng.lookup(c, name)
            if fn is not None and any(isinstance(r, ast.Return) and isinstance(r.value, ast.Attribute) and r.value.attr == a for r in ast.walk(fn.node)):
                g = name
        got.append(g)
    sink.check("resolution", "ExternalMethod components", got == ["get_class_name", "get_name", "get_descriptor"], init,
               "ExternalMethod(%s)" % ", ".join(str(g) for g in got),
               "ExternalMethod.__init__ maps its positional parameters to %s; _resolve_method passes (class, name, descriptor)" % got,
               detail="positional parameters feed get_class_name / get_name / get_descriptor")


# ===========================================================================
# rule core 4: get_call_graph
# ===========================================================================
def rule_call_graph(sink, eng: Engine, getters):
    m = eng.mod(ANALYSIS)
    A = m.cls("Analysis")
    f = eng.func(ANALYSIS, "Analysis.get_call_graph")
    sink.analysed(f)
    params = {("param", f.qualname, p): p for p in f.params()}
    n_edges = 0
    for st in Exec(eng, root_cls=A).run(f):
        if st.raised:
            continue
        for e in st.events:
            if e.kind != "call" or e.name != "add_edge" or len(e.args) < 2:
                continue
            n_edges += 1
            src, dst = e.args[0], e.args[1]
            # source: the EncodedMethod of an enumerated MethodAnalysis
            ma = src[1] if src[0] == "attr" and src[2] == "method" else (is_mcall(src, "get_method")[0] if is_mcall(src, "get_method") else None)
            ok_src = ma is not None and ma[0] == "elem" and is_mcall(ma[1]) is not None and is_mcall(ma[1])[1] == "find_methods" and is_mcall(ma[1])[0] == ROOT_SELF
            sink.check("call-graph", "edge source", ok_src, f, "add_edge source %s" % show(src),
                       "the source of a call-graph edge is %s; specification: the method of the MethodAnalysis being enumerated" % show(src), node=e.node,
                       detail="source = m.get_method() for m in find_methods(...)")
            # destination: the method of component `i` of an element of m.get_xref_to()
            cal = dst[1] if dst[0] == "attr" and dst[2] == "method" else (is_mcall(dst, "get_method")[0] if is_mcall(dst, "get_method") else None)
            ok_dst = False
            why = "the destination of a call-graph edge is %s" % show(dst)
            if cal is not None and cal[0] == "item" and cal[1][0] == "elem":
                coll = cal[1][1]
                if coll[0] == "attr" and coll[1] == ma:
                    g = getters.get(("MethodAnalysis", coll[2]))
                    if g == "get_xref_to" and cal[2] == 1:
                        ok_dst = True
                    elif g != "get_xref_to":
                        why = "call-graph edges are drawn from %s(), specification: from get_xref_to() of the same method" % (g or coll[2])
                    else:
                        why = ("call-graph edges use component %d of the get_xref_to() tuples as the callee; _create_xref records "
                               "(class, method, offset), the callee is component 1" % cal[2])
                else:
                    why = "call-graph edges of a method are drawn from the xrefs of a different object (%s)" % show(coll)
            sink.check("call-graph", "edge destination", ok_dst, f, "add_edge destination %s" % _cg_render(dst), why, node=e.node,
                       detail="destination = callee.method for (class, callee, offset) in m.get_xref_to()")
            # filters on the way to the edge
            for c in e.conds:
                atom, truthy = _norm_cond(c[0], c[1])
                allowed = False
                if any(mentions(atom, p) and n == "no_isolated" for p, n in params.items()):
                    allowed = True
                mc = is_mcall(atom, "has_edge") if isinstance(atom, tuple) else None
                if mc and tuple(mc[2][:2]) == (src, dst) and not truthy:
                    allowed = True
                sink.check("call-graph", "edge filter", allowed, f, "edge only if %s is %s" % (_cg_render(atom), truthy),
                           "a call-graph edge for a reported callee is only added when `%s` is %s; the only filters allowed are the documented "
                           "no_isolated option and the duplicate-edge test" % (_cg_render(atom), truthy), node=c[2],
                           detail="only no_isolated / has_edge filters")
    sink.count("call_graph_edges", n_edges)
    sink.floor("call_graph_edges", 1)


def _cg_render(t):
    s = show(t)
    return s if len(s) < 160 else s[:157] + "..."


# ===========================================================================
# rule core 5 (C16): effect discipline of Analysis.add / create_xref, layering
# ===========================================================================
def _table_uses(t, tables):
    """sub-terms  self.<table>  of t together with the way they are used:
    yields (table, 'elem', key) for self.T[key] / self.T.get(key), (table, 'other', None) otherwise"""
    out = []

    def walk(x, parent=None):
        if not isinstance(x, tuple) or not x:
            return
        if x[0] == "attr" and x[1] == ROOT_SELF and x[2] in tables:
            if parent is not None and parent[0] == "sub" and parent[1] == x:
                out.append((x[2], "elem", parent[2]))
            elif parent is not None and is_mcall(parent, "get") and parent[1][1] == x and parent[2]:
                out.append((x[2], "elem", parent[2][0]))
            else:
                out.append((x[2], "other", None))
            return
        for y in (x[1:] if isinstance(x[0], str) else x):
            if isinstance(y, tuple):
                walk(y, x)
    walk(t)
    return out


def rule_add_effects(sink, eng: Engine):
    m = eng.mod(ANALYSIS)
    A = m.cls("Analysis")
    f = eng.func(ANALYSIS, "Analysis.add")
    sink.analysed(f)
    ps = f.params()
    sink.require(len(ps) >= 2, "Analysis.add: expected (self, vm)")
    VM = ("param", f.qualname, ps[1])
    sts = [s for s in Exec(eng, root_cls=A).run(f) if not s.raised]
    sink.require(sts, "Analysis.add has no normal path")
    # the tables of the Analysis: every attribute of self that is stored into by key or mutated
    tables = set()
    for st in sts:
        for e in st.events:
            if e.kind == "store_sub" and e.base[0] == "attr" and e.base[1] == ROOT_SELF:
                tables.add(e.base[2])
            if e.kind == "call" and e.name in MUTATORS and e.recv is not None and e.recv[0] == "attr" and e.recv[1] == ROOT_SELF:
                tables.add(e.recv[2])
    seen = set()
    for st in sts:
        fresh = {}
        for e in st.events:
            if e.kind == "store_sub" and e.base[0] == "attr" and e.base[1] == ROOT_SELF:
                table = e.base[2]
                inst = "self.%s[...] store" % table
                key, val = e.key, e.value
                # (a) key derived from the item itself
                item_derived = any(isinstance(x, tuple) and x and x[0] == "elem" and mentions(x, VM) for x in subterms(key))
                positional = any(isinstance(x, tuple) and x and x[0] in ("enumidx", "carried") for x in subterms(key)) or bool(_table_uses(key, tables)) \
                    or any(x == ("builtin", "len") for x in subterms(key))
                ok_key = item_derived and not positional
                k = (table, "key", key)
                if k not in seen:
                    seen.add(k)
                    sink.count("keyed_stores")
                    sink.check("effects", inst + " key", ok_key, f, "self.%s[%s]" % (table, _vrender(key, VM)),
                               "Analysis.add stores into self.%s under the key %s, which is %s; with several DEX files the result then depends on the add order" % (
                                   table, _vrender(key, VM), "positional / derived from the tables' current content" if positional else "not derived from the item being added"),
                               node=e.node, detail="key %s is derived from the added item only" % _vrender(key, VM))
                # (b) value: a fresh object, or an alias of one stored freshly on this path
                ok_val = val[0] == "new"
                if not ok_val and val[0] == "sub" and val[1][0] == "attr" and val[1][1] == ROOT_SELF:
                    ok_val = fresh.get((val[1][2], val[2])) is True
                    if not ok_val and e.func.qualname != f.qualname:
                        # inside a helper: an alias of the entry another table holds for the same item
                        k2 = val[2]
                        ok_val = (any(isinstance(x, tuple) and x and x[0] == "elem" and mentions(x, VM) for x in subterms(k2))
                                  and not _table_uses(k2, tables)
                                  and not any(isinstance(x, tuple) and x and x[0] in ("enumidx", "carried") for x in subterms(k2)))
                k = (table, "val", val)
                if k not in seen:
                    seen.add(k)
                    sink.check("effects", inst + " value", ok_val, f, "self.%s[..] = %s" % (table, _vrender(val, VM)),
                               "Analysis.add stores %s into self.%s: not an object freshly created for the added item (content of earlier DEX files leaks into the entry)" % (
                                   _vrender(val, VM), table), node=e.node, detail="value is a fresh object")
                fresh[(table, key)] = val[0] == "new" or ok_val
                # (c) no guard that reads the tables (first-wins / last-wins on other DEX content)
                for c in e.conds:
                    for (tb, how, kk) in _table_uses(c[0], tables):
                        okc = how == "elem" and fresh.get((tb, kk)) is True
                        kx = (table, "guard", c[0])
                        if okc or kx in seen:
                            continue
                        seen.add(kx)
                        sink.check("effects", inst + " guard", False, f, "store into self.%s guarded by %s" % (table, _vrender(_norm_cond(c[0], c[1])[0], VM)),
                                   "the store into self.%s is guarded by `%s`, which reads self.%s: what is stored depends on the DEX files added before" % (
                                       table, _vrender(c[0], VM), tb), node=c[2])
            elif e.kind == "store_attr" and e.base == ROOT_SELF:
                k = ("attr", e.name)
                if k not in seen:
                    seen.add(k)
                    sink.check("effects", "self.%s assignment" % e.name, False, f, "self.%s = %s" % (e.name, _vrender(e.value, VM)),
                               "Analysis.add overwrites the attribute self.%s (last-wins state across DEX files)" % e.name, node=e.node)
            elif e.kind == "call" and e.name in MUTATORS and e.recv is not None and e.recv[0] == "attr" and e.recv[1] == ROOT_SELF:
                ok = e.name == "append" and tuple(e.args) == (VM,)
                k = ("mut", e.recv[2], e.name, e.args)
                if k not in seen:
                    seen.add(k)
                    sink.count("positional_effects")
                    sink.check("effects", "self.%s.%s" % (e.recv[2], e.name), ok, f, "self.%s.%s(%s)" % (e.recv[2], e.name, ", ".join(_vrender(a, VM) for a in e.args)),
                               "Analysis.add has the positional effect self.%s.%s(%s); the only order-dependent state allowed is the list of DEX objects" % (
                                   e.recv[2], e.name, ", ".join(_vrender(a, VM) for a in e.args)), node=e.node,
                               detail="the only positional effect: the DEX object is appended to the list create_xref enumerates")
    sink.floor("positional_effects", 1)
    return tables


def _enclosing_loops(node, func_node):
    out = []
    n = getattr(node, "_parent", None)
    while n is not None and n is not func_node:
        if isinstance(n, (ast.For, ast.AsyncFor, ast.While)):
            out.append(n)
        n = getattr(n, "_parent", None)
    return out


def read_tables(xm: XrefModel, resolve_states):
    """tables of the Analysis that _create_xref / _resolve_method read (membership test, lookup) to resolve a definition"""
    out = set()
    groups = [[p.state for p in xm.paths if not p.state.raised]] + [sts for _, sts in resolve_states]
    for states in groups:
        for st in states:
            terms = [c[0] for c in st.conds]
            for e in st.events:
                terms += [c[0] for c in e.conds]
                for t in (e.recv, e.value if e.kind != "iter_end" else None) + tuple(e.args):
                    if isinstance(t, tuple):
                        terms.append(t)
            for t in terms:
                for x in subterms(t):
                    if isinstance(x, tuple) and len(x) == 3 and x[0] == "attr" and x[1] == ROOT_SELF:
                        out.add(x[2])
    return out


def rule_fill_before_xref(sink, eng: Engine, xm: XrefModel, resolve_states, only_tables=None):
    """Every table that _create_xref / _resolve_method read must be completely filled -- for all DEX files -- before the
    first _create_xref call: its item-derived stores may sit in Analysis.add (helpers followed), or in create_xref in a
    loop over all of self.vms that ends before the xref loop starts, never in a loop that also creates xrefs."""
    m = eng.mod(ANALYSIS)
    A = m.cls("Analysis")
    f = eng.func(ANALYSIS, "Analysis.create_xref")
    sink.analysed(f)
    reads = read_tables(xm, resolve_states)
    if only_tables is not None:
        reads &= set(only_tables)
    VMS = ("attr", ROOT_SELF, "vms")
    seen = set()
    n_fill = 0
    for st in Exec(eng, root_cls=A, no_inline=("_create_xref",)).run(f):
        if st.raised:
            continue
        xref_calls = [(i, e) for i, e in enumerate(st.events) if e.kind == "call" and e.name == "_create_xref" and e.recv == ROOT_SELF]
        xref_loops = set()
        for _, e in xref_calls:
            xref_loops |= {id(l) for l in _enclosing_loops(e.root_node(), f.node)}
        first_xref = min([i for i, _ in xref_calls], default=None)
        for i, e in enumerate(st.events):
            table = None
            if e.kind == "store_sub" and e.base[0] == "attr" and e.base[1] == ROOT_SELF:
                table = e.base[2]
            elif e.kind == "call" and e.name in MUTATORS and e.recv is not None and e.recv[0] == "attr" and e.recv[1] == ROOT_SELF:
                table = e.recv[2]
            if table is None or table not in reads:
                continue
            for q in e.chain():
                fn = m.functions.get(q)
                if fn is not None:
                    sink.analysed(fn)
            where = "/".join(e.chain())
            k = (table, where, e.kind)
            if k in seen:
                continue
            seen.add(k)
            n_fill += 1
            sink.count("keyed_stores")
            loops = _enclosing_loops(e.root_node(), f.node)
            shared = [l for l in loops if id(l) in xref_loops]
            late = first_xref is not None and i > first_xref
            what = "self.%s[%s] = %s" % (table, show(e.key)[:80], show(e.value)[:80]) if e.kind == "store_sub" else "self.%s.%s(...)" % (table, e.name)
            ok = not shared and not late
            sink.check("fill-before-xref", "self.%s filled in %s" % (table, where), ok, f, "self.%s filled via %s inside the xref loop" % (table, where) if shared else "self.%s filled via %s after xref creation started" % (table, where),
                       "%s (in %s) fills self.%s %s: while the classes of one DEX are cross-referenced, the entries of the DEX files added later "
                       "are still missing, so what _create_xref/_resolve_method find depends on the add order (e.g. calls into a later DEX resolve to ExternalMethod stubs)" % (
                           what, where, table, "once per DEX inside the loop of create_xref that also calls _create_xref" if shared else "after the first _create_xref call"),
                       node=e.root_node(), detail="self.%s is filled for all DEX files before the first _create_xref call" % table)
            if ok:
                # a complete pre-fill: the loop must range over all of self.vms and the key be derived from the item
                outer = loops[-1] if loops else None
                full = outer is not None and isinstance(outer, ast.For) and ast.unparse(outer.iter).replace(" ", "") in ("self.vms",)
                item = e.kind == "store_sub" and any(isinstance(x, tuple) and x and x[0] == "elem" and mentions(x, ("elem", VMS)) for x in subterms(e.key)) \
                    and not any(isinstance(x, tuple) and x and x[0] in ("enumidx", "carried") for x in subterms(e.key))
                sink.check("fill-before-xref", "self.%s pre-fill is complete" % table, full and item, f, "pre-fill of self.%s via %s" % (table, where),
                           "create_xref fills self.%s before the xref loop, but not for every DEX of self.vms with an item-derived key (%s)" % (table, what),
                           node=e.root_node(), detail="pre-fill ranges over all of self.vms")
    sink.count("xref_phase_fills", n_fill)
    return n_fill


def _vrender(t, VM):
    s = show(t)
    return s if len(s) < 200 else s[:197] + "..."


def rule_create_xref_driver(sink, eng: Engine):
    """create_xref hands every class of every added DEX to _create_xref and uses self.vms for nothing else"""
    m = eng.mod(ANALYSIS)
    A = m.cls("Analysis")
    f = eng.func(ANALYSIS, "Analysis.create_xref")
    sink.analysed(f)
    n = 0
    for st in Exec(eng, root_cls=A, no_inline=("_create_xref",)).run(f):
        if st.raised:
            continue
        for e in st.events:
            if e.kind == "call" and e.name == "_create_xref" and e.recv == ROOT_SELF:
                n += 1
                a = e.args[0] if e.args else None
                ok = False
                if a is not None and a[0] == "elem":
                    mc = is_mcall(a[1], "get_classes")
                    ok = bool(mc) and not mc[2] and mc[0][0] == "elem" and mc[0][1][0] == "attr" and mc[0][1][1] == ROOT_SELF
                sink.check("effects", "create_xref enumerates", ok, f, "_create_xref(%s)" % show(a),
                           "create_xref passes %s to _create_xref; specification: every class of every added DEX, the DEX list being used for enumeration only" % show(a),
                           node=e.node, detail="argument = each class of each DEX in self.vms")
                for x in e.args[1:]:
                    sink.check("effects", "create_xref extra argument", False, f, "_create_xref(.., %s)" % show(x),
                               "create_xref passes additional per-DEX state (%s) to _create_xref" % show(x), node=e.node)
    sink.count("create_xref_calls", n)
    sink.floor("create_xref_calls", 1)


def rule_xref_effects(sink, xm: XrefModel, extra_paths=()):
    """effects of _create_xref (and _resolve_method): set-adds into the xref sets and create-if-absent keyed by names"""
    root = xm.root
    R = xm.roles
    xref_attrs = {a for (_, a) in xm.getters}
    seen = set()
    groups = [(root, [p.state for p in xm.paths if not p.state.raised])] + list(extra_paths)
    for func, states in groups:
        for st in states:
            for e in st.events:
                if e.kind == "store_sub" and e.base[0] == "attr" and e.base[1] == ROOT_SELF:
                    table, key, val = e.base[2], e.key, e.value
                    k = (func.qualname, table, key, val)
                    absent = any(_norm_cond(c[0], c[1]) == (("cmp", "in", key, e.base), False) for c in e.conds)
                    fresh_key = key[0] == "new"
                    val_ok = val[0] == "new" and _value_from_key(val, key)
                    if k in seen:
                        continue
                    seen.add(k)
                    sink.count("create_if_absent")
                    rk = (R.render(key) if func is root else show(key))
                    sink.check("effects", "%s self.%s create-if-absent" % (func.name, table), (absent or fresh_key) and val_ok, func,
                               "self.%s[%s] = %s" % (table, rk, R.render(val) if func is root else show(val)),
                               "%s stores into self.%s[%s] %s: with several DEX files the entry then depends on the order of processing" % (
                                   func.qualname, table, rk,
                                   "without testing that the key is absent" if not (absent or fresh_key) else "a value that is not a fresh object built from the key"),
                               node=e.root_node(), detail="create-if-absent keyed by name")
                elif e.kind in ("store_sub", "store_attr"):
                    b = e.base
                    tgt = b[2] if (e.kind == "store_sub" and b[0] == "attr") else (e.name if e.kind == "store_attr" else None)
                    if tgt in xref_attrs:
                        k = (func.qualname, "xrefstore", tgt)
                        if k in seen:
                            continue
                        seen.add(k)
                        sink.check("effects", "%s xref set overwritten" % tgt, False, func, "%s = ..." % tgt,
                                   "the xref container %s is assigned rather than added to (via %s): earlier records are lost, the result depends on the order of processing" % (
                                       tgt, "/".join(e.chain())), node=e.root_node())
                elif e.kind == "call" and e.name in MUTATORS and e.name != "add" and e.recv is not None:
                    r = e.recv
                    tgt = r[2] if r[0] == "attr" else (r[1][2] if r[0] == "sub" and r[1][0] == "attr" else None)
                    if tgt in xref_attrs:
                        k = (func.qualname, "xrefmut", tgt, e.name)
                        if k in seen:
                            continue
                        seen.add(k)
                        sink.check("effects", "%s.%s" % (tgt, e.name), False, func, "%s.%s(...)" % (tgt, e.name),
                                   "the xref container %s is modified with %s() (via %s); only set.add commutes across processing orders" % (tgt, e.name, "/".join(e.chain())),
                                   node=e.root_node())
    sink.floor("create_if_absent", 2)


def _value_from_key(val, key):
    """every non-constant leaf of the value occurs in the key"""
    leaves_k = set(subterms(key))

    def ok(x):
        if not isinstance(x, tuple) or not x:
            return True
        if x in leaves_k or x[0] == "const":
            return True
        if x[0] == "new":
            return all(ok(a) for a in x[2])
        if x[0] in ("tuple", "list"):
            return all(ok(a) for a in x[1:])
        if x[0] == "call":
            return all(ok(a) for a in x[2]) and (x[1][0] != "attr" or ok(x[1][1]))
        return False
    return ok(val)


def rule_layering(sink, xm: XrefModel, resolve_states=()):
    """inside _create_xref / _resolve_method only *reference decoding* may go through a single DEX;
    definitions must come from analysis-global tables"""
    root = xm.root
    R = xm.roles
    seen = set()
    n_dec = 0

    def per_dex(recv):
        r = R.role(recv)
        if r is not None and r[0] in ("VM", "CM"):
            return r
        for x in subterms(recv):
            rx = R.role(x)
            if rx is not None and rx[0] in ("VM", "CM"):
                return rx
        return None

    for p in xm.paths:
        if p.state.raised:
            continue
        for e in p.state.events:
            if e.kind != "call" or e.recv is None:
                continue
            r = R.role(e.recv)
            if r is None or r[0] not in ("VM", "CM"):
                continue
            k = (r, e.name)
            if k in seen:
                continue
            seen.add(k)
            call_r = R.render(e.value)
            if r == ("VM", "positional"):
                if e.name in DECODERS:
                    n_dec += 1
                sink.check("layering", "%s through a fixed DEX" % e.name, False, root, call_r,
                           "%s is called on a DEX picked by position from self.vms, not on the DEX the instruction belongs to" % e.name, node=e.root_node())
                continue
            if e.name in DECODERS:
                n_dec += 1
                sink.ob("layering", "%s on the instruction's DEX" % e.name, True, "reference decoding %s stays per-DEX" % call_r)
            elif _is_definition_lookup(e.name):
                sink.check("layering", "definition lookup %s" % e.name, False, root, call_r,
                           "%s looks a *definition* up in the single DEX that contains the instruction: a field/method/class defined in another DEX of the "
                           "same analysis is not found, so the result differs from the single-DEX layout" % call_r, node=e.root_node())
            else:
                raise AnalysisError("%s: unclassified per-DEX call %s (neither reference decoding nor a known definition lookup)" % (root.qualname, call_r))
    for func, states in resolve_states:
        for st in states:
            for e in st.events:
                if e.kind == "call" and e.recv is not None and _is_definition_lookup(e.name) and not mentions(e.recv, ROOT_SELF):
                    sink.check("layering", "definition lookup %s" % e.name, False, func, show(e.value),
                               "%s resolves a definition through %s instead of the analysis-global tables" % (func.qualname, show(e.value)), node=e.node)
    sink.count("reference_decoders", n_dec)
    sink.floor("reference_decoders", 4)


def rule_recorders_commute(sink, eng: Engine, getters):
    """every xref container is created as a set / defaultdict(set) (so that .add is idempotent and commutative)"""
    m = eng.mod(ANALYSIS)
    n = 0
    for (cn, attr), g in sorted(getters.items()):
        c = m.cls(cn)
        init = eng.lookup(c, "__init__")
        sink.require(init is not None, "%s.__init__ vanished" % cn)
        val = None
        for node in walk_no_nested(init.node):
            if isinstance(node, ast.Assign):
                for t in node.targets:
                    if isinstance(t, ast.Attribute) and t.attr == attr and isinstance(t.value, ast.Name) and t.value.id == "self":
                        val = node.value
        ok = False
        if isinstance(val, ast.Call):
            fn = ast.unparse(val.func).split(".")[-1]
            if fn == "set" and not val.args:
                ok = True
            if fn == "defaultdict" and len(val.args) == 1 and ast.unparse(val.args[0]) == "set":
                ok = True
        n += 1
        sink.check("effects", "%s.%s container" % (cn, attr), ok, init, "self.%s = %s" % (attr, ast.unparse(val) if val is not None else "?"),
                   "%s.%s (returned by %s) is initialised as %s; only sets make the order of recording irrelevant" % (
                       cn, attr, g, ast.unparse(val) if val is not None else "nothing"), node=val,
                   detail="%s is a set" % attr)
    sink.count("xref_containers", n)
    sink.floor("xref_containers", 13)


# ===========================================================================
# rule core 6 (C40): offsets
# ===========================================================================
def rule_fact_offsets(sink, xm: XrefModel):
    """every offset component of every xref record is the first loop variable of get_instructions_idx()"""
    R = xm.roles
    seen = {}
    for p in xm.paths:
        if p.state.raised:
            continue
        for f in p.facts:
            if not f.tup:
                continue
            k = (f.site(), f.r_tup[-1], f.tup[-1])
            if k in seen:
                continue
            seen[k] = True
            got = f.r_tup[-1]
            if got is None:
                raise AnalysisError("%s: cannot classify the offset component %s of %s.%s()" % (xm.root.qualname, R.render(f.tup[-1]), f.owner_cls, f.getter))
            sink.count("offset_components")
            via = "/".join(f.ev.chain()[1:]) or "direct"
            res = compare_roles(got, OFFR)
            if res == "unknown":
                raise AnalysisError("%s: cannot classify the offset component %s of %s.%s()" % (xm.root.qualname, R.render(f.tup[-1]), f.owner_cls, f.getter))
            sink.check("offset-provenance", "%s.%s via %s" % (f.owner_cls, f.getter, via), res == "ok", xm.root,
                       "%s.%s offset = %s" % (f.owner_cls, f.getter, R.rname(got) or repr(got)),
                       "the offset recorded into %s.%s() is %s; specification: the offset get_instructions_idx() yields with the instruction (via %s)" % (
                           f.owner_cls, f.getter, R.rname(got) or repr(got), via), node=f.ev.root_node(),
                       detail="offset = first loop variable of current_method.get_instructions_idx()")
    sink.floor("offset_components", 15)
    # the second loop variable is the instruction whose opcode is dispatched on: by construction of Roles (INS/OFF from one pair)


def _is_length_of(t, ins):
    if t == ("attr", ins, "length"):
        return True
    mc = is_mcall(t, "get_length")
    return bool(mc) and mc[0] == ins and not mc[2]


ACCUMULATORS = [
    (DEX, "EncodedMethod.get_instructions_idx"),
    (DEX, "DCode.get_ins_off"),
    (DEX, "DCode.off_to_pos"),
    (ANALYSIS, "DEXBasicBlock.get_instructions"),
]


def rule_accumulators(sink, eng: Engine):
    """the four places that recompute instruction offsets all use  off(0) = 0, off(n+1) = off(n) + length(ins n)
    and expose/compare the offset *before* adding the length"""
    for rel, qn in ACCUMULATORS:
        f = eng.func(rel, qn)
        sink.analysed(f)
        cls = f.cls
        sts = Exec(eng, root_cls=cls).run(f)
        n_loops = 0
        done = set()
        for st in sts:
            if st.raised:
                continue
            for e in st.events:
                if e.kind != "iter_end" or not e.key:
                    continue
                loop = e.node
                elem = None
                # the loop element
                for name, (init, endv) in e.key.items():
                    carried = ("carried", name, loop.lineno)
                    delta = lin_add(endv, carried, -1) if endv is not None else None
                    dl = lin_of(delta) if delta is not None else None
                    if dl is None:
                        continue
                    atoms = list(dl[0].items())
                    if not atoms and not _used_as_offset(st, carried):
                        continue  # a plain counter (nb += 1) that is neither yielded nor compared with an offset
                    # is this the offset accumulator?  its increment mentions an instruction length, or it is yielded / compared
                    looks = any(_is_len_term(a) for a, _ in atoms) or _used_as_offset(st, carried)
                    if not looks:
                        continue
                    key = (qn, name, "inc", delta)
                    if key in done:
                        continue
                    done.add(key)
                    n_loops += 1
                    ins = _loop_elem(loop, st, e)
                    ok_inc = len(atoms) == 1 and atoms[0][1] == 1 and dl[1] == 0 and ins is not None and _is_length_of(atoms[0][0], ins)
                    sink.check("accumulator", "%s increment" % qn, ok_inc, f, "%s: offset += %s" % (qn, _arender(delta, ins)),
                               "%s advances its offset by %s per instruction; specification: by the length of the instruction just visited" % (qn, _arender(delta, ins)),
                               node=loop, detail="offset += length of the visited instruction")
                    sink.check("accumulator", "%s start" % qn, init == const(0), f, "%s: offset starts at %s" % (qn, show(init)),
                               "%s starts its offset at %s, specification: 0" % (qn, show(init)), node=loop, detail="offset starts at 0")
                    # uses inside the body see the offset before the increment
                    for ev in st.events:
                        terms = []
                        if ev.kind in ("yield", "return") and ev.value is not None:
                            terms.append(ev.value)
                        for c in ev.conds:
                            terms.append(c[0])
                        for t in terms:
                            for x in subterms(t):
                                if isinstance(x, tuple) and x and x[0] == "lin" and any(a == carried for a, _ in x[1]):
                                    kk = (qn, "use", x)
                                    if kk in done:
                                        continue
                                    done.add(kk)
                                    sink.check("accumulator", "%s use" % qn, False, f, "%s: uses %s" % (qn, _arender(x, ins).replace(show(carried), "offset")),
                                               "%s exposes/compares %s instead of the offset of the instruction being visited (offset used after or with an adjustment)" % (
                                                   qn, _arender(x, ins).replace(show(carried), "offset")), node=ev.node)
        sink.count("accumulators", 1 if n_loops else 0)
        sink.require(n_loops >= 1, "%s: no offset accumulator loop found (anchor changed shape)" % qn)
    sink.floor("accumulators", 4)
    # yield order of get_instructions_idx: (offset, instruction)
    f = eng.func(DEX, "EncodedMethod.get_instructions_idx")
    n = 0
    for st in Exec(eng, root_cls=f.cls).run(f):
        for e in st.events:
            if e.kind == "yield":
                n += 1
                v = e.value
                ok = v[0] == "tuple" and len(v) == 3 and v[1][0] == "carried" and v[2][0] == "elem"
                sink.check("accumulator", "get_instructions_idx yields (offset, instruction)", ok, f, "yield %s" % show(v).replace("carried", "offset"),
                           "get_instructions_idx yields %s; specification: (offset before the instruction, instruction)" % show(v), node=e.node,
                           detail="yield (offset, instruction) with the offset taken before the increment")
    sink.count("idx_yields", n)
    sink.floor("idx_yields", 1)


def _is_len_term(a):
    return (isinstance(a, tuple) and ((a[0] == "attr" and a[2] == "length") or bool(is_mcall(a, "get_length"))))


def _used_as_offset(st, carried):
    for ev in st.events:
        if ev.kind == "yield" and ev.value is not None and mentions(ev.value, carried):
            return True
        for c in ev.conds:
            if mentions(c[0], carried):
                return True
    return False


def _loop_elem(loop, st, e):
    """the term bound to the loop variable of `loop` (an element of its iterable)"""
    for ev in st.events:
        pass
    # the element term is ("elem", <iter term>); recover it from any term mentioning an elem on this path
    cands = set()
    for ev in st.events:
        for t in (ev.value,) + tuple(ev.args) + tuple(c[0] for c in ev.conds) + tuple(v for pair in (ev.key.values() if isinstance(ev.key, dict) else ()) for v in pair if v is not None):
            if isinstance(t, tuple):
                for x in subterms(t):
                    if isinstance(x, tuple) and x and x[0] == "elem":
                        cands.add(x)
    return next(iter(cands)) if len(cands) == 1 else None


def _arender(t, ins):
    s = show(t)
    if ins is not None:
        s = s.replace(show(ins), "ins")
    return s


# ---- payload lookups ----------------------------------------------------------------------------------------
PAYLOAD_USERS = {k for k, o in dalvik.OPCODES.items() if o[1] == "31t"}  # fill-array-data, packed-switch, sparse-switch
SWITCH_OPS = {k for k, o in dalvik.OPCODES.items() if o[3] == "switch"}
PAYLOAD_CLASSES = {"PackedSwitch", "SparseSwitch"}


class OffsetSite:
    def __init__(self, eng, rel, qn, root_cls, ins_param_idx, base_kind):
        self.eng = eng
        self.f = eng.func(rel, qn)
        self.root_cls = root_cls
        ps = self.f.params()
        self.ins = ("param", self.f.qualname, ps[ins_param_idx])
        self.base_kind = base_kind
        if base_kind == "param":
            self.base = ("param", self.f.qualname, ps[ins_param_idx + 1])
            self.method = ("param", self.f.qualname, ps[ins_param_idx + 2])
        else:
            self.base = ("attr", ROOT_SELF, "end")
            self.method = ("attr", ROOT_SELF, "method")
        self.refoff = mk_mcall(self.ins, "get_ref_off")
        self.runs = []
        parts = eng.op_partition([self.f], OP_DOMAIN)
        arith = False
        for rep, members in parts:
            ex = Exec(eng, op=rep, root_cls=root_cls, no_inline=("get_ins_off", "get_targets"))
            sts = [s for s in ex.run(self.f) if not s.raised]
            arith = arith or ex.op_arith
            self.runs.append((members, sts))
        if arith:
            self.runs = []
            for k in OP_DOMAIN:
                ex = Exec(eng, op=k, root_cls=root_cls, no_inline=("get_ins_off", "get_targets"))
                self.runs.append(([k], [s for s in ex.run(self.f) if not s.raised]))

    def names(self):
        return {self.base: "insn_offset", self.refoff: "ref_off", mk_mcall(self.ins, "get_length"): "insn_length",
                self.ins: "insn", self.method: "method"}

    def render(self, t):
        names = self.names()

        def rd(x, d=0):
            if x in names:
                return names[x]
            if not isinstance(x, tuple) or not x or d > 12:
                return show(x)
            k = x[0]
            if k == "lin":
                parts = [rd(a, d + 1) if c == 1 else "%d*%s" % (c, rd(a, d + 1)) for a, c in sorted(x[1], key=lambda ac: rd(ac[0], d + 1))]
                if x[2]:
                    parts.append(str(x[2]))
                return " + ".join(parts)
            if k == "binop":
                return "((%s) %s %s)" % (rd(x[2], d + 1), x[1], rd(x[3], d + 1))
            if k == "ifexp":
                return "(%s if %s else %s)" % (rd(x[2], d + 1), rd(x[1], d + 1), rd(x[3], d + 1))
            if k == "cmp":
                return "%s %s %s" % (rd(x[2], d + 1), x[1], rd(x[3], d + 1))
            if k == "call":
                return "%s(%s)" % (rd(x[1], d + 1), ", ".join(rd(a, d + 1) for a in x[2]))
            if k == "attr":
                return "%s.%s" % (rd(x[1], d + 1), x[2])
            if k == "elem":
                return "<element of %s>" % rd(x[1], d + 1)
            if k in ("tuple", "list"):
                return "[" + ", ".join(rd(y, d + 1) for y in x[1:]) + "]"
            return show(x)
        return rd(t)

    def is_code_unit(self, a):
        if is_mcall(a, "get_ref_off"):
            return True
        if isinstance(a, tuple) and a and a[0] == "elem" and is_mcall(a[1], "get_targets"):
            return True
        return False

    def is_byte(self, a):
        return a == self.base or _is_len_term(a) or a == ("attr", ROOT_SELF, "end") or (isinstance(a, tuple) and a and a[0] == "carried")


def rule_payload(sink, eng: Engine):
    m = eng.mod(ANALYSIS)
    sites = [
        ("DEXBasicBlock.push", OffsetSite(eng, ANALYSIS, "DEXBasicBlock.push", m.cls("DEXBasicBlock"), 1, "self"), PAYLOAD_USERS),
        ("determineNext", OffsetSite(eng, DEX, "determineNext", None, 0, "param"), SWITCH_OPS),
    ]
    canon = {}
    for label, site, spec_ops in sites:
        f = site.f
        sink.analysed(f)
        lookup_ops = set()
        exp = mk_lin({site.base: 1, site.refoff: 2}, 0)
        seen = set()
        for members, sts in site.runs:
            for st in sts:
                for e in st.events:
                    # ---- (3) payload address -----------------------------------------------------------------
                    if e.kind == "call" and e.name == "get_ins_off" and e.args:
                        lookup_ops.update(members)
                        addr = e.args[0]
                        ok = addr == exp
                        k = (label, "addr", addr)
                        canon.setdefault(label, set()).add(site.render(addr))
                        if k not in seen:
                            seen.add(k)
                            sink.count("payload_lookups")
                            sink.check("payload-address", "%s payload address" % label, ok, f, "get_ins_off(%s)" % site.render(addr),
                                       "%s looks the payload up at %s; specification: at the offset the instruction encodes, insn_offset + 2*ref_off "
                                       "(the sibling computation must agree)" % (label, site.render(addr)), node=e.node,
                                       detail="payload address = insn_offset + 2*ref_off")
                        recv = e.recv
                        inner = is_mcall(recv, "get_bc")[0] if is_mcall(recv, "get_bc") else (recv[1] if recv[0] == "attr" and recv[2] == "code" else None)
                        ok_r = inner is not None and bool(is_mcall(inner, "get_code")) and is_mcall(inner, "get_code")[0] == site.method
                        k = (label, "recv", recv)
                        if k not in seen:
                            seen.add(k)
                            sink.check("payload-address", "%s payload code object" % label, bool(ok_r), f, "%s.get_ins_off" % site.render(recv),
                                       "%s searches the payload in %s, not in the code of the method the instruction belongs to" % (label, site.render(recv)),
                                       node=e.node, detail="payload searched in method.get_code().get_bc()")
                    # ---- (3) type check before use ------------------------------------------------------------------
                    if e.kind == "call" and e.name == "get_targets" and e.recv is not None and is_mcall(e.recv, "get_ins_off"):
                        data = e.recv

                        def goal(a, data=data):
                            if not (isinstance(a, tuple) and a and a[0] == "isinstance" and a[1] == data):
                                return False
                            ct = a[2]
                            cs = ct[1:] if ct[0] in ("tuple", "list") else (ct,)
                            return all(c[0] == "class" and c[1] in PAYLOAD_CLASSES for c in cs)
                        ok = entails([(c[0], c[1]) for c in e.conds], goal)
                        k = (label, "guard", tuple((c[0], c[1]) for c in e.conds))
                        if k not in seen:
                            seen.add(k)
                            sink.count("payload_uses")
                            sink.check("payload-type", "%s get_targets guarded" % label, ok, f, "get_targets() of the looked-up payload",
                                       "%s calls get_targets() on whatever instruction sits at the payload address without first checking that it is a "
                                       "PackedSwitch/SparseSwitch payload (conditions on the path: %s)" % (label, "; ".join("%s is %s" % (site.render(c[0])[:80], c[1]) for c in e.conds) or "none"),
                                       node=e.node, detail="isinstance(payload, PackedSwitch|SparseSwitch) holds on the path")
                    # ---- store of the link in push ------------------------------------------------------------------
                    if e.kind == "store_sub" and e.base == ("attr", ROOT_SELF, "special_ins"):
                        k = (label, "key", e.key)
                        if k not in seen:
                            seen.add(k)
                            sink.check("payload-address", "%s link key" % label, e.key == site.base, f, "special_ins[%s]" % site.render(e.key),
                                       "the payload link is stored under %s; specification: under the offset of the instruction itself" % site.render(e.key),
                                       node=e.node, detail="special_ins key = offset of the instruction")
                # ---- accumulator of push -----------------------------------------------------------------------------------
                if site.base_kind == "self":
                    for st in sts:
                        endv = st.heap.get((ROOT_SELF, "end"))
                        exp_end = mk_lin({site.base: 1, mk_mcall(site.ins, "get_length"): 1}, 0)
                        k = (label, "end", endv)
                        if k not in seen:
                            seen.add(k)
                            sink.count("block_end_updates")
                            sink.check("accumulator", "push advances the block end", endv == exp_end, f, "self.end = %s" % (site.render(endv) if endv else "unchanged"),
                                       "DEXBasicBlock.push leaves self.end = %s; specification: previous end + length of the pushed instruction" % (site.render(endv) if endv else "unchanged"),
                                       node=f.node, detail="end += length of the pushed instruction")
            # ---- (2) units ------------------------------------------------------------------------------------------------
            for st in sts:
                sinks = []
                for e in st.events:
                    if e.kind == "return" and e.value is not None and e.value[0] in ("list", "tuple"):
                        sinks += [(x, e.node, "returned offset") for x in e.value[1:]]
                    if e.kind == "call" and e.name in ("append", "extend", "get_ins_off") and e.args:
                        a = e.args[0]
                        if a[0] == "comp":
                            a = a[1]
                        sinks.append((a, e.node, "argument of %s" % e.name))
                    if e.kind == "store_sub" and e.base == ("attr", ROOT_SELF, "special_ins"):
                        sinks.append((e.key, e.node, "special_ins key"))
                for t, node, what in sinks:
                    for x in [t] + [y for y in subterms(t) if isinstance(y, tuple) and y and y[0] == "lin" and y is not t]:
                        l = lin_of(x)
                        if l is None:
                            continue
                        cu = [(a, c) for a, c in l[0].items() if site.is_code_unit(a)]
                        if not cu:
                            continue
                        by = [(a, c) for a, c in l[0].items() if site.is_byte(a)]
                        ok = all(c == 2 for _, c in cu) and all(c == 1 for _, c in by)
                        k = (label, "unit", x)
                        if k in seen:
                            continue
                        seen.add(k)
                        sink.count("unit_terms")
                        sink.check("units", "%s %s" % (label, what), ok, f, "%s: %s" % (what, site.render(x)),
                                   "%s: %s mixes 16-bit code-unit values (get_ref_off / get_targets) with byte offsets without doubling them exactly once" % (label, site.render(x)),
                                   node=node, detail="code units are doubled exactly once: %s" % site.render(x))
        extra, missing = lookup_ops - spec_ops, spec_ops - lookup_ops
        sink.check("payload-opcodes", "%s payload opcodes" % label, not extra and not missing, f,
                   "%s payload lookup for {%s}" % (label, op_set_str(lookup_ops)),
                   "%s looks a payload up for {%s}; the instructions that carry a payload offset here are {%s}" % (label, op_set_str(lookup_ops), op_set_str(spec_ops)),
                   node=f.node, detail="payload looked up exactly for {%s}" % op_set_str(spec_ops))
    sink.floor("payload_lookups", 2)
    sink.floor("payload_uses", 1)
    sink.floor("unit_terms", 3)
    sink.floor("block_end_updates", 1)
    a, b = canon.get("DEXBasicBlock.push", set()), canon.get("determineNext", set())
    sink.ob("payload-address", "siblings agree", a == b, "push: %s / determineNext: %s" % (sorted(a), sorted(b)))


def rule_basic_block_offsets(sink, eng: Engine):
    """_create_basic_block hands determineNext the (instruction, offset) pair of one get_instructions_idx() step"""
    m = eng.mod(ANALYSIS)
    f = eng.func(ANALYSIS, "MethodAnalysis._create_basic_block")
    sink.analysed(f)
    n = 0
    seen = set()
    for st in Exec(eng, root_cls=m.cls("MethodAnalysis"), no_inline=("determineNext", "determineException", "push", "set_childs", "get_exception", "add")).run(f):
        if st.raised:
            continue
        for e in st.events:
            if e.kind == "call" and e.name == "determineNext" and len(e.args) >= 3:
                k = tuple(e.args)
                if k in seen:
                    continue
                seen.add(k)
                n += 1
                ins, off, meth = e.args[:3]
                ok = (ins[0] == "item" and off[0] == "item" and ins[1] == off[1] and ins[2] == 1 and off[2] == 0 and ins[1][0] == "elem"
                      and bool(is_mcall(ins[1][1], "get_instructions_idx")) and is_mcall(ins[1][1], "get_instructions_idx")[0] == meth)
                sink.check("offset-provenance", "determineNext call", ok, f, "determineNext(%s, %s, %s)" % (show(ins), show(off), show(meth)),
                           "_create_basic_block calls determineNext(%s, %s, %s); specification: the instruction and the offset of the same get_instructions_idx() step of that method" % (
                               show(ins), show(off), show(meth)), node=e.node, detail="(ins, idx) come from one step of method.get_instructions_idx()")
    sink.count("determine_next_calls", n)
    sink.floor("determine_next_calls", 1)


# ===========================================================================
# further rule cores: REF_TYPE members, field lookup side (C14), field resolution (C14)
# ===========================================================================
def rule_ref_type_members(sink, eng: Engine, want):
    """REF_TYPE members equal the opcode numbers of the instructions they are named after"""
    m = eng.mod(ANALYSIS)
    c = m.cls("REF_TYPE")
    mem = eng.folder.enum_members(c)
    n = 0
    vals = set()
    for name, v in mem.items():
        if not isinstance(v, int):
            continue
        vals.add(int(v))
        low = name.lower()
        if low == "ref_new_instance":
            mn = "new-instance"
        elif low == "ref_class_usage":
            mn = "const-class"
        else:
            mn = low.replace("_range", "/range").replace("_", "-")
        exp = [k for k, o in dalvik.OPCODES.items() if o[0] == mn]
        if not exp:
            raise AnalysisError("REF_TYPE.%s: no Dalvik instruction is called %s" % (name, mn))
        if exp[0] not in want:
            continue
        n += 1
        sink.check("ref-type", "REF_TYPE.%s" % name, int(v) == exp[0], _EnumAt(m, c), "REF_TYPE.%s = 0x%02x" % (name, int(v)),
                   "REF_TYPE.%s is 0x%02x; %s is opcode 0x%02x" % (name, int(v), mn, exp[0]), node=c.node,
                   detail="%s = 0x%02x = %s" % (name, exp[0], mn))
    missing = sorted(set(want) - vals)
    sink.check("ref-type", "REF_TYPE covers", not missing, _EnumAt(m, c), "REF_TYPE lacks %s" % op_set_str(missing),
               "REF_TYPE has no member for %s" % op_set_str(missing), node=c.node, detail="a member for every opcode of the kind")
    sink.count("ref_type_members", n)


class _EnumAt:
    def __init__(self, m, c):
        self.qualname = c.name
        self.file = m.relpath
        self.line = c.node.lineno


def rule_field_lookup(sink, eng: Engine):
    """Analysis.add registers one FieldAnalysis per field in the class that declares it, and
    Analysis.get_field_analysis(field) reads classes[field.get_class_name()]._fields[field]"""
    m = eng.mod(ANALYSIS)
    A = m.cls("Analysis")
    f = eng.func(ANALYSIS, "Analysis.add")
    sink.analysed(f)
    n = 0
    seen = set()
    for st in Exec(eng, root_cls=A).run(f):
        if st.raised:
            continue
        for e in st.events:
            if e.kind == "store_sub" and e.base[0] == "attr" and e.base[2] == "_fields":
                k = (e.base, e.key, e.value)
                if k in seen:
                    continue
                seen.add(k)
                n += 1
                cls_t, fld, val = e.base[1], e.key, e.value
                ok = False
                if fld[0] == "elem" and is_mcall(fld[1], "get_fields"):
                    cc = is_mcall(fld[1], "get_fields")[0]
                    ok = (cls_t == ("sub", ("attr", ROOT_SELF, "classes"), mk_mcall(cc, "get_name"))
                          and val[0] == "new" and val[1] == "FieldAnalysis" and tuple(val[2]) == (fld,))
                sink.check("single-field-analysis", "Analysis.add registers fields", ok, f, "%s._fields[%s] = %s" % (show(cls_t), show(fld), show(val)),
                           "Analysis.add registers %s under %s in %s; specification: one FieldAnalysis(field) per field, in the ClassAnalysis of the declaring class" % (
                               show(val), show(fld), show(cls_t)), node=e.root_node(), detail="classes[cls.get_name()]._fields[field] = FieldAnalysis(field) for field in cls.get_fields()")
    sink.count("field_registrations", n)
    sink.floor("field_registrations", 1)
    g = eng.func(ANALYSIS, "Analysis.get_field_analysis")
    sink.analysed(g)
    ps = g.params()
    F = ("param", g.qualname, ps[1])
    rets = set()
    for st in Exec(eng, root_cls=A).run(g):
        if not st.raised and st.retval is not None and st.retval != const(None):
            rets.add(st.retval)
    sink.require(rets, "Analysis.get_field_analysis returns nothing")
    for r in rets:
        ok = False
        inner = None
        if is_mcall(r, "get") and r[2] and r[2][0] == F and r[1][1][0] == "attr" and r[1][1][2] == "_fields":
            inner = r[1][1][1]
        elif r[0] == "sub" and r[2] == F and r[1][0] == "attr" and r[1][2] == "_fields":
            inner = r[1][1]
        if inner is not None:
            key = None
            if is_mcall(inner, "get") and inner[1][1] == ("attr", ROOT_SELF, "classes") and inner[2]:
                key = inner[2][0]
            elif inner[0] == "sub" and inner[1] == ("attr", ROOT_SELF, "classes"):
                key = inner[2]
            ok = key == mk_mcall(F, "get_class_name")
        sink.check("single-field-analysis", "get_field_analysis lookup", ok, g, "returns %s" % show(r),
                   "Analysis.get_field_analysis(field) returns %s; specification: classes[field.get_class_name()]._fields[field]" % show(r), node=g.node,
                   detail="returns classes[field.get_class_name()]._fields.get(field)")


def rule_field_resolution(sink, xm: XrefModel):
    """the target field of an access must be resolved among all analysed DEX files (the property quantifies over
    fields 'of classes in another DEX of the same analysis')"""
    R = xm.roles
    seen = set()
    for p in xm.paths:
        for f in p.facts:
            if fact_pool(f) != "field":
                continue
            for r in (f.r_owner,) + tuple(f.r_tup):
                for x in _walk_role(r):
                    if x[0] == "FIELDITEM" and x not in seen:
                        seen.add(x)
                        sink.count("field_resolutions")
                        per_dex = x[1] is not None and x[1][0] == "VM"
                        sink.check("resolution", "target field lookup", not per_dex, xm.root, R.rname(x),
                                   "the accessed field is resolved by %s, i.e. only among the fields defined in the DEX file that contains the accessing "
                                   "instruction: an access to a field of a class in another DEX of the same analysis is silently dropped" % R.rname(x),
                                   node=f.ev.root_node(), detail="target field resolved among all analysed DEX files")
    sink.floor("field_resolutions", 1)


def _walk_role(r):
    if isinstance(r, tuple):
        if r and isinstance(r[0], str):
            yield r
        for x in r:
            if isinstance(x, tuple):
                yield from _walk_role(x)


# ===========================================================================
# in-memory mutation helpers (thorough tier)
# ===========================================================================
def clone_func(node):
    """fresh copy of a function node (with _parent links and the original line numbers)"""
    new = ast.parse(ast.unparse(node)).body[0]
    for parent in ast.walk(new):
        for ch in ast.iter_child_nodes(parent):
            ch._parent = parent
    new._parent = getattr(node, "_parent", None)
    ast.increment_lineno(new, node.lineno - new.lineno)
    return new


def _calls(node, attr):
    return [n for n in ast.walk(node) if isinstance(n, ast.Call) and isinstance(n.func, ast.Attribute) and n.func.attr == attr]


def _stmt_lists(node):
    for n in ast.walk(node):
        for fld in ("body", "orelse", "finalbody"):
            b = getattr(n, fld, None)
            if isinstance(b, list) and b and isinstance(b[0], ast.stmt):
                yield b


class Mut:
    """a named edit of one function:  Mut(relpath, qualname, label, fn)  with fn(node) -> True if applied"""

    def __init__(self, rel, qualname, label, fn):
        self.rel, self.qualname, self.label, self.fn = rel, qualname, label, fn


def m_swap_args(attr, i, j, nth=0):
    def fn(node):
        cs = _calls(node, attr)
        if len(cs) <= nth:
            return False
        a = cs[nth].args
        a[i], a[j] = a[j], a[i]
        return True
    return fn


def m_set_arg(attr, i, expr, nth=0):
    def fn(node):
        cs = _calls(node, attr)
        if len(cs) <= nth:
            return False
        cs[nth].args[i] = ast.parse(expr, mode="eval").body
        return True
    return fn


def m_set_receiver(attr, expr, nth=0):
    def fn(node):
        cs = _calls(node, attr)
        if len(cs) <= nth:
            return False
        cs[nth].func.value = ast.parse(expr, mode="eval").body
        return True
    return fn


def m_rename_call(attr, new, nth=0):
    def fn(node):
        cs = _calls(node, attr)
        if len(cs) <= nth:
            return False
        cs[nth].func.attr = new
        return True
    return fn


def m_delete_call(attr, nth=0):
    def fn(node):
        k = 0
        for b in _stmt_lists(node):
            for i, s in enumerate(b):
                if isinstance(s, ast.Expr) and isinstance(s.value, ast.Call) and isinstance(s.value.func, ast.Attribute) and s.value.func.attr == attr:
                    if k == nth:
                        b[i] = ast.Pass()
                        return True
                    k += 1
        return False
    return fn


def m_const(old, new, nth=0):
    def fn(node):
        k = 0
        for n in ast.walk(node):
            if isinstance(n, ast.Constant) and type(n.value) is type(old) and n.value == old:
                if k == nth:
                    n.value = new
                    return True
                k += 1
        return False
    return fn


def m_replace_src(old, new, count=1):
    """textual edit of the unparsed function (for edits that are awkward as tree surgery).  `old` may be a
    fragment of one line, or several whole lines (compared without indentation); continuation lines of `new`
    are indented like the line the edit starts on (their own leading spaces are kept as relative indentation)."""
    def fn(node):
        src = ast.unparse(node)
        lines = src.split("\n")
        olines = [l.strip() for l in old.split("\n")]
        done = False
        if len(olines) > 1:
            for i in range(len(lines) - len(olines) + 1):
                if [l.strip() for l in lines[i:i + len(olines)]] == olines:
                    ind = lines[i][:len(lines[i]) - len(lines[i].lstrip())]
                    lines[i:i + len(olines)] = [ind + l for l in new.split("\n")]
                    done = True
                    break
        else:
            for i, l in enumerate(lines):
                if old in l:
                    ind = l[:len(l) - len(l.lstrip())]
                    repl = l.replace(old, new, 1).split("\n")
                    lines[i:i + 1] = [repl[0]] + [ind + x for x in repl[1:]]
                    done = True
                    break
        if not done:
            return False
        newn = ast.parse("\n".join(lines)).body[0]
        node.body = newn.body
        node.args = newn.args
        for parent in ast.walk(node):
            for ch in ast.iter_child_nodes(parent):
                ch._parent = parent
        return True
    return fn


def m_seq(*fns):
    """apply several edits in sequence (all must apply)"""
    def fn(node):
        return all(f(node) for f in fns)
    return fn


def b_rename_local(old, new):
    def fn(node):
        hit = False
        for n in ast.walk(node):
            if isinstance(n, ast.Name) and n.id == old:
                n.id = new
                hit = True
        return hit
    return fn


def run_mutants(ctx, eng_repo, core, mutants, benign, baseline_keys):
    """apply each edit to a fresh copy of its function, re-run `core(sink, engine)` and compare the findings with the
    unedited tree: a breaking edit must add a finding, a benign one must change nothing."""
    killed = 0
    survivors = []
    for mu in mutants:
        keys, err = _run_one(eng_repo, core, mu)
        if err == "n/a":
            raise AnalysisError("mutation %s no longer applies to %s (update the mutant list)" % (mu.label, mu.qualname))
        if err is None and (keys - baseline_keys):
            killed += 1
        else:
            survivors.append("%s [%s]" % (mu.label, err or "no new finding"))
    silent = 0
    noisy = []
    for mu in benign:
        keys, err = _run_one(eng_repo, core, mu)
        if err == "n/a":
            raise AnalysisError("benign edit %s no longer applies to %s" % (mu.label, mu.qualname))
        if err is None and keys == baseline_keys:
            silent += 1
        else:
            noisy.append("%s [%s]" % (mu.label, err or "findings changed: +%s -%s" % (sorted(keys - baseline_keys)[:2], sorted(baseline_keys - keys)[:2])))
    ctx.extra["mutants_total"] = len(mutants)
    ctx.extra["mutants_killed"] = killed
    ctx.extra["benign_total"] = len(benign)
    ctx.extra["benign_silent"] = silent
    ctx.extra["mutants"] = [m.label for m in mutants]
    ctx.ob("mutation-adequacy", "breaking edits detected", not survivors, "%d/%d in-memory breaking edits produce a new finding" % (killed, len(mutants)))
    ctx.ob("mutation-adequacy", "benign edits silent", not noisy, "%d/%d in-memory benign edits leave the findings unchanged" % (silent, len(benign)))
    if survivors:
        raise AnalysisError("rule lost its teeth: surviving mutants: %s" % "; ".join(survivors))
    if noisy:
        raise AnalysisError("rule is brittle: benign edits change the result: %s" % "; ".join(noisy))


def _run_one(repo, core, mu):
    """the edited copy replaces the function's node *in place* for the duration of the run (so that every analysis,
    including the shared abstract interpreter, sees it) and is restored afterwards"""
    f = repo.mod(mu.rel).func(mu.qualname)
    node = clone_func(f.node)
    try:
        applied = mu.fn(node)
    except (IndexError, AttributeError):
        applied = False
    if not applied:
        return set(), "n/a"
    for parent in ast.walk(node):
        for ch in ast.iter_child_nodes(parent):
            ch._parent = parent
    node._parent = getattr(f.node, "_parent", None)
    ast.fix_missing_locations(node)
    orig = f.node
    f.node = node
    c = Collector("quick")
    try:
        core(c, Engine(repo))
    except AnalysisError as e:
        return c.keys(), "analysis error: %s" % str(e)[:160]
    finally:
        f.node = orig
    return c.keys(), None
