"""C22 -- decompilation output is deterministic (no hash-/address-ordered iteration reaches the text).

Rule: (1) a flow-insensitive type inference over androguard/decompiler/*.py (allocation sites for
containers, classes for instances) finds every expression that may evaluate to a `set` and the kind of its
elements: instances of classes without __hash__/__eq__ (identity hash = address), str (hash seed), int
(deterministic) or unknown.  (2) every occurrence of such an expression is classified by what its context does
with it: order-insensitive (membership, len, any/all, set algebra, sorted/min/max with an injective key, a loop
whose body only updates the element itself, does set-/dict-keyed writes, idempotent writes or commutative
folds) or order-sensitive (list(S), list.append / Graph.add_edge per element, last-writer-wins assignment,
S.pop() used as a value, early exit, yield, string formatting).  (3) an order-sensitive consumption of a set
whose elements are not provably ints is reported.  int-only sets are exempt; an undecidable site is an analysis
error, never a violation.  Companion rules: no id()/hash() in the decompiler (address-dependent), and objects
whose __repr__ shows a set are never formatted into emitted text (debug-repr), no clock / random source
(nondeterministic-source), and no shared mutable state that survives a decompilation is mutated: results of
memoised functions, module-/class-level containers, mutable default arguments, module-level objects
(process-history).
"""
from __future__ import annotations

import ast
import os

from ..model import AnalysisError, norm
from .. import report as _report
from ..unordered import (Pkg, Classifier, ExtModel, SENS, INSENS, FLOWS, UNDET, show_ty, norm_src, LOGGER_NAMES, BOT, joins,
                         ACI_FOLDS, INJECTIVE_ATTRS)

OWN_MUTATION_ADEQUACY = True  # thorough tier: whole-package mutants are analysed by thorough() below
PKG_DIR = "androguard/decompiler/"
EXT_MODULES = ("androguard/core/dex/__init__.py", "androguard/core/analysis/analysis.py")
_EXT = None
NONDET_MODULES = {"time", "datetime", "random", "uuid", "secrets"}
WRITER_PATH = ("/writer.py", "/dast.py", "/decompile.py", "/fixture_writer.py")
VERIF = os.path.dirname(os.path.dirname(os.path.dirname(os.path.abspath(__file__))))


class _F:
    """adapter Scope -> the Func interface of report.Ctx"""

    def __init__(self, sc):
        self.qualname = sc.qualname
        self.file = sc.relpath
        self.line = getattr(sc.node, "lineno", 1) or 1
        self.node = sc.node


class Result:
    def __init__(self):
        self.pkg = None
        self.recs = []
        self.findings = []  # (rule, scope, construct, message, node, witness)
        self.undetermined = []  # (scope, construct, message, node)
        self.obligations = []  # (rule, instance, ok, detail)
        self.counts = {}

    def keys(self):
        return {(r, sc.qualname, norm(c)) for r, sc, c, m, n, w in self.findings}


# ---------------------------------------------------------------------------------------------
def analyse(trees, ext=None):
    """the whole rule on a dict relpath -> ast.Module; independent of ctx so that mutants can be analysed"""
    res = Result()
    pkg = Pkg(trees, ext=ext).solve()
    res.pkg = pkg
    cl = Classifier(pkg)
    recs = cl.run()
    res.recs = recs
    cnt = res.counts
    cnt["set_sites"] = sum(1 for k in pkg.site_kind.values() if k == "set")
    cnt["consumptions"] = len(recs)
    cnt["nondet_consumptions"] = sum(1 for r in recs if r.kind == "nondet")
    cnt["iterations"] = sum(1 for r in recs if r.construct.startswith(("for ", "while ")) or "list(" in r.construct)
    seen = set()
    for r in recs:
        inst = "%s | %s | %s" % (r.qualname, r.expr, r.construct[:80])
        if r.kind in ("int", "empty"):
            res.obligations.append(("order-sensitive", inst, True,
                                    "exempt: elements are %s (%s); consumption %s" % ("ints" if r.kind == "int" else "never added", r.elem, r.verdict)))
            continue
        detail = "elements %s [%s]; %s: %s" % (r.elem, "/".join(sorted(r.cats)), r.verdict, r.reason[:200])
        if r.verdict in (INSENS, FLOWS):
            res.obligations.append(("order-sensitive", inst, True, detail))
        elif r.verdict == SENS and r.kind == "nondet":
            res.obligations.append(("order-sensitive", inst, False, detail))
            what = "identity-hashed objects (iteration order follows allocation addresses)" if "obj" in r.cats else "str (iteration order follows PYTHONHASHSEED)"
            if "obj" in r.cats and "str" in r.cats:
                what = "identity-hashed objects and str (iteration order follows addresses / PYTHONHASHSEED)"
            msg = "order-sensitive use of a set of %s: `%s` has elements %s; %s" % (what, r.expr, r.elem, r.reason[:300])
            key = (r.qualname, r.construct)
            if key not in seen:
                seen.add(key)
                res.findings.append(("order-sensitive", r.scope, r.construct, msg, r.node,
                                     dict(set_expression=r.expr, element_type=r.elem, categories=sorted(r.cats), why=r.reason)))
        else:
            # sensitive with unknown element kind, or a context the classifier does not understand
            res.obligations.append(("order-sensitive", inst, True, "UNDECIDED " + detail))
            res.undetermined.append((r.scope, r.construct,
                                     "cannot decide `%s` in %s (elements %s): %s" % (r.expr, r.qualname, r.elem, r.reason[:200]), r.node))
    companion(pkg, cl, res)
    history(pkg, cl, res)
    persistent_iterators(pkg, cl, res)
    return res


def _in_logger_call(n):
    p = getattr(n, "_parent", None)
    while p is not None and not isinstance(p, ast.stmt):
        if isinstance(p, ast.Call):
            b = p.func
            while isinstance(b, (ast.Attribute, ast.Subscript, ast.Call)):
                b = b.func if isinstance(b, ast.Call) else b.value
            if isinstance(b, ast.Name) and b.id in LOGGER_NAMES:
                return True
        p = getattr(p, "_parent", None)
    return isinstance(p, ast.Raise)


def companion(pkg, cl, res):
    """address-dependent: id()/hash() calls; debug-repr: classes whose __repr__/__str__ shows a set in iteration
    order must not be formatted into text outside logging / other __repr__ methods."""
    tainted = set()
    for r in res.recs:
        fs = cl.func_scope(r.scope)
        if fs is not None and fs.node.name in ("__repr__", "__str__") and r.reason.startswith("debug representation") and fs.cls:
            tainted.add(fs.cls)
    tainted_all = set(tainted)
    for c in tainted:
        tainted_all |= {d for d in pkg.descendants(c)
                        if not any(m in pkg.classes[k].methods for k in pkg.mro(d)[: pkg.mro(d).index(c)] for m in ("__repr__", "__str__") if k in pkg.classes)}
    n_id = n_fmt = 0
    for sc in sorted(pkg.scopes.values(), key=lambda s: s.id):
        if pkg.scope_of_node.get(id(sc.node)) is not sc or sc.kind == "module":
            continue
        fname = sc.node.name if sc.kind == "func" else "<lambda>"
        if fname in ("__repr__", "__hash__", "__eq__"):
            continue
        body = sc.node.body if sc.kind == "func" else [sc.node.body]
        from ..unordered import _walk_no_nested
        for n in _walk_no_nested(list(body)):
            # ---- id()/hash() --------------------------------------------------
            if isinstance(n, ast.Call) and isinstance(n.func, ast.Name) and n.func.id in ("id", "hash") and cl.is_builtin(n.func, sc):
                n_id += 1
                if not _in_logger_call(n):
                    res.findings.append(("address-dependent", sc, n,
                                         "%s() of an object depends on its address / the hash seed and differs between runs" % n.func.id, n, None))
                    res.obligations.append(("address-dependent", "%s | %s" % (sc.qualname, norm_src(n)), False, ""))
            if isinstance(n, ast.keyword) and n.arg == "key" and isinstance(n.value, ast.Name) and n.value.id in ("id", "hash"):
                n_id += 1
                call = getattr(n, "_parent", n)
                res.findings.append(("address-dependent", sc, call, "key=%s orders by address / hash seed" % n.value.id, call, None))
                res.obligations.append(("address-dependent", "%s | %s" % (sc.qualname, norm_src(call)), False, ""))
            # ---- clocks / random numbers / process ids ------------------------------------
            if isinstance(n, ast.Call) and isinstance(n.func, ast.Attribute):
                b = n.func
                chain = []
                while isinstance(b, ast.Attribute):
                    chain.append(b.attr)
                    b = b.value
                if isinstance(b, ast.Name) and pkg.lookup(b.id, sc) == frozenset(["top"]) and (
                        b.id in NONDET_MODULES or (b.id == "os" and chain[-1] in ("urandom", "getpid", "times"))):
                    if not _in_logger_call(n):
                        res.findings.append(("nondeterministic-source", sc, n,
                                             "%s differs between runs and is used inside the decompiler" % norm_src(n.func), n, None))
                        res.obligations.append(("nondeterministic-source", "%s | %s" % (sc.qualname, norm_src(n)), False, ""))
            # ---- formatting of objects whose repr shows a set -----------------------
            args = []
            if isinstance(n, ast.BinOp) and isinstance(n.op, ast.Mod) and "str" in pkg.ev(n.left, sc):
                args = list(n.right.elts) if isinstance(n.right, ast.Tuple) else [n.right]
            elif isinstance(n, ast.Call) and isinstance(n.func, ast.Attribute) and n.func.attr in ("format", "join") and "str" in pkg.ev(n.func.value, sc):
                args = list(n.args) + [k.value for k in n.keywords]
            elif isinstance(n, ast.Call) and isinstance(n.func, ast.Name) and n.func.id in ("str", "repr") and n.args:
                args = [n.args[0]]
            elif isinstance(n, ast.FormattedValue):
                args = [n.value]
            if not args:
                continue
            if not sc.relpath.endswith(WRITER_PATH) or fname == "__str__":
                continue  # only code that emits text; __str__ of graph nodes is a debugging aid (Graph.draw, logging)
            n_fmt += 1
            for a in args:
                t = pkg.ev(a, sc)
                t = t | pkg.elem_of(t)  # str() of a list shows the repr of its elements
                hit = [x[1] for x in t if isinstance(x, tuple) and x[0] == "obj" and x[1] in tainted_all]
                ok = not hit or _in_logger_call(n)
                res.obligations.append(("debug-repr", "%s | %s" % (sc.qualname, norm_src(n)[:80]), ok,
                                        "formats %s: %s" % (norm_src(a)[:40], show_ty(pkg, t))))
                if not ok:
                    res.findings.append(("debug-repr", sc, n,
                                         "formats an instance of %s, whose __repr__ prints a set in iteration order, into a string" % "/".join(sorted(set(hit))), n, None))
    res.counts["id_hash_calls"] = n_id
    res.counts["format_sites"] = n_fmt
    res.tainted = sorted(tainted_all)



# ---------------------------------------------------------------------------------------------
# process-history dependence: shared mutable state that survives one decompilation
MEMO_DECORATORS = {"lru_cache", "cache", "memoize", "memoized", "memo"}
MUTATORS = {"append", "extend", "insert", "appendleft", "extendleft", "pop", "popitem", "remove", "clear", "sort", "reverse",
            "add", "discard", "update", "setdefault", "difference_update", "intersection_update", "symmetric_difference_update"}


def _memo_decorator(fn):
    for d in getattr(fn, "decorator_list", ()):
        e = d.func if isinstance(d, ast.Call) else d
        name = e.id if isinstance(e, ast.Name) else (e.attr if isinstance(e, ast.Attribute) else None)
        if name in MEMO_DECORATORS:
            return norm_src(d)
    return None


def _deep_sites(pkg, t, seen=None):
    """container sites a value of type t is or contains (tuple components, elements, dict values)"""
    seen = set() if seen is None else seen
    todo = [t]
    while todo:
        x = todo.pop()
        for a in x:
            if isinstance(a, tuple) and a[0] == "site":
                if a[1] in seen:
                    continue
                seen.add(a[1])
                todo.append(pkg.elem.get(a[1], BOT))
                todo.append(pkg.val.get(a[1], BOT))
            elif isinstance(a, tuple) and a[0] == "tup":
                todo.extend(a[1])
            elif isinstance(a, tuple) and a[0] == "tupv":
                todo.append(a[1])
    return seen


def history(pkg, cl, res):
    """(a) a memoised function (functools.lru_cache/cache, or a module-/class-level dict used as memo) hands the
    *same* list/dict/set object to every caller: if anything in the package mutates that object the result of later
    calls depends on what was decompiled before.  (b) module-/class-level containers, mutable default arguments and
    module-level instances that are mutated from inside a function.  Exempt: containers nobody mutates (constants),
    and keyed insertion into a module-level dict (the memo itself)."""
    from ..unordered import _walk_no_nested, _flat_targets
    shared = {}  # site -> (why, scope that owns it, node)
    n_memo = 0
    for sc in sorted(pkg.scopes.values(), key=lambda s: s.id):
        if sc.kind != "func" or pkg.scope_of_node.get(id(sc.node)) is not sc:
            continue
        deco = _memo_decorator(sc.node)
        if deco:
            n_memo += 1
            for sid in _deep_sites(pkg, pkg.ret_of(sc)):
                if pkg.site_kind[sid] in ("list", "dict", "set"):
                    shared.setdefault(sid, ("the %s returned by the memoised function %s (@%s): every caller gets the same object"
                                            % (pkg.site_kind[sid], sc.qualname, deco), sc, sc.node))
    n_glob = 0
    for sid, k in sorted(pkg.site_kind.items()):
        if k in ("list", "dict", "set") and pkg.site_scope[sid].kind == "module":
            n_glob += 1
            node = pkg.site_node[sid]
            st = node
            while st is not None and not isinstance(st, (ast.stmt, ast.arguments)):
                st = getattr(st, "_parent", None)
            if isinstance(st, ast.arguments):
                why = "the mutable default argument `%s` (one object for all calls)" % norm_src(node)[:40]
            else:
                why = "the module-/class-level %s `%s`" % (k, norm_src(st)[:50] if st is not None else "?")
            for s2 in _deep_sites(pkg, frozenset([("site", sid)])):
                if pkg.site_kind[s2] in ("list", "dict", "set"):
                    shared.setdefault(s2, (why if s2 == sid else "a %s stored in %s" % (pkg.site_kind[s2], why), pkg.site_scope[sid], node))
    ext_sites = set()
    for sid, (meth, stored) in sorted(pkg.ext_sites.items()):
        owners = ", ".join(sorted({"%s.%s() returns its own self.%s" % (c, meth, a) for _, c, a, k in stored})[:3])
        shared[sid] = ("the %s handed out by %s() of the DEX object model without copying (%s): it belongs to an object that outlives "
                       "this decompilation" % (pkg.site_kind[sid], meth, owners), pkg.site_scope[sid], pkg.site_node[sid])
        ext_sites.add(sid)
    res.counts["memoised_functions"] = n_memo
    res.counts["global_containers"] = n_glob
    res.counts["external_containers"] = len(ext_sites)
    # ---- who mutates a shared object? ---------------------------------------------------
    muts = {}
    module_names = {}
    for sc in sorted(pkg.scopes.values(), key=lambda s: s.id):
        if sc.kind == "module" or pkg.scope_of_node.get(id(sc.node)) is not sc:
            continue
        body = list(sc.node.body) if sc.kind == "func" else [sc.node.body]
        for n in _walk_no_nested(body):
            hits = []
            if isinstance(n, ast.Call) and isinstance(n.func, ast.Attribute) and n.func.attr in MUTATORS:
                t = pkg.ev(n.func.value, sc)
                kind = "memo-insert" if n.func.attr == "setdefault" else n.func.attr
                hits = [(x, kind) for x in pkg.sites(t)]
            elif isinstance(n, (ast.Assign, ast.AugAssign, ast.Delete)):
                tg = n.targets if isinstance(n, (ast.Assign, ast.Delete)) else [n.target]
                for t0 in tg:
                    for ft in _flat_targets(t0):
                        if isinstance(ft, ast.Subscript):
                            for x in pkg.sites(pkg.ev(ft.value, sc)):
                                ins = isinstance(n, ast.Assign) and pkg.site_kind[x] == "dict"
                                hits.append((x, "memo-insert" if ins else "item assignment/deletion"))
                        elif isinstance(n, ast.AugAssign) and isinstance(ft, (ast.Name, ast.Attribute)):
                            for x in pkg.sites(pkg.ev(Pkg._as_load(ft), sc)):
                                hits.append((x, "augmented assignment"))
            for x, kind in hits:
                if x in shared and (pkg.site_scope[x] is not sc or x in ext_sites):
                    if x in ext_sites and kind == "memo-insert":
                        kind = "item assignment"
                    muts.setdefault(x, []).append((sc, n, kind))
    done = set()
    for sid in sorted(shared):
        why, owner, onode = shared[sid]
        ms = muts.get(sid, [])
        real = [m for m in ms if m[2] != "memo-insert"]
        inst = "%s | %s" % (owner.qualname, why[:90])
        if not real:
            res.obligations.append(("process-history", inst, True,
                                    "never mutated inside a function" + (" except keyed insertion (memo)" if ms else "")))
            continue
        res.obligations.append(("process-history", inst, False, ""))
        who = "; ".join(dict.fromkeys("%s in %s" % (norm_src(n)[:50], sc.qualname) for sc, n, k in real[:3]))
        if sid in ext_sites:
            key_sc, construct, onode = real[0][0], real[0][1], real[0][1]
        elif owner.kind == "func":
            key_sc, construct = owner, "def %s(%s)" % (owner.node.name, ", ".join(owner.params))
        else:
            # a function that hands the shared object out (hand-written memo), else the first mutator
            givers = [g for g in sorted(pkg.scopes.values(), key=lambda s: s.id)
                      if g.kind == "func" and pkg.scope_of_node.get(id(g.node)) is g
                      and ("site", sid) in pkg.ret_of(g) and all(g is not m[0] for m in real)]
            if givers and why.startswith("a "):
                key_sc, construct = givers[0], "def %s(%s)" % (givers[0].node.name, ", ".join(givers[0].params))
                why = why + ", handed out by %s()" % givers[0].qualname
                onode = givers[0].node
                owner = givers[0]
            else:
                key_sc, construct = real[0][0], real[0][1]
        if (key_sc.qualname, norm(construct)) in done:
            continue
        done.add((key_sc.qualname, norm(construct)))
        res.findings.append(("process-history", key_sc, construct,
                             "%s is mutated (%s): what a later decompilation sees depends on what was decompiled earlier in the process" % (why, who),
                             onode if (owner.kind == "func" or sid in ext_sites) else real[0][1], dict(shared=why, mutated_by=who)))
    # ---- module-level instances / rebinding of globals from inside functions ----------------
    for sc in sorted(pkg.scopes.values(), key=lambda s: s.id):
        if sc.kind != "func" or pkg.scope_of_node.get(id(sc.node)) is not sc:
            continue
        ms = pkg._module_scope[sc.relpath]
        for n in _walk_no_nested(list(sc.node.body)):
            tgt = None
            if isinstance(n, (ast.Assign, ast.AugAssign)):
                for t0 in (n.targets if isinstance(n, ast.Assign) else [n.target]):
                    for ft in _flat_targets(t0):
                        b = ft
                        while isinstance(b, (ast.Attribute, ast.Subscript)):
                            b = b.value
                        if isinstance(b, ast.Name) and pkg.owner_scope(b.id, sc) is ms and b.id in ms.bound:
                            t = pkg.lookup(b.id, sc)
                            if ft is b:
                                if b.id in sc.declared_free:
                                    tgt = (b.id, "rebinds the module-level name")
                            elif isinstance(ft, ast.Attribute) and any(isinstance(a, tuple) and a[0] in ("obj", "cls") for a in t):
                                tgt = (b.id, "sets an attribute of the module-level object")
            if tgt is None and isinstance(n, (ast.Assign, ast.AugAssign)):
                for t0 in (n.targets if isinstance(n, ast.Assign) else [n.target]):
                    if isinstance(t0, ast.Attribute):
                        v = t0.value
                        is_cls = (isinstance(v, ast.Call) and isinstance(v.func, ast.Name) and v.func.id == "type" and len(v.args) == 1) or \
                                 (isinstance(v, ast.Attribute) and v.attr == "__class__") or \
                                 (isinstance(v, ast.Name) and getattr(sc, "is_classmethod", False) and sc.params and v.id == sc.params[0])
                        if is_cls:
                            tgt = (norm_src(v), "stores into the class object (shared by all instances)")
            if tgt:
                res.obligations.append(("process-history", "%s | %s" % (sc.qualname, norm_src(n)[:80]), False, ""))
                res.findings.append(("process-history", sc, n,
                                     "%s `%s` from inside a function: state survives from one decompilation to the next" % (tgt[1], tgt[0]), n, None))


ITER_CTORS = {"count", "cycle", "repeat", "iter", "islice", "chain", "zip", "map", "filter", "enumerate", "reversed", "accumulate", "product"}


def _is_iterator_ctor(pkg, e, sc):
    """the expression creates an iterator object (itertools.count(), iter(...), a generator ...)"""
    if isinstance(e, ast.GeneratorExp):
        return "generator expression"
    if isinstance(e, ast.Call):
        f = e.func
        nm = f.id if isinstance(f, ast.Name) else (f.attr if isinstance(f, ast.Attribute) else None)
        if nm in ITER_CTORS:
            base = f if isinstance(f, ast.Name) else f.value
            if isinstance(base, ast.Name) and pkg.lookup(base.id, sc) == frozenset(["top"]):
                return "%s(...)" % norm_src(f)
        for callee, _, _ in pkg.callees(e, sc):
            if callee.is_gen:
                return "generator %s()" % callee.qualname
    return None


def _formatted(n):
    """is the value of expression n formatted into a string (%, format, f-string, str(), join)? -> the formatting node"""
    p, child = getattr(n, "_parent", None), n
    while p is not None and not isinstance(p, ast.stmt):
        if isinstance(p, ast.BinOp) and isinstance(p.op, ast.Mod) and (p.right is child or isinstance(p.right, ast.Tuple)) and p.left is not child:
            return p
        if isinstance(p, (ast.FormattedValue, ast.JoinedStr)):
            return p
        if isinstance(p, ast.Call) and child in p.args:
            f = p.func
            if isinstance(f, ast.Attribute) and f.attr in ("format", "join"):
                return p
            if isinstance(f, ast.Name) and f.id in ("str", "repr", "format"):
                return p
        if isinstance(p, ast.BinOp) and isinstance(p.op, ast.Add):
            pass
        elif isinstance(p, (ast.Tuple,)):
            pass
        elif not isinstance(p, (ast.BinOp, ast.Call, ast.IfExp)):
            break
        child, p = p, getattr(p, "_parent", None)
    return None


def persistent_iterators(pkg, cl, res):
    """process-history, part (d): an iterator / counter object bound at class or module level (itertools.count(), iter(...),
    a generator) survives every decompilation; advancing it with next() inside the decompiler makes the numbers it yields
    depend on how much was decompiled before.  Positive when the object is provably class-/module-level (never re-bound per
    instance) and the drawn value is formatted into a string; otherwise undecided."""
    from ..unordered import _walk_no_nested
    # class-level and module-level iterator objects
    persistent = {}  # ('cls', C, attr) | ('mod', relpath, name) -> description
    for ci in pkg.classes.values():
        ms = pkg._module_scope[ci.relpath]
        for a, e in ci.attrs.items():
            d = _is_iterator_ctor(pkg, e, ms)
            if d:
                persistent[("cls", ci.name, a)] = "class attribute %s.%s = %s" % (ci.name, a, d)
    for rp, ms in pkg._module_scope.items():
        for st in ms.node.body:
            if isinstance(st, ast.Assign) and len(st.targets) == 1 and isinstance(st.targets[0], ast.Name):
                d = _is_iterator_ctor(pkg, st.value, ms)
                if d:
                    persistent[("mod", rp, st.targets[0].id)] = "module-level %s = %s" % (st.targets[0].id, d)
    res.counts["persistent_iterators"] = len(persistent)
    if not persistent:
        return
    for sc in sorted(pkg.scopes.values(), key=lambda s: s.id):
        if sc.kind == "module" or pkg.scope_of_node.get(id(sc.node)) is not sc:
            continue
        body = list(sc.node.body) if sc.kind == "func" else [sc.node.body]
        for n in _walk_no_nested(body):
            arg = None
            if isinstance(n, ast.Call) and isinstance(n.func, ast.Name) and n.func.id == "next" and n.args and cl.is_builtin(n.func, sc):
                arg = n.args[0]
            elif isinstance(n, ast.Call) and isinstance(n.func, ast.Attribute) and n.func.attr == "__next__":
                arg = n.func.value
            if arg is None:
                continue
            hits, rebound = [], False
            if isinstance(arg, ast.Attribute):
                t = pkg.ev(arg.value, sc)
                for a in sorted(t, key=repr):
                    if isinstance(a, tuple) and a[0] in ("obj", "cls") and a[1] in pkg.classes:
                        for k in pkg.mro(a[1]):
                            if ("cls", k, arg.attr) in persistent:
                                hits.append(("cls", k, arg.attr))
                                if a[0] == "obj" and any((k2, arg.attr) in pkg.attr for k2 in pkg.related(k)):
                                    rebound = True
                                break
                if isinstance(arg.value, ast.Name) and ("mod", None, None):
                    mt = [x for x in t if isinstance(x, tuple) and x[0] == "mod"]
                    for x in mt:
                        if ("mod", x[1], arg.attr) in persistent:
                            hits.append(("mod", x[1], arg.attr))
            elif isinstance(arg, ast.Name):
                ms = pkg._module_scope[sc.relpath]
                if pkg.owner_scope(arg.id, sc) is ms:
                    if ("mod", sc.relpath, arg.id) in persistent:
                        hits.append(("mod", sc.relpath, arg.id))
                    else:
                        imp = pkg.imports.get(sc.relpath, {}).get(arg.id)
                        if imp and imp[1] and imp[0] in pkg.by_dotted and ("mod", pkg.by_dotted[imp[0]], imp[1]) in persistent:
                            hits.append(("mod", pkg.by_dotted[imp[0]], imp[1]))
            for h in dict.fromkeys(hits):
                what = persistent[h]
                inst = "%s | %s" % (sc.qualname, norm_src(n)[:70])
                fmt = _formatted(n)
                if fmt is None:
                    # one hop through a local: v = next(X) ... '%d' % v
                    st = n
                    while st is not None and not isinstance(st, ast.stmt):
                        st = getattr(st, "_parent", None)
                    if isinstance(st, ast.Assign) and st.value is n and len(st.targets) == 1 and isinstance(st.targets[0], ast.Name) and sc.kind == "func":
                        v = st.targets[0].id
                        for u in _walk_no_nested(list(sc.node.body)):
                            if isinstance(u, ast.Name) and u.id == v and isinstance(u.ctx, ast.Load) and _formatted(u) is not None:
                                fmt = _formatted(u)
                                break
                if fmt is not None and not rebound:
                    res.obligations.append(("process-history", inst, False, ""))
                    res.findings.append(("process-history", sc, n,
                                         "%s is one object for the whole process (never re-bound per instance); %s advances it and the number drawn is "
                                         "formatted into `%s`: the text depends on how much was decompiled earlier in the process"
                                         % (what, norm_src(n)[:40], norm_src(fmt)[:60]), n, dict(persistent=what)))
                else:
                    res.obligations.append(("process-history", inst, True, "UNDECIDED"))
                    res.undetermined.append((sc, n, "%s is advanced by %s in %s; %s" % (
                        what, norm_src(n)[:40], sc.qualname,
                        "the attribute is also re-bound per instance somewhere" if rebound else "where the drawn value goes is not followed"), n))

# ---------------------------------------------------------------------------------------------
# frozen design-time classification (DESIGN.md Appendix D).  A row is matched by role: function, a name that
# occurs in the set expression, and the syntactic form of the consumption.  Rows whose site no longer exists in
# that form are skipped.
FORM_FOR, FORM_ANY = "for", "any"
APPENDIX_D = [
    # (qualname, token in set expression, form, expected)
    ("Writer.visit_node", "var_to_declare", FORM_FOR, "sensitive"),
    ("JSONWriter.visit_node", "var_to_declare", FORM_FOR, "sensitive"),
    ("Interval.compute_end", "content", FORM_FOR, "sensitive"),
    ("Interval.__contains__", "content", FORM_ANY, "insensitive"),
    ("Interval.add_node", "content", FORM_ANY, "insensitive"),
    ("Interval.__len__", "content", FORM_ANY, "insensitive"),
    ("Node.update_attribute_with", "loop_nodes", "list", "sensitive"),
    ("short_circuit_struct.MergeNodes", "lpreds", FORM_FOR, "sensitive"),
    ("short_circuit_struct.MergeNodes", "ldests", FORM_FOR, "sensitive"),
    ("if_struct", "unresolved", FORM_ANY, "insensitive"),
    ("switch_struct", "unresolved", FORM_ANY, "insensitive"),
    ("short_circuit_struct", "done", FORM_ANY, "insensitive"),
    ("split_if_nodes", "to_update", FORM_ANY, "insensitive"),
    ("simplify", "to_update", FORM_ANY, "insensitive"),
    ("dom_lt", "pred", FORM_ANY, "insensitive"),
    ("dom_lt", "bpw", FORM_ANY, "insensitive"),
    ("dom_lt", "bucket", FORM_ANY, "insensitive"),
    ("Graph.post_order._visit", "visited", FORM_ANY, "insensitive"),
    ("Writer.visit_node", "visited_nodes", FORM_ANY, "insensitive"),
    ("JSONWriter.visit_node", "visited_nodes", FORM_ANY, "insensitive"),
    ("place_declarations", "def_nodes", FORM_ANY, "insensitive"),
    ("BasicReachDef.__init__", "", FORM_ANY, "exempt"),
    ("BasicReachDef.run", "", FORM_ANY, "exempt"),
    ("update_chain", "", FORM_ANY, "exempt"),
    ("build_def_use", "", FORM_ANY, "exempt"),
    ("group_variables", "", FORM_ANY, "exempt"),
] + [(q + ".get_used_vars", "lused_vars", "list", "exempt|sensitive") for q in (
    "ArrayStoreInstruction", "InstanceInstruction", "InvokeInstruction", "InvokeStaticInstruction", "ArrayLoadExpression",
    "FilledArrayExpression", "BinaryExpression", "ConditionalExpression")]


def _form(r):
    p = getattr(r.node, "_parent", None)
    if isinstance(p, (ast.For, ast.AsyncFor)) and p.iter is r.node:
        return FORM_FOR
    if isinstance(p, ast.Call) and isinstance(p.func, ast.Name) and p.func.id == "list" and r.node in p.args:
        return "list"
    return "other"


def _derived(r):
    if r.kind in ("int", "empty"):
        return "exempt"
    if r.verdict in (INSENS, FLOWS):
        return "insensitive"
    if r.verdict == SENS and r.kind == "nondet":
        return "sensitive"
    return "undecided"


def compare_appendix_d(res):
    """-> (rows matched, list of disagreements)"""
    matched, bad = 0, []
    for q, tok, form, exp in APPENDIX_D:
        rows = [r for r in res.recs if r.qualname == q and (not tok or tok in {n.id for n in ast.walk(r.node) if isinstance(n, ast.Name)} | {n.attr for n in ast.walk(r.node) if isinstance(n, ast.Attribute)})]
        if form != FORM_ANY:
            rows = [r for r in rows if _form(r) == form]
        if not rows:
            continue
        matched += 1
        for r in rows:
            d = _derived(r)
            if d not in exp.split("|") and not (exp == "insensitive" and d == "exempt"):
                bad.append("%s `%s`: Appendix D says %s, derived %s (%s)" % (q, r.expr, exp, d, r.reason[:120]))
    return matched, bad


# ---------------------------------------------------------------------------------------------
def fixture_check():
    """the rule must fire on the positive examples of fixtures/C22 and stay silent on the negative ones"""
    path = os.path.join(VERIF, "fixtures", "C22", "unordered_fixture.py")
    if not os.path.exists(path):
        raise AnalysisError("fixture missing: %s" % path)
    with open(path) as fh:
        tree = ast.parse(fh.read())
    with open(os.path.join(VERIF, "fixtures", "C22", "ext_model_fixture.py")) as fh:
        ext = ExtModel({"fixture/ext_model_fixture.py": ast.parse(fh.read())})
    res = analyse({"fixture/unordered_fixture.py": tree}, ext)
    fired = {}
    for rule, sc, c, m, n, w in res.findings:
        fired.setdefault(sc.qualname.split(".")[-1], set()).add(rule)
    und = {sc.qualname.split(".")[-1] for sc, c, m, n in res.undetermined}
    problems = []
    n_pos = n_neg = 0
    for st in ast.walk(tree):
        if not isinstance(st, ast.FunctionDef):
            continue
        name = st.name
        if name.startswith("sens_"):
            n_pos += 1
            if "order-sensitive" not in fired.get(name, ()):
                problems.append("%s: expected an order-sensitive finding" % name)
        elif name.startswith("clock_"):
            n_pos += 1
            if "nondeterministic-source" not in fired.get(name, ()):
                problems.append("%s: expected a nondeterministic-source finding" % name)
        elif name.startswith("hist_"):
            n_pos += 1
            if "process-history" not in fired.get(name, ()):
                problems.append("%s: expected a process-history finding" % name)
        elif name.startswith("addr_"):
            n_pos += 1
            if "address-dependent" not in fired.get(name, ()):
                problems.append("%s: expected an address-dependent finding" % name)
        elif name.startswith(("ok_", "exempt_")):
            n_neg += 1
            if fired.get(name) or name in und:
                problems.append("%s: expected silence, got %s" % (name, sorted(fired.get(name, ())) or "undetermined"))
    if problems:
        raise AnalysisError("C22 rule no longer behaves on its fixture: " + "; ".join(problems))
    return n_pos, n_neg


# ---------------------------------------------------------------------------------------------
def package_trees(ctx, parse=False):
    trees = {}
    for rp in sorted(ctx.repo.modules):
        if rp.startswith(PKG_DIR) and rp.count("/") == 2:
            m = ctx.mod(rp)
            trees[rp] = ast.parse(m.text, filename=rp) if parse else m.tree
    return trees


def run(ctx):
    ctx.explanation = __doc__
    trees = package_trees(ctx)
    ctx.require(len(trees) >= 10, "anchor vanished: androguard/decompiler has %d modules" % len(trees))
    for rp in ("node.py", "control_flow.py", "graph.py", "dataflow.py", "writer.py", "basic_blocks.py"):
        ctx.require(PKG_DIR + rp in trees, "anchor vanished: %s%s" % (PKG_DIR, rp))
    global _EXT
    _EXT = ExtModel({rp: ctx.mod(rp).tree for rp in EXT_MODULES if rp in ctx.repo.modules})
    ctx.require(len(_EXT.classes) >= 50, "anchor vanished: DEX object model has %d classes" % len(_EXT.classes))
    res = analyse(trees, _EXT)
    pkg = res.pkg
    ctx.assume("closed world by name: an attribute/method name defined by a class of androguard/decompiler, used on a "
               "receiver of unknown type inside that package, denotes one of those definitions; values coming from outside "
               "the package are 'unknown' and never assumed to be sets")
    ctx.assume("set-/dict-keyed writes and writes to the iterated element's own state commute; the insertion order of a dict "
               "filled inside an unordered loop is not tracked (instance: `dom` in dom_lt, whose consumers are max(key=num) folds)")
    ctx.assume("logging (logger.*) and __repr__ are not emitted text; " + "; ".join("%s: %s" % kv for kv in sorted(ACI_FOLDS.items()))
               + "; " + "; ".join(".%s: %s" % kv for kv in sorted(INJECTIVE_ATTRS.items())))
    ctx.note("type inference: %d scopes, %d scope evaluations, %d container sites" % (len(pkg.scopes), pkg.total_runs, len(pkg.site_kind)))
    for sc in pkg.scopes.values():
        if sc.kind == "func" and any(r.scope is sc for r in res.recs):
            ctx.analysed(_F(sc))
    for rule, inst, ok, detail in res.obligations:
        ctx.ob(rule, inst, ok, detail)
    for rule, sc, construct, msg, node, wit in res.findings:
        ctx.finding(rule, _F(sc), construct, msg, node=node, witness=wit)
    for k, v in res.counts.items():
        ctx.count(k, v)
    ctx.floor("set_sites", 25)
    ctx.floor("consumptions", 80)
    ctx.floor("nondet_consumptions", 40)
    ctx.floor("iterations", 10)
    ctx.floor("format_sites", 40)
    ctx.floor("global_containers", 5)
    pos, neg = fixture_check()
    ctx.ob("fixture", "fixtures/C22/unordered_fixture.py", True, "%d positive examples fire, %d negative examples are silent" % (pos, neg))
    ctx.extra["classification"] = [r.as_dict() for r in res.recs if r.verdict != FLOWS and r.kind not in ("int", "empty")]
    ctx.extra["tainted_repr_classes"] = res.tainted

    if ctx.tier == "thorough":
        thorough(ctx, res)

    if res.undetermined:
        known = _report.load_known()
        new = [f for f in ctx.findings if _report._match_known(f, known) is None]
        text = "; ".join(m for sc, c, m, n in res.undetermined[:4]) + (" (+%d more)" % (len(res.undetermined) - 4) if len(res.undetermined) > 4 else "")
        if new:
            # a definite violation outranks an incomplete analysis elsewhere
            ctx.note("undecided sites (not reported because definite violations exist): " + text)
        else:
            raise AnalysisError("order-sensitivity undecidable: " + text)


# ---------------------------------------------------------------------------------------------
# thorough tier: Appendix D cross-check + in-memory mutation adequacy
def _func(tree, qualname):
    parts = qualname.split(".")
    body = tree.body
    node = None
    for p in parts:
        node = next((n for n in body if isinstance(n, (ast.FunctionDef, ast.ClassDef)) and n.name == p), None)
        if node is None:
            return None
        body = node.body
    return node


def _replace_names(node, mapping):
    for n in ast.walk(node):
        if isinstance(n, ast.Name) and n.id in mapping:
            n.id = mapping[n.id]
        elif isinstance(n, ast.arg) and n.arg in mapping:
            n.arg = mapping[n.arg]


def m_fold_to_last_writer(trees):
    """dom_lt: y = semi[w] = min(semi[w], semi[u])  ->  y = semi[w] = semi[u]"""
    f = _func(trees[PKG_DIR + "graph.py"], "dom_lt")
    for n in ast.walk(f) if f else ():
        if isinstance(n, ast.Assign) and isinstance(n.value, ast.Call) and isinstance(n.value.func, ast.Name) and n.value.func.id == "min" \
                and len(n.value.args) == 2 and any(ast.dump(n.value.args[0]) == ast.dump(Pkg._as_load(t)) for t in n.targets):
            n.value = n.value.args[1]
            return "dom_lt"
    return None


def m_meet_to_last(trees):
    """place_declarations: common_dominator = common_dom(idom, common_dominator, def_node) -> common_dominator = def_node"""
    f = _func(trees[PKG_DIR + "dataflow.py"], "place_declarations")
    for n in ast.walk(f) if f else ():
        if isinstance(n, ast.Assign) and isinstance(n.value, ast.Call) and isinstance(n.value.func, ast.Name) and n.value.func.id == "common_dom":
            n.value = n.value.args[-1]
            return "place_declarations"
    return None


def m_own_to_other(trees):
    """if_struct: x.follow['if'] = n  ->  node.follow['if'] = x   (element-valued write to another object)"""
    f = _func(trees[PKG_DIR + "control_flow.py"], "if_struct")
    for loop in ast.walk(f) if f else ():
        if isinstance(loop, ast.For) and isinstance(loop.target, ast.Name) and isinstance(loop.iter, ast.Call) \
                and isinstance(loop.iter.func, ast.Attribute) and loop.iter.func.attr == "copy":
            x = loop.target.id
            for n in ast.walk(loop):
                if isinstance(n, ast.Assign) and isinstance(n.targets[0], ast.Subscript) and isinstance(n.targets[0].value, ast.Attribute) \
                        and isinstance(n.targets[0].value.value, ast.Name) and n.targets[0].value.value.id == x:
                    n.targets[0].value.value = ast.Name(id="node", ctx=ast.Load())
                    n.value = ast.Name(id=x, ctx=ast.Load())
                    return "if_struct"
    return None


def m_list_to_set(trees):
    """mark_loop / mark_loop_rec: nodes_in_loop becomes a set (append -> add)"""
    t = trees[PKG_DIR + "control_flow.py"]
    f, g = _func(t, "mark_loop"), _func(t, "mark_loop_rec")
    if not f or not g:
        return None
    done = 0
    for n in ast.walk(f):
        if isinstance(n, ast.Assign) and isinstance(n.value, ast.List) and len(n.value.elts) == 1 and isinstance(n.targets[0], ast.Name) \
                and n.targets[0].id == "nodes_in_loop":
            n.value = ast.Set(elts=n.value.elts)
            done += 1
    for n in ast.walk(g):
        if isinstance(n, ast.Attribute) and n.attr == "append" and isinstance(n.value, ast.Name) and n.value.id == "nodes_in_loop":
            n.attr = "add"
            done += 1
    return "loop_struct" if done == 2 else None


def m_adjacency_sets(trees):
    """Graph.all_preds returns a set (deduplicated predecessors)"""
    f = _func(trees[PKG_DIR + "graph.py"], "Graph.all_preds")
    for n in ast.walk(f) if f else ():
        if isinstance(n, ast.Return) and n.value is not None:
            n.value = ast.Call(func=ast.Name(id="set", ctx=ast.Load()), args=[n.value], keywords=[])
            return "all_preds"
    return None


def m_update_to_append(trees):
    """split_if_nodes: for node in to_update: node.update_attribute_with(node_map) -> graph.add_node(node)"""
    f = _func(trees[PKG_DIR + "graph.py"], "split_if_nodes")
    for loop in ast.walk(f) if f else ():
        if isinstance(loop, ast.For) and isinstance(loop.iter, ast.Name) and len(loop.body) == 1 and isinstance(loop.body[0], ast.Expr) \
                and isinstance(loop.body[0].value, ast.Call) and isinstance(loop.body[0].value.func, ast.Attribute) \
                and loop.body[0].value.func.attr == "update_attribute_with":
            loop.body[0].value = ast.Call(func=ast.Attribute(value=ast.Name(id="graph", ctx=ast.Load()), attr="add_node", ctx=ast.Load()),
                                          args=[ast.Name(id=loop.target.id, ctx=ast.Load())], keywords=[])
            return "split_if_nodes"
    return None


def m_key_id(trees):
    """Graph.compute_rpo: sorted(self.nodes, key=lambda n: n.num) -> key=id"""
    f = _func(trees[PKG_DIR + "graph.py"], "Graph.compute_rpo")
    for n in ast.walk(f) if f else ():
        if isinstance(n, ast.Call) and isinstance(n.func, ast.Name) and n.func.id == "sorted":
            for k in n.keywords:
                if k.arg == "key":
                    k.value = ast.Name(id="id", ctx=ast.Load())
                    return "compute_rpo"
    return None


def m_pop_first(trees):
    """if_struct: n = max(ldominates, key=...) with ldominates a list -> a set and n = ldominates.pop()"""
    f = _func(trees[PKG_DIR + "control_flow.py"], "if_struct")
    if not f:
        return None
    done = 0
    for n in ast.walk(f):
        if isinstance(n, ast.Assign) and isinstance(n.value, ast.List) and not n.value.elts and isinstance(n.targets[0], ast.Name) and n.targets[0].id == "ldominates":
            n.value = ast.Call(func=ast.Name(id="set", ctx=ast.Load()), args=[], keywords=[])
            done += 1
        elif isinstance(n, ast.Attribute) and n.attr == "append" and isinstance(n.value, ast.Name) and n.value.id == "ldominates":
            n.attr = "add"
            done += 1
        elif isinstance(n, ast.Assign) and isinstance(n.value, ast.Call) and isinstance(n.value.func, ast.Name) and n.value.func.id == "max" \
                and n.value.args and isinstance(n.value.args[0], ast.Name) and n.value.args[0].id == "ldominates":
            n.value = ast.Call(func=ast.Attribute(value=ast.Name(id="ldominates", ctx=ast.Load()), attr="pop", ctx=ast.Load()), args=[], keywords=[])
            done += 1
    return "if_struct" if done == 3 else None


def m_compute_end_raw(trees):
    """Interval.compute_end: for node in sorted(self.content, key=...) -> for node in self.content"""
    f = _func(trees[PKG_DIR + "node.py"], "Interval.compute_end")
    for n in ast.walk(f) if f else ():
        if isinstance(n, ast.For) and isinstance(n.iter, ast.Call) and isinstance(n.iter.func, ast.Name) and n.iter.func.id == "sorted" and n.iter.args:
            n.iter = n.iter.args[0]
            return "compute_end"
    return None


def m_merge_key_id(trees):
    """MergeNodes: sorted(lpreds, key=lambda n: n.num) -> sorted(lpreds, key=lambda n: id(n))"""
    f = _func(trees[PKG_DIR + "control_flow.py"], "short_circuit_struct.MergeNodes")
    for n in ast.walk(f) if f else ():
        if isinstance(n, ast.For) and isinstance(n.iter, ast.Call) and isinstance(n.iter.func, ast.Name) and n.iter.func.id == "sorted":
            for k in n.iter.keywords:
                if k.arg == "key":
                    k.value = ast.parse("lambda n: id(n)", mode="eval").body
                    return "MergeNodes"
    return None


def m_used_vars_set(trees):
    """BinaryExpression.get_used_vars: list(dict.fromkeys(v)) -> list(frozenset(v))"""
    f = _func(trees[PKG_DIR + "instruction.py"], "BinaryExpression.get_used_vars")
    for n in ast.walk(f) if f else ():
        if isinstance(n, ast.Call) and isinstance(n.func, ast.Attribute) and n.func.attr == "fromkeys":
            n.func = ast.Name(id="frozenset", ctx=ast.Load())
            return "get_used_vars"
    return None


def m_declare_set(trees):
    """Writer.visit_node: for var in node.var_to_declare -> for var in set(node.var_to_declare)"""
    f = _func(trees[PKG_DIR + "writer.py"], "Writer.visit_node")
    for n in ast.walk(f) if f else ():
        if isinstance(n, ast.For) and isinstance(n.iter, ast.Attribute) and n.iter.attr == "var_to_declare":
            n.iter = ast.Call(func=ast.Name(id="set", ctx=ast.Load()), args=[n.iter], keywords=[])
            return "visit_node"
    return None


def m_lru_cache_list(trees):
    """util.get_access_method gets @lru_cache: one shared list per flag word (dast removes 'constructor' from it)"""
    f = _func(trees[PKG_DIR + "util.py"], "get_access_method")
    if f is None:
        return None
    f.decorator_list.append(ast.parse("lru_cache(maxsize=None)", mode="eval").body)
    return "get_access_method"


MUTANTS = [m_lru_cache_list, m_compute_end_raw, m_merge_key_id, m_used_vars_set, m_declare_set, m_fold_to_last_writer, m_meet_to_last, m_own_to_other, m_list_to_set, m_adjacency_sets, m_update_to_append, m_key_id, m_pop_first]


def b_rename_local(trees):
    f = _func(trees[PKG_DIR + "control_flow.py"], "if_struct")
    if not f:
        return None
    _replace_names(f, {"unresolved": "pending", "x": "cand"})
    return "rename"


def b_sorted_fix(trees):
    """MergeNodes: for pred in lpreds -> for pred in sorted(lpreds, key=lambda n: n.num)  (removes findings, adds none)"""
    f = _func(trees[PKG_DIR + "control_flow.py"], "short_circuit_struct.MergeNodes")
    done = 0
    for n in ast.walk(f) if f else ():
        if isinstance(n, ast.For) and isinstance(n.iter, ast.Name) and n.iter.id in ("lpreds", "ldests"):
            n.iter = ast.parse("sorted(%s, key=lambda n: n.num)" % n.iter.id, mode="eval").body
            done += 1
    return "sorted" if done else None


def b_reorder(trees):
    f = _func(trees[PKG_DIR + "control_flow.py"], "short_circuit_struct.MergeNodes")
    if not f:
        return None
    for i in range(len(f.body) - 1):
        a, b = f.body[i], f.body[i + 1]
        if all(isinstance(s, ast.Expr) and isinstance(s.value, ast.Call) and isinstance(s.value.func, ast.Attribute)
               and s.value.func.attr == "difference_update" for s in (a, b)):
            f.body[i], f.body[i + 1] = b, a
            return "reorder"
    return None


def b_len_list(trees):
    f = _func(trees[PKG_DIR + "node.py"], "Interval.__len__")
    for n in ast.walk(f) if f else ():
        if isinstance(n, ast.Call) and isinstance(n.func, ast.Name) and n.func.id == "len":
            n.args = [ast.Call(func=ast.Name(id="list", ctx=ast.Load()), args=n.args, keywords=[])]
            return "len(list())"
    return None


def b_copy_as_list(trees):
    f = _func(trees[PKG_DIR + "control_flow.py"], "if_struct")
    for n in ast.walk(f) if f else ():
        if isinstance(n, ast.For) and isinstance(n.iter, ast.Call) and isinstance(n.iter.func, ast.Attribute) and n.iter.func.attr == "copy":
            n.iter = ast.Call(func=ast.Name(id="list", ctx=ast.Load()), args=[n.iter.func.value], keywords=[])
            return "list(S) loop"
    return None


def b_tuple_key(trees):
    """sorted(S, key=lambda n: n.num) -> key=lambda n: (n.num, n.name)"""
    f = _func(trees[PKG_DIR + "node.py"], "Interval.compute_end")
    for n in ast.walk(f) if f else ():
        if isinstance(n, ast.Call) and isinstance(n.func, ast.Name) and n.func.id == "sorted":
            for k in n.keywords:
                if k.arg == "key":
                    k.value = ast.parse("lambda n: (n.num, n.name)", mode="eval").body
                    return "tuple key"
    return None


def b_lru_cache_scalar(trees):
    """util.get_type_size (returns an int) gets @lru_cache"""
    f = _func(trees[PKG_DIR + "util.py"], "get_type_size")
    if f is None:
        return None
    f.decorator_list.append(ast.parse("lru_cache(maxsize=None)", mode="eval").body)
    return "get_type_size"


BENIGN = [b_lru_cache_scalar, b_tuple_key, b_rename_local, b_sorted_fix, b_reorder, b_len_list, b_copy_as_list]


def _mutated(ctx, edit):
    trees = package_trees(ctx, parse=True)
    tag = edit(trees)
    if tag is None:
        return None, None
    for t in trees.values():
        ast.fix_missing_locations(t)
    return tag, analyse(trees, _EXT)


def thorough(ctx, res):
    matched, bad = compare_appendix_d(res)
    ctx.count("appendix_d_rows", matched)
    ctx.ob("appendix-d", "frozen design-time classification", not bad, "%d of %d rows still exist and agree" % (matched, len(APPENDIX_D)))
    if bad:
        raise AnalysisError("derived classification disagrees with DESIGN Appendix D: " + "; ".join(bad[:5]))
    ctx.floor("appendix_d_rows", 16)
    base = res.keys()
    killed = total = 0
    survivors = []
    for edit in MUTANTS:
        tag, r2 = _mutated(ctx, edit)
        if r2 is None:
            ctx.note("mutant %s not applicable (anchor changed)" % edit.__name__)
            continue
        total += 1
        new = r2.keys() - base
        if new:
            killed += 1
            ctx.ob("mutation", edit.__name__, True, "%s -> %d new finding(s), e.g. %s" % ((edit.__doc__ or "").strip()[:90], len(new), sorted(new)[0][1:]))
        else:
            survivors.append(edit.__name__)
            ctx.ob("mutation", edit.__name__, False, "survived")
    silent = btotal = 0
    noisy = []
    for edit in BENIGN:
        tag, r2 = _mutated(ctx, edit)
        if r2 is None:
            ctx.note("benign edit %s not applicable (anchor changed)" % edit.__name__)
            continue
        btotal += 1
        new = r2.keys() - base
        und = {(sc.qualname, norm(c)) for sc, c, m, n in r2.undetermined} - {(sc.qualname, norm(c)) for sc, c, m, n in res.undetermined}
        if not new and not und:
            silent += 1
            ctx.ob("benign", edit.__name__, True, "silent")
        else:
            noisy.append("%s: %s" % (edit.__name__, sorted(new) or sorted(und)))
            ctx.ob("benign", edit.__name__, False, "not silent")
    ctx.extra.update(mutants_killed=killed, mutants_total=total, benign_silent=silent, benign_total=btotal)
    if total < 5 or btotal < 3:
        raise AnalysisError("mutation adequacy: only %d mutants / %d benign edits applicable" % (total, btotal))
    if survivors:
        raise AnalysisError("rule lost its teeth: mutants survived: " + ", ".join(survivors))
    if noisy:
        raise AnalysisError("rule fires on behaviour-preserving edits: " + "; ".join(noisy))
