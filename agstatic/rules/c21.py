"""C21 (clause) -- the opcode translation table of the decompiler.

For every slot i of INSTRUCTION_SET (androguard/decompiler/opcode_ins.py; slot
number = Dalvik opcode, which build_node_from_block relies on) the handler is
evaluated *symbolically* (instruction object symbolic, helper builders inlined,
IR constructors followed through their super() chains, the IR object's visit()
followed into the Writer) and reduced to a signature: statement kind, Java
operator token (Op.* folded), type letter and the ordered operand fields
(`ins.<field>`) with their role (register / literal).  The signature is compared
with the independent table agstatic/spec/java_ops.py written from the Dalvik
bytecode document: add/sub/mul/div/rem/and/or/xor/shl/shr -> + - * / % & | ^ << >>,
ushr -> >>>, rsub = literal - register, 2addr forms use vA as destination and first
source, lit forms take CCCC/CC, casts, cmp kinds, if-test operators and zero forms,
moves, constants, returns, array/field accesses.  Cross-module agreement: every
attribute of `ins` a handler reads is defined by the Instruction format class that
DALVIK_OPCODES_FORMAT assigns to that opcode, and an operand field is only used in
the role (register / literal / pool index) the format gives it; the dispatcher passes
each handler the number of arguments it takes.
Not decided: register propagation, structuring and the writer as a whole.
"""
from __future__ import annotations

import ast
import copy

from ..consts import Folder, Ref, Unknown
from ..heval import (Evaluator, Field, Opq, Obj, SList, Emit, PathRaise, explore_paths, fields_of, show, Frame, FuncRef, Closure, ClsRef)
from ..model import DEX, AnalysisError, Module, Repo, norm
from ..spec import dalvik, java_ops

OPC = "androguard/decompiler/opcode_ins.py"
INSTR = "androguard/decompiler/instruction.py"
WRITER = "androguard/decompiler/writer.py"
BBLOCKS = "androguard/decompiler/basic_blocks.py"

TEST_TOKENS = set(java_ops.TEST_TOKEN.values())


# =============================================================================
# format classes: which attributes exist on an instance
# =============================================================================
class Defined:
    def __init__(self, cls):
        self.cls = cls
        self.must = set()
        self.may = set()
        init = cls.lookup("__init__")
        if init is not None:
            self.must, self.may = self._func(init, set())
        # classes whose attributes cannot be read off the assignments
        self.dynamic = None
        for c in cls.mro():
            if c.node.decorator_list:
                self.dynamic = "class %s is decorated" % c.name
            for b in c.node.bases:
                bn = b.id if isinstance(b, ast.Name) else (b.attr if isinstance(b, ast.Attribute) else None)
                if bn not in (None, "object") and c.module.resolve_class(bn) is None:
                    self.dynamic = "base class %s of %s is not a repository class" % (bn, c.name)
            if "__getattr__" in c.methods or "__getattribute__" in c.methods or "__slots__" in c.attrs:
                self.dynamic = "class %s customises attribute access" % c.name
            for n in ast.walk(c.node):
                if isinstance(n, ast.Call) and isinstance(n.func, ast.Name) and n.func.id in ("setattr", "vars") and n.args \
                        and isinstance(n.args[0], ast.Name) and n.args[0].id in ("self", "cls"):
                    self.dynamic = "class %s sets attributes dynamically (%s)" % (c.name, n.func.id)
                if isinstance(n, ast.Attribute) and n.attr == "__dict__":
                    self.dynamic = "class %s manipulates __dict__" % c.name

    def _func(self, func, seen):
        if func.qualname in seen:
            return set(), set()
        seen = seen | {func.qualname}
        params = func.params()
        if not params:
            return set(), set()
        self_name = params[0]
        return self._block(func.node.body, self_name, func, seen)[:2]

    def _targets(self, t, self_name, func):
        out = set()
        if isinstance(t, ast.Attribute) and isinstance(t.value, ast.Name) and t.value.id == self_name:
            a = t.attr
            if a.startswith("__") and not a.endswith("__"):
                a = "_%s%s" % (func.cls.name.lstrip("_"), a)
            out.add(a)
        elif isinstance(t, (ast.Tuple, ast.List)):
            for e in t.elts:
                out |= self._targets(e, self_name, func)
        elif isinstance(t, ast.Starred):
            out |= self._targets(t.value, self_name, func)
        return out

    def _all_targets(self, node, self_name, func):
        out = set()
        for n in ast.walk(node):
            if isinstance(n, (ast.Assign,)):
                for t in n.targets:
                    out |= self._targets(t, self_name, func)
            elif isinstance(n, (ast.AugAssign, ast.AnnAssign)):
                out |= self._targets(n.target, self_name, func)
        return out

    def _block(self, stmts, self_name, func, seen):
        """-> (must, may, terminates)"""
        must, may = set(), set()
        for s in stmts:
            if isinstance(s, ast.Assign):
                for t in s.targets:
                    must |= self._targets(t, self_name, func)
                for n in ast.walk(s.value):
                    if (isinstance(n, ast.Call) and isinstance(n.func, ast.Attribute) and isinstance(n.func.value, ast.Name)
                            and n.func.value.id == self_name and self.cls.lookup(n.func.attr) is not None):
                        m2, y2 = self._func(self.cls.lookup(n.func.attr), seen)
                        must |= m2
                        may |= y2
            elif isinstance(s, (ast.AnnAssign, ast.AugAssign)):
                if not (isinstance(s, ast.AnnAssign) and s.value is None):
                    must |= self._targets(s.target, self_name, func)
            elif isinstance(s, ast.Expr) and isinstance(s.value, ast.Call) and isinstance(s.value.func, ast.Attribute) \
                    and isinstance(s.value.func.value, ast.Name) and s.value.func.value.id == self_name \
                    and self.cls.lookup(s.value.func.attr) is not None:
                # self.helper(...): the attributes the helper defines on every path
                callee = self.cls.lookup(s.value.func.attr)
                m2, y2 = self._func(callee, seen)
                must |= m2
                may |= y2
            elif isinstance(s, ast.Expr) and isinstance(s.value, ast.Call):
                c = s.value
                f = c.func
                if (isinstance(f, ast.Attribute) and f.attr == "__init__" and isinstance(f.value, ast.Call)
                        and isinstance(f.value.func, ast.Name) and f.value.func.id == "super"):
                    mro = self.cls.mro()
                    idx = next((i for i, k in enumerate(mro) if k is func.cls), None)
                    if idx is not None:
                        for k in mro[idx + 1:]:
                            if "__init__" in k.methods:
                                m2, y2 = self._func(k.methods["__init__"], seen)
                                must |= m2
                                may |= y2
                                break
            elif isinstance(s, ast.If):
                b = self._block(s.body, self_name, func, seen)
                o = self._block(s.orelse, self_name, func, seen)
                may |= b[1] | o[1] | b[0] | o[0]
                if b[2] and o[2]:
                    return must, may | must, True
                if b[2]:
                    must |= o[0]
                elif o[2]:
                    must |= b[0]
                else:
                    must |= (b[0] & o[0])
            elif isinstance(s, (ast.Raise, ast.Return)):
                return must, may | must, True
            elif isinstance(s, ast.With):
                b = self._block(s.body, self_name, func, seen)
                must |= b[0]
                may |= b[1]
                if b[2]:
                    return must, may | must, True
            else:
                may |= self._all_targets(s, self_name, func)
                for n in ast.walk(s):
                    if (isinstance(n, ast.Call) and isinstance(n.func, ast.Attribute) and isinstance(n.func.value, ast.Name)
                            and n.func.value.id == self_name and self.cls.lookup(n.func.attr) is not None):
                        m2, y2 = self._func(self.cls.lookup(n.func.attr), seen)
                        may |= m2 | y2
        return must, may | must, False

    def status(self, attr):
        """'yes' | 'no' | 'maybe'"""
        if attr in self.must:
            return "yes"
        if self.cls.lookup(attr) is not None or self.cls.lookup_attr(attr) is not None:
            return "yes"
        if attr in self.may or self.dynamic:
            return "maybe"
        return "no"


# =============================================================================
# symbolic evaluation of one handler, and of the printing of the IR object it builds
# =============================================================================
EXPR_METHODS = ("visit_binary_expression", "visit_cond_expression", "visit_unary_expression", "visit_cast")
TEXT_METHODS = EXPR_METHODS + ("visit_constant",)     # Writer methods that are evaluated (the others are summarised by their arguments)

_JAVA_OPERATORS = sorted([">>>=", "<<=", ">>=", ">>>", "...", "->", "::", "++", "--", "&&", "||", "==", "!=", "<=", ">=", "+=", "-=", "*=",
                          "/=", "&=", "|=", "^=", "%=", "<<", ">>", "//", "/*", "*/"], key=len, reverse=True)


def java_lex(text):
    """Java tokens of `text` by longest match (JLS 3.2): identifiers/keywords, numeric literals, operators, separators"""
    out = []
    i = 0
    n = len(text)
    while i < n:
        c = text[i]
        if c.isspace():
            i += 1
            continue
        if c.isalpha() or c in "_$":
            j = i
            while j < n and (text[j].isalnum() or text[j] in "_$"):
                j += 1
            out.append(text[i:j])
            i = j
            continue
        if c.isdigit() or (c == "." and i + 1 < n and text[i + 1].isdigit()):
            j = i
            while j < n and (text[j].isalnum() or text[j] in "._" or (text[j] in "+-" and text[j - 1] in "eEpP" and not text[i:i + 2].lower() == "0x")):
                j += 1
            out.append(text[i:j])
            i = j
            continue
        for op in _JAVA_OPERATORS:
            if text.startswith(op, i):
                out.append(op)
                i += len(op)
                break
        else:
            out.append(c)
            i += 1
    return out


class HandlerEval:
    """handler -> IR object (helpers and constructors evaluated) -> printed signature (the object's visit() and the
    Writer methods for expressions are evaluated too, every data-dependent path of them explored)"""

    def __init__(self, repo, folder):
        self.repo = repo
        self.folder = folder
        self.instr = repo.mod(INSTR)
        self.writer_cls = repo.mod(WRITER).cls("Writer")
        self.const_cls = self.instr.cls("Constant")
        self.shared = {}

    def make(self, choices):
        return Evaluator(self.repo, self.folder, {OPC}, choices, shared=self.shared,
                         hooks={"construct": self._on_construct, "visitor": self._on_visitor, "obj_method": self._on_obj_method,
                                "constructed": self._on_constructed})

    @staticmethod
    def _on_constructed(ev, obj, node, frame):
        # the type of a register variable is run-time data (set by the constructors of the expressions that use it and by
        # propagation): the letter the opcode fixes for that operand when it does, otherwise unknown -- never "None"
        if obj.cls.is_subclass_of("Variable") and obj.state.get("type", 0) is None and obj.ctor_args:
            reg = obj.ctor_args[0]
            known = getattr(ev, "regtypes", None) or {}
            if isinstance(reg, Field) and reg.name in known:
                obj.state["type"] = known[reg.name]
            else:
                obj.state["type"] = Opq("regtype", reg)

    # ---- hooks ---------------------------------------------------------------------------
    @staticmethod
    def _on_construct(ev, cls, args, kwargs, node, frame):
        if ev.phase != "build":
            return
        if cls.is_subclass_of("Variable") and args:
            ev.events.append(("reg", args[0], node, frame.func if frame else None))
        elif cls.name == "Constant" and (args or "value" in kwargs):
            ev.events.append(("lit", args[0] if args else kwargs["value"], node, frame.func if frame else None))

    def writer_method(self, name):
        f = self.writer_cls.lookup(name)
        if f is None:
            raise AnalysisError("Writer.%s vanished (an IR class calls visitor.%s)" % (name, name))
        return f

    def _on_visitor(self, ev, name, args, kwargs, node, fr):
        """a call on the visitor / Writer-self sentinel"""
        if name in TEXT_METHODS:
            f = self.writer_method(name)
            saved = ev.tokens
            ev.tokens = []
            try:
                ev.call_func(f, [ev.VISITOR] + list(args), kwargs)
                toks = ev.tokens
            finally:
                ev.tokens = saved
            em = Emit(name, args, kwargs, node)
            em.tokens = toks
            return em
        if name.startswith("visit_"):
            self.writer_method(name)
            return NotImplemented        # summarised positionally (Emit)
        if ev.tokens is not None:
            if name == "write" and args:
                ev.tokens.append(("text", args[0]))
            # write_ext / write_ind / end_ins ...: bookkeeping of the Writer, no expression text
            return None
        return NotImplemented

    @staticmethod
    def _on_obj_method(ev, obj, name, args, kwargs, node, fr):
        if ev.phase != "visit":
            return NotImplemented
        if name == "visit" and args and args[0] is ev.VISITOR and ev.tokens is not None:
            ev.tokens.append(("operand", obj))
            return None
        m = obj.cls.lookup(name)
        if m is None:
            return NotImplemented
        return ev.call_func(m, args, kwargs, self_obj=obj, cls_ctx=m.cls)

    # ---- evaluation ----------------------------------------------------------------------------
    def paths(self, hv, scenario=None, regtypes=None):
        """every path of handler + printing.  -> list of (ev, result, signature | None) ; result may be PathRaise.
        scenario = (field name, concrete int, type letter): the register operand `field` of the value expression has been
        replaced by that constant (what constant propagation does) before printing."""
        handler = hv.func
        params = handler.params()
        if not params:
            raise AnalysisError("handler %s takes no instruction parameter" % handler.qualname)

        def run(ev):
            ev.regtypes = regtypes or {}
            ev.lex_problems = []
            args = [ev.INS] + [Opq("param", p) for p in params[1:]]
            r = ev.apply(hv, args, {}, handler.node, Frame(handler.module, handler, {}))
            ev.phase = "visit"
            if scenario is not None:
                self.propagate(ev, r, scenario)
            ev.build_trace = list(ev.trace)   # everything entered before printing starts
            ev.n_build_conds = len(ev.conds)
            return r, self.neutral(ev, r)

        out = []
        for ev, r in explore_paths(self.make, run):
            if isinstance(r, PathRaise):
                out.append((ev, r, None))
            else:
                out.append((ev, r[0], r[1]))
        return out

    def propagate(self, ev, result, scenario):
        fld, value, letter = scenario
        vo = value_object(result)
        vm = vo.state.get("var_map") if vo is not None else None
        if not isinstance(vm, dict):
            raise AnalysisError("cannot find the operand map of the expression built by the handler (constant propagation scenario)")
        keys = [k for k, x in vm.items() if isinstance(x, Obj) and x.cls.is_subclass_of("Variable") and x.ctor_args
                and x.ctor_args[0] == Field(fld)]
        if len(keys) != 1:
            raise AnalysisError("operand v%s not found in the expression's operand map" % fld)
        vm[keys[0]] = ev.construct(self.const_cls, [value, letter], {})

    def visit(self, ev, obj):
        vf = obj.cls.lookup("visit")
        if vf is None:
            raise AnalysisError("IR class %s has no visit()" % obj.cls.name)
        em = ev.call_func(vf, [ev.VISITOR], self_obj=obj, cls_ctx=vf.cls)
        if not isinstance(em, Emit):
            raise AnalysisError("%s.visit() does not return a visitor call" % obj.cls.name)
        return em

    def neutral(self, ev, v):
        if isinstance(v, Obj):
            if v.cls.is_subclass_of("Variable"):
                if not v.ctor_args:
                    raise AnalysisError("Variable constructed without a register")
                return ("reg",) + (self.operand(v.ctor_args[0]),)
            em = self.cached_visit(ev, v)
            return self.neutral_emit(ev, em, v)
        if isinstance(v, Emit):
            return self.neutral_emit(ev, v, None)
        if v is None:
            return ("none",)
        if isinstance(v, Opq) and v.op == "param":
            return ("param", v.args[0])
        return ("value", self.operand(v))

    @staticmethod
    def operand(x):
        if isinstance(x, Field):
            return x.name
        if isinstance(x, Opq) and x.op == "neg" and isinstance(x.args[0], Field):
            return ("neg", x.args[0].name)
        if isinstance(x, bool) or x is None or isinstance(x, str):
            return ("py", x)
        if isinstance(x, int):
            return ("int", x)
        return ("?", show(x)[:80])

    def operand_text(self, ev, v):
        """the text the Writer prints for a leaf operand, when it is known: an identifier for a register variable, the
        decimal literal for a constant with a concrete value"""
        if isinstance(v, Obj) and v.cls.is_subclass_of("Variable"):
            return "v0"
        if isinstance(v, Obj) and v.cls is self.const_cls:
            em = self.cached_visit(ev, v)
            if em.method == "visit_constant" and len(em.args) == 1 and isinstance(em.args[0], int) and not isinstance(em.args[0], bool):
                toks = getattr(em, "tokens", None)
                if toks and all(k == "text" and isinstance(t, str) for k, t in toks):
                    return "".join(t for k, t in toks)
        return None

    def lex_check(self, ev, em, f):
        """the text of an expression must lex (Java, longest match) into the tokens of its pieces: an operator that merges
        with the sign of a literal (`--5`) or with a neighbouring word changes the program"""
        pieces = []
        for kind, v in em.tokens:
            if kind == "text":
                if not isinstance(v, str):
                    return
                pieces.append(v)
            else:
                t = self.operand_text(ev, v)
                if t is None:
                    return
                pieces.append(t)
        whole = java_lex("".join(pieces))
        apart = [tok for p in pieces for tok in java_lex(p)]
        if whole != apart:
            ev.lex_problems.append((f, "".join(pieces), whole, apart))

    def cached_visit(self, ev, obj):
        em = getattr(obj, "_emit", None)
        if em is None:
            em = self.visit(ev, obj)
            obj._emit = em
        return em

    @staticmethod
    def _split_tokens(m, toks, n_operands):
        """-> (texts between operands as stripped strings, operand values)"""
        texts = [""]
        ops = []
        for kind, v in toks:
            if kind == "operand":
                ops.append(v)
                texts.append("")
            else:
                if not isinstance(v, str):
                    raise AnalysisError("Writer.%s writes a text that is not a constant string: %s" % (m, show(v)))
                texts[-1] += v
        if len(ops) != n_operands:
            raise AnalysisError("Writer.%s prints %d operands, expected %d" % (m, len(ops), n_operands))
        return [t.strip() for t in texts], ops

    def neutral_emit(self, ev, em, obj):
        m = em.method
        f = self.writer_method(m)
        params = f.params()[1:]
        if len(em.args) > len(params):
            raise AnalysisError("visitor.%s called with %d arguments, Writer.%s takes %d" % (m, len(em.args), m, len(params)))
        a = em.args

        def N(x):
            return self.neutral(ev, x)

        def lit(x):
            o = self.operand(x)
            if isinstance(o, str):
                return ("lit", o)
            if isinstance(o, tuple) and o[0] == "neg":
                return ("neg", ("lit", o[1]))
            if isinstance(o, tuple) and o[0] == "int":
                return o
            return ("value", o)

        def tok(x):
            if isinstance(x, str):
                return x
            raise AnalysisError("operator passed to visitor.%s is not a constant string: %s" % (m, show(x)))

        def need(n):
            if len(a) < n:
                raise AnalysisError("visitor.%s called with %d arguments, expected >= %d" % (m, len(a), n))

        # statement-level Writer methods are summarised by their arguments; a consistent reordering of the method's parameters
        # and of its callers keeps the parameter names, so bind by name when the known names are there, else by position
        byname = dict(zip(params, em.args))
        byname.update({k: v for k, v in em.kwargs.items() if k in params})
        roles = {"visit_assign": ("lhs", "rhs"), "visit_move": ("lhs", "rhs"), "visit_move_result": ("lhs", "rhs"),
                 "visit_astore": ("array", "index", "rhs"), "visit_aload": ("array", "index"),
                 "visit_put_instance": ("lhs", "name", "rhs"), "visit_put_static": ("cls", "name", "rhs"),
                 "visit_get_instance": ("arg", "name"), "visit_condz_expression": ("op", "arg")}.get(m)
        if roles is not None:
            if all(r in byname for r in roles):
                a = [byname[r] for r in roles]
            elif em.kwargs:
                raise AnalysisError("visitor.%s called with keyword arguments that Writer.%s does not name as expected" % (m, m))

        if m in ("visit_binary_expression", "visit_cond_expression"):
            texts, ops = self._split_tokens(m, em.tokens, 2)
            pre, mid, post = texts
            if pre.strip("(") or post.strip(")") or len(pre) != len(post) or not mid:
                raise AnalysisError("Writer.%s prints %r <operand> %r <operand> %r: not `left operator right`" % (m, pre, mid, post))
            return ("binary" if m == "visit_binary_expression" else "cond", mid, N(ops[0]), N(ops[1]))
        if m in EXPR_METHODS:
            self.lex_check(ev, em, f)
        if m in ("visit_unary_expression", "visit_cast"):
            texts, ops = self._split_tokens(m, em.tokens, 1)
            pre, post = texts
            if not pre and not post:
                return N(ops[0])          # only the operand is printed
            if post.strip(")") or not pre:
                raise AnalysisError("Writer.%s prints %r <operand> %r: not a prefix operator" % (m, pre, post))
            if post and pre.startswith("("):
                pre = pre[1:].strip()
            return ("unary" if m == "visit_unary_expression" else "cast", pre, N(ops[0]))
        if m == "visit_condz_expression":
            need(2)
            return ("condz", tok(a[0]), N(a[1]))
        if m == "visit_assign":
            need(2)
            return ("assign", N(a[0]), N(a[1]))
        if m == "visit_move":
            need(2)
            return ("move", N(a[0]), N(a[1]))
        if m == "visit_move_result":
            need(2)
            return ("move-result", N(a[0]), N(a[1]))
        if m == "visit_move_exception":
            need(1)
            return ("move-exception", N(a[0]))
        if m == "visit_return_void":
            return ("return-void",)
        if m == "visit_return":
            need(1)
            return ("return", N(a[0]))
        if m == "visit_nop":
            return ("nop",)
        if m == "visit_switch":
            need(1)
            return ("switch", N(a[0]))
        if m == "visit_constant":
            need(1)
            return ("const", lit(a[0]))
        if m == "visit_aload":
            need(2)
            return ("aload", N(a[0]), N(a[1]))
        if m == "visit_astore":
            need(3)
            return ("astore", N(a[0]), N(a[1]), N(a[2]))
        if m == "visit_alength":
            need(1)
            return ("alength", N(a[0]))
        if m == "visit_get_instance":
            need(2)
            return ("get-instance", N(a[0]))
        if m == "visit_put_instance":
            need(3)
            return ("put-instance", N(a[0]), N(a[2]))
        if m == "visit_get_static":
            return ("get-static",)
        if m == "visit_put_static":
            need(3)
            return ("put-static", N(a[2]))
        if m == "visit_throw":
            need(1)
            return ("throw", N(a[0]))
        if m == "visit_monitor_enter":
            need(1)
            return ("monitor-enter", N(a[0]))
        if m == "visit_monitor_exit":
            need(1)
            return ("monitor-exit", N(a[0]))
        return ("other", m)


def value_object(result):
    """the IR object whose `type` is the type of the computed value"""
    if isinstance(result, Obj):
        rhs = result.state.get("rhs")
        if result.cls.name == "AssignExpression" and isinstance(rhs, Obj):
            return rhs
        return result
    return None


# =============================================================================
# comparison with the spec
# =============================================================================
def canon(sig):
    """normalise the extracted signature"""
    if not isinstance(sig, tuple):
        return sig
    sig = tuple(canon(x) for x in sig)
    if sig and sig[0] == "reg" and len(sig) == 2 and isinstance(sig[1], str):
        return sig
    if sig and sig[0] == "const" and len(sig) == 2:
        return sig
    if sig and sig[0] == "binary":
        _, op, l, r = sig
        l, r = unconst(l), unconst(r)
        # x - (-c) == x + c ; x + (-c) == x - c   (two's complement, any width)
        if isinstance(r, tuple) and r and r[0] == "neg" and op in ("+", "-"):
            op = "-" if op == "+" else "+"
            r = r[1]
        return ("binary", op, l, r)
    if sig and sig[0] == "move-result" and len(sig) == 3:
        return ("move-result", sig[1]) if sig[2] and sig[2][0] == "param" else ("move-result", sig[1], sig[2])
    return sig


def unconst(x):
    if isinstance(x, tuple) and len(x) == 2 and x[0] == "const":
        return x[1]
    return x


def same_sig(got, exp):
    if got == exp:
        return True
    if not (isinstance(got, tuple) and isinstance(exp, tuple)) or not got or not exp:
        return False
    if exp[0] == "cmp":
        return (got[0] == "cond" and len(got) == 4 and got[1] not in TEST_TOKENS and got[2:] == exp[1:])
    if got[0] != exp[0] or len(got) != len(exp):
        return False
    if got[0] == "binary":
        if got[1] == exp[1] and got[1] in java_ops.COMMUTATIVE and (got[3], got[2]) == (exp[2], exp[3]):
            return True
        return False
    if got[0] == "cond":
        if java_ops.MIRROR.get(got[1]) == exp[1] and (got[3], got[2]) == (exp[2], exp[3]):
            return True
        return False
    return all(same_sig(g, e) for g, e in zip(got, exp))


def render(sig):
    """compact human readable form (used as the construct key of a finding)"""
    if not isinstance(sig, tuple) or not sig:
        return str(sig)
    k = sig[0]
    if k == "reg":
        return "v%s" % (sig[1] if isinstance(sig[1], str) else render(sig[1]))
    if k == "lit":
        return "#%s" % sig[1]
    if k == "int":
        return "%d" % sig[1]
    if k == "neg":
        return "-%s" % render(sig[1])
    if k == "const":
        return render(sig[1])
    if k == "assign":
        return "%s = %s" % (render(sig[1]), render(sig[2]))
    if k in ("binary", "cond"):
        return "(%s %s %s)" % (render(sig[2]), sig[1], render(sig[3]))
    if k in ("unary", "cast"):
        return "(%s %s)" % (sig[1], render(sig[2]))
    if k == "condz":
        return "(%s %s 0)" % (render(sig[2]), sig[1])
    if k == "cmp":
        return "cmp(%s, %s)" % (render(sig[1]), render(sig[2]))
    if k in ("py", "?", "value", "param"):
        return "%s" % (sig[1],) if len(sig) > 1 else k
    return "%s(%s)" % (k, ", ".join(render(x) for x in sig[1:]))


# =============================================================================
# the rule core (parameterised by the repo so that it can be re-run on mutants)
# =============================================================================
class Sink:
    """collects check() calls; a plain list when used for mutants"""

    def __init__(self, ctx=None):
        self.ctx = ctx
        self.failed = []
        self.counts = {}

    def check(self, rule, instance, ok, func, construct, message, node=None, detail=""):
        if self.ctx is not None:
            self.ctx.check(rule, instance, ok, func, construct, message, node=node, detail=detail)
        if not ok:
            self.failed.append((rule, getattr(func, "qualname", func), norm(construct), message))

    def count(self, name, n=1):
        self.counts[name] = self.counts.get(name, 0) + n
        if self.ctx is not None:
            self.ctx.count(name, n)

    def analysed(self, f):
        if self.ctx is not None:
            self.ctx.analysed(f)


class TablePseudo:
    def __init__(self, m, name):
        self.qualname = name
        self.file = m.relpath
        n = m.assigns.get(name)
        self.line = getattr(n, "lineno", 1)


def core(repo, sink, only_ops=None):
    folder = Folder(repo)
    opc = repo.mod(OPC)
    dex = repo.mod(DEX)
    repo.mod(INSTR)
    repo.mod(WRITER)
    he = HandlerEval(repo, folder)
    iset_v = he.make([]).global_name("INSTRUCTION_SET", opc)
    if not (isinstance(iset_v, SList) and iset_v.exact):
        raise AnalysisError("INSTRUCTION_SET does not evaluate to a list of handlers (%s)" % show(iset_v)[:80])
    iset = list(iset_v.items)
    for i, h in enumerate(iset):
        if i in dalvik.OPCODES and i <= 0xE2 and not isinstance(h, (FuncRef, Closure)):
            raise AnalysisError("INSTRUCTION_SET[0x%02x] is not a function: %s" % (i, show(h)[:80]))
    table = he.make([]).global_name("DALVIK_OPCODES_FORMAT", dex)
    if not isinstance(table, dict):
        raise AnalysisError("DALVIK_OPCODES_FORMAT does not evaluate to a constant dict (%s)" % show(table)[:80])
    tp = TablePseudo(opc, "INSTRUCTION_SET")
    table_node = opc.assigns.get("INSTRUCTION_SET")
    sink.count("slots", len(iset) if only_ops is None else 0)
    defined_cache = {}
    placeholder_names = set()
    arity = dispatcher_arity(repo, sink)
    users = {}   # shared component -> [Func, signatures through it, failing, which]

    for op in sorted(dalvik.OPCODES):
        if op > 0xE2:
            continue  # invoke-polymorphic/custom, const-method-*: outside the clause (no handler today: IndexError -> nop)
        if only_ops is not None and op not in only_ops:
            continue
        name, fmt, kind, flow = dalvik.OPCODES[op]
        inst = "slot 0x%02x %s" % (op, name)
        if op >= len(iset):
            sink.count("handlers")
            if java_ops.SIG.get(op) is not None:
                sink.count("signatures")
            if java_ops.TYPE.get(op) is not None:
                sink.count("type_letters")
            sink.check("slot", inst, False, tp, "INSTRUCTION_SET[0x%02x] (%s)" % (op, name),
                       "INSTRUCTION_SET has %d entries: opcode 0x%02x (%s) has no handler; build_node_from_block indexes the list "
                       "by opcode" % (len(iset), op, name), node=table_node)
            continue
        hv = iset[op]
        handler = hv.func
        sink.analysed(handler)
        sink.count("handlers")
        # ---- evaluate every path -----------------------------------------------------
        regtypes = java_ops.REGTYPE.get(op) or {}
        paths3 = he.paths(hv, regtypes=regtypes)
        paths = [(ev, r) for ev, r, sg in paths3]
        for ev, r, sg in paths3:
            for fn in ev.trace:
                if "<" not in fn.qualname and "(" not in fn.qualname and fn.module.functions.get(fn.qualname) is fn:
                    sink.analysed(fn)
        sink.count("paths", len(paths))
        ok_paths = [(ev, r, sg) for ev, r, sg in paths3 if not isinstance(r, PathRaise)]
        if not ok_paths:
            raise AnalysisError("handler %s raises on every path" % handler.qualname)
        # ---- arity -------------------------------------------------------------------------
        if arity is not None and op in arity:
            want = arity[op]
            if want is not None:
                a = handler.node.args
                npos = len(a.posonlyargs + a.args)
                nreq = npos - len(a.defaults)
                ok = nreq <= want <= npos or (a.vararg is not None and want >= nreq)
                sink.check("arity", inst, ok, handler, "%s(%s)" % (handler.name, ", ".join(handler.params())),
                           "build_node_from_block calls the handler of opcode 0x%02x (%s) with %d arguments; %s takes %s"
                           % (op, name, want, handler.qualname, ", ".join(handler.params())),
                           detail="dispatcher passes %d arguments" % want)
        # ---- attribute reads vs format class --------------------------------------------
        row = table.get(op)
        row = row.items if isinstance(row, SList) else row
        if not (isinstance(row, (list, tuple)) and row and isinstance(row[0], ClsRef)):
            raise AnalysisError("DALVIK_OPCODES_FORMAT[0x%02x] does not start with a class" % op)
        fcls = row[0].cls
        if fcls.name != "Instruction" + fmt:
            # C01 reports the table itself; here the handler is judged against the class that will be instantiated
            pass
        d = defined_cache.get(fcls.name)
        if d is None:
            d = defined_cache[fcls.name] = Defined(fcls)
        seen_attr = set()
        for ev, r in paths:
            for attr, node, fn in ev.reads:
                if attr in seen_attr:
                    continue
                seen_attr.add(attr)
                st = d.status(attr)
                if st == "maybe":
                    raise AnalysisError("cannot decide whether %s defines attribute %s on every path of __init__%s"
                                        % (fcls.name, attr, (" (%s)" % d.dynamic) if d.dynamic else ""))
                sink.count("field_reads")
                sink.check("field-defined", "%s reads ins.%s" % (inst, attr), st == "yes", fn or handler,
                           "ins.%s @0x%02x %s (%s)" % (attr, op, name, fcls.name),
                           "the handler of opcode 0x%02x (%s) reads ins.%s, but %s (the class DALVIK_OPCODES_FORMAT assigns to this "
                           "opcode) defines no such attribute: AttributeError when such an instruction is decompiled"
                           % (op, name, attr, fcls.name), node=node,
                           detail="%s defines %s" % (fcls.name, attr))
        # ---- operand roles -----------------------------------------------------------------
        spec_fields = {f[0]: f[1] for f in dalvik.FORMATS[fmt]["fields"]}
        expected_sink = {"reg": "reg", "lit": "lit", "lit_high": "lit", "idx": "lookup", "idx2": "lookup", "off": None}
        seen_role = set()
        for ev, r in paths:
            for kindv, val, node, fn in ev.events:
                vals = val[2] if kindv == "lookup" else val
                for fld in sorted(fields_of(vals)):
                    role = spec_fields.get(fld)
                    if role is None or role in ("count", "zero"):
                        continue
                    key = (fld, kindv)
                    if key in seen_role:
                        continue
                    seen_role.add(key)
                    ok = expected_sink.get(role) == kindv
                    sink.count("role_uses")
                    what = {"reg": "a register (Variable)", "lit": "a literal (Constant)", "lookup": "a pool index (class-manager lookup)"}[kindv]
                    sink.check("field-role", "%s uses ins.%s as %s" % (inst, fld, kindv), ok, fn or handler,
                               "ins.%s as %s @0x%02x %s" % (fld, kindv, op, name),
                               "opcode 0x%02x (%s, format %s): operand field %s is a %s in the Dalvik specification but the handler uses it as %s"
                               % (op, name, fmt, fld, {"reg": "register", "lit": "literal", "lit_high": "literal", "idx": "pool index",
                                                       "idx2": "pool index", "off": "branch offset"}[role], what),
                               node=node, detail="format %s field %s: %s" % (fmt, fld, role))
        # ---- signature -----------------------------------------------------------------------
        exp = java_ops.SIG.get(op)
        sigs = []
        for ev, r, sg in ok_paths:
            chain = [fn for fn in ev.trace if fn is not handler]
            sigs.append((canon(sg), r, ev, chain))
        if exp is None:
            # role-only opcode: still must not be translated to nothing
            bad = [x[0] for x in sigs if x[0] == ("nop",)]
            sink.check("not-placeholder", inst, not bad, handler, "0x%02x %s: %s" % (op, name, handler.name),
                       "opcode 0x%02x (%s) is translated by %s, which produces no statement" % (op, name, handler.qualname),
                       node=table_node, detail="handler %s builds %s" % (handler.name, render(sigs[0][0])[:60]))
            continue
        sink.count("signatures")
        for s, r, ev, chain in sigs:
            ok = same_sig(s, exp)
            report_lexing(sink, ev, op, name, "")
            if not ok and any(_mentions_regtype(t) for t, c in ev.conds[getattr(ev, "n_build_conds", 0):]):
                raise AnalysisError("%s: the text printed for opcode 0x%02x (%s) depends on the type of a register that the opcode "
                                    "does not fix (%s)" % (handler.qualname, op, name, " and ".join("%s is %s" % (show(t), c) for t, c in ev.conds)))
            if not ok and _has_unknown(s) and same_sig(_wild(s, exp), exp):
                raise AnalysisError("%s builds `%s` for opcode 0x%02x (%s): an operand expression outside the analysable fragment"
                                    % (handler.qualname, render(s), op, name))
            cond = " and ".join("%s is %s" % (show(t), c) for t, c in ev.conds)
            via = " -> ".join(_cname(fn) for fn in chain if fn.name not in ("get_variables",) and not _is_leaf(fn))
            sink.check("signature", inst + (" [%s]" % cond if cond else ""), ok, handler,
                       "0x%02x %s: %s" % (op, name, render(s)),
                       "opcode 0x%02x (%s) must be translated to `%s`; %s builds `%s`%s (through %s)"
                       % (op, name, render(exp), handler.qualname, render(s), (" when " + cond) if cond else "", via or "no helper"),
                       node=handler.node, detail="%s == %s" % (render(s), render(exp)))
            for fn in chain:
                if not _is_leaf(fn):
                    u = users.setdefault(fn.module.relpath + ":" + fn.qualname, [fn, set(), [], 0])
                    u[1].add(op)
                    if not ok:
                        u[2].append("0x%02x %s" % (op, name))
                    elif s == exp:
                        u[3] += 1   # agrees literally (not merely up to commutation / mirroring)
            et = java_ops.TYPE.get(op)
            if et is not None:
                sink.count("type_letters")
            if et is not None and ok:
                vo = value_object(r)
                if vo is None or "type" not in vo.state:
                    raise AnalysisError("cannot find the type letter of the value built by %s" % handler.qualname)
                gt = vo.state["type"]
                if not (isinstance(gt, str) or gt is None):
                    raise AnalysisError("the type letter of the value built by %s is not a constant: %s" % (handler.qualname, show(gt)))
                sink.check("type-letter", inst, gt == et, handler, "0x%02x %s: type %s" % (op, name, show(gt)),
                           "opcode 0x%02x (%s) computes a value of Dalvik type %r; %s tags the expression with %s"
                           % (op, name, et, handler.qualname, show(gt)), node=handler.node,
                           detail="type letter %s" % show(gt))
        # ---- the same expression after constant propagation replaced a register operand -------------
        if exp is not None and all(same_sig(x[0], exp) for x in sigs):
            scenario_checks(he, sink, op, name, hv, exp, java_ops.TYPE.get(op), ok_paths, regtypes)
    # a shared builder / IR class / Writer method through which no translation comes out literally right and at
    # least two come out wrong is itself (or something all its users share is) the broken construct
    flagged = {k: u for k, u in users.items() if len(u[2]) >= 2 and u[3] == 0}
    for key, (fn, ops, which, exact) in sorted(users.items()):
        if len(ops) < 2:
            continue
        bad = key in flagged and not any(k2 != key and flagged[k2][1] > ops for k2 in flagged)
        if key in flagged and not bad:
            continue
        sink.check("component", _cname(fn), not bad, fn, _cname(fn),
                   "%d of the %d opcode translations that go through %s are wrong and none is literally right (%s%s): "
                   "%s, or a construct all of them share, is broken"
                   % (len(which), len(ops), _cname(fn), ", ".join(which[:4]), ", ..." if len(which) > 4 else "", _cname(fn)),
                   node=fn.node, detail="%d/%d signatures through %s agree with the specification" % (len(ops) - len(which), len(ops), _cname(fn)))
    return he


# =============================================================================
# constant-propagation scenarios: data-dependent printing (operand is a constant, sign / boundary classes of its value)
# =============================================================================
INT_MIN, INT_MAX = -2 ** 31, 2 ** 31 - 1
LONG_MIN, LONG_MAX = -2 ** 63, 2 ** 63 - 1


def representative_values(letter, code_ints):
    """one representative of every class of constants the printing code can tell apart: the type's boundaries, the
    neighbourhood of zero, and the neighbourhood of every integer the printing code compares with"""
    lo, hi = (INT_MIN, INT_MAX) if letter == "I" else (LONG_MIN, LONG_MAX)
    cuts = {lo, lo + 1, -1, 0, 1, hi, INT_MIN - 1, INT_MIN, INT_MIN + 1, INT_MAX, INT_MAX + 1}
    for k in code_ints:
        for d in (-1, 0, 1):
            cuts.add(k + d)
            cuts.add(-k + d)
    return sorted(v for v in cuts if lo <= v <= hi)


def printable_int_literal(v):
    """a decimal literal without suffix as the Writer prints it ('%r'): javac accepts 0..2^31-1, and 2^31 only under a unary minus"""
    return INT_MIN <= v <= INT_MAX


def _subst(sig, fld, value):
    if sig == ("reg", fld):
        return ("int", value)
    if isinstance(sig, tuple):
        return tuple(_subst(x, fld, value) for x in sig)
    return sig


def _lin(expr):
    """(sign of the register, register, additive constant) of `reg +/- const` / `const +/- reg`, else None"""
    if not (isinstance(expr, tuple) and len(expr) == 4 and expr[0] == "binary" and expr[1] in ("+", "-")):
        return None
    _, tok, l, r = expr
    l, r = unconst(l), unconst(r)
    if l[0] == "reg" and r[0] == "int":
        return (1, l, r[1] if tok == "+" else -r[1])
    if l[0] == "int" and r[0] == "reg":
        return (1 if tok == "+" else -1, r, l[1])
    return None


def _ints(expr):
    out = []
    if isinstance(expr, tuple):
        if len(expr) == 2 and expr[0] == "int":
            out.append(expr[1])
        else:
            for x in expr:
                out += _ints(x)
    return out


def judge_propagated(exp_val, got_val, letter, c):
    """-> ('ok' | 'bad' | 'unknown', reason).  'bad' only when a difference is positively established."""
    w = 32 if letter == "I" else 64
    kind = exp_val[0]
    if kind == "unary":
        return judge_unary(exp_val, got_val, letter, c)
    if not (isinstance(got_val, tuple) and got_val and got_val[0] == exp_val[0] and len(got_val) == len(exp_val)):
        return "unknown", "printed as another kind of expression"
    g = (got_val[0], got_val[1], unconst(got_val[2]), unconst(got_val[3]))
    e = exp_val
    if kind == "cond":
        if (g[2], g[3]) == (e[2], e[3]):
            if g[1] == e[1]:
                return "ok", ""
            if g[1] in TEST_TOKENS and e[1] in TEST_TOKENS:
                return "bad", "the same operands in the same order are compared with `%s` instead of `%s`" % (g[1], e[1])
            return "unknown", "operator %r" % (g[1],)
        if (g[2], g[3]) == (e[3], e[2]):
            if java_ops.MIRROR.get(e[1]) == g[1]:
                return "ok", ""
            if g[1] in TEST_TOKENS and e[1] in TEST_TOKENS:
                return "bad", ("the operands are exchanged, so `%s` must become `%s`, but `%s` is printed"
                               % (e[1], java_ops.MIRROR[e[1]], g[1]))
            return "unknown", "operator %r" % (g[1],)
        return "unknown", "operands changed"
    # binary
    if same_sig(g, e):
        pass_literal = True
    else:
        pass_literal = False
        le, lg = _lin(e), _lin(g)
        if le is None or lg is None:
            return "unknown", "not literally the expected expression and outside the +/- family"
        if lg[1] != le[1]:
            return "unknown", "another register"
        if lg[0] != le[0] or (lg[2] - le[2]) % (2 ** w) != 0:
            return "bad", "it computes %s%s %+d instead of %s%s %+d (mod 2^%d)" % (
                "-" if lg[0] < 0 else "", render(lg[1]), lg[2], "-" if le[0] < 0 else "", render(le[1]), le[2], w)
    if printable_int_literal(c):
        for v in _ints(g):
            if not printable_int_literal(v):
                return "bad", ("the literal %d is printed, which javac rejects (integer number too large): the negation of %d is not "
                               "representable" % (v, c))
    return "ok", ""


def _abstract_c(sig, c):
    """the signature with the scenario's constant written as `c` (finding keys do not depend on the representative value)"""
    if isinstance(sig, tuple):
        if len(sig) == 2 and sig[0] == "int":
            if sig[1] == c:
                return ("py", "c")
            if sig[1] == -c:
                return ("py", "-c")
            return sig
        return tuple(_abstract_c(x, c) for x in sig)
    return sig


def judge_unary(exp_val, got_val, letter, c):
    """`tok c` (neg / not of a constant)"""
    w = 32 if letter == "I" else 64
    tok = exp_val[1]
    want = (-c if tok == "-" else ~c) if tok in ("-", "~") else None
    g = unconst(got_val)
    if isinstance(g, tuple) and len(g) == 3 and g[0] == "unary":
        v = unconst(g[2])
        if g[1] == tok and v == ("int", c):
            return "ok", ""
        if isinstance(v, tuple) and v[0] == "int" and g[1] in ("-", "~") and want is not None:
            got = -v[1] if g[1] == "-" else ~v[1]
            if (got - want) % (2 ** w) != 0:
                return "bad", "it computes %d instead of %d (mod 2^%d)" % (got, want, w)
            if printable_int_literal(c) and not printable_int_literal(v[1]):
                return "bad", "the literal %d is printed, which javac rejects (integer number too large)" % v[1]
            return "ok", ""
        return "unknown", "operator %r / operand %s" % (g[1], render(v))
    if isinstance(g, tuple) and len(g) == 2 and g[0] == "int" and want is not None:
        # folded to a literal
        if (g[1] - want) % (2 ** w) != 0:
            return "bad", "the folded literal %d is not %s%d = %d (mod 2^%d)" % (g[1], tok, c, want, w)
        if printable_int_literal(c) and not printable_int_literal(g[1]):
            return "bad", "the folded literal %d is rejected by javac (integer number too large)" % g[1]
        return "ok", ""
    return "unknown", "printed as another kind of expression"


def report_lexing(sink, ev, op, name, where):
    for f, text, whole, apart in getattr(ev, "lex_problems", []):
        sink.check("java-lexing", "slot 0x%02x %s%s" % (op, name, where), False, f,
                   "%s lexes as %s" % (_squash_digits(text), " ".join(_squash_digits(t) for t in whole)),
                   "opcode 0x%02x (%s)%s is printed as `%s`, which javac reads as the tokens %s, not %s (longest match: the operator "
                   "merges with what follows)" % (op, name, where, text, whole, apart), node=f.node)


def _squash_digits(t):
    """finding keys do not depend on the representative constant"""
    import re as _re
    return _re.sub(r"\d+", "N", t)


def scenario_checks(he, sink, op, name, hv, exp, letter, base_paths, regtypes=None):
    handler = hv.func
    if exp is None:
        return
    val = exp[2] if exp[0] == "assign" else exp
    if not isinstance(val, tuple):
        return
    if val[0] in ("binary", "cond") and val[2][0] == "reg" and val[3][0] == "reg":
        regs = sorted({val[2][1], val[3][1]})
    elif val[0] == "unary" and val[2][0] == "reg":
        regs = [val[2][1]]
    else:
        return
    if val[0] in ("binary", "unary") and letter not in ("I", "J"):
        return
    letter = letter or "I"
    # integers the printing code compares with (functions entered after the handler returned)
    code_ints = set()
    visit_funcs = []
    for ev, r, sg in base_paths:
        for fn in ev.trace:
            if fn not in ev.build_trace and fn not in visit_funcs:
                visit_funcs.append(fn)
    for fn in visit_funcs:
        for n in ast.walk(fn.node):
            if isinstance(n, ast.Constant) and isinstance(n.value, int) and not isinstance(n.value, bool) and abs(n.value) > 2:
                code_ints.add(n.value)
    for fld in regs:
        # the constant has the type the opcode gives that operand (a shift distance is an int even in a long shift)
        cletter = (regtypes or {}).get(fld, letter)
        if cletter not in ("I", "J"):
            cletter = letter
        for c in representative_values(cletter, code_ints):
            exp_val = _subst(val, fld, c)
            for ev, r, sg in he.paths(hv, (fld, c, cletter), regtypes):
                if isinstance(r, PathRaise):
                    continue
                report_lexing(sink, ev, op, name, " with v%s = %d" % (fld, c))
                got = canon(sg)
                got_val = got[2] if (exp[0] == "assign" and isinstance(got, tuple) and len(got) == 3 and got[0] == "assign") else got
                if exp[0] == "assign" and got_val is got:
                    raise AnalysisError("%s: after constant propagation the statement is printed as `%s`" % (handler.qualname, render(got)))
                verdict, why = judge_propagated(exp_val, got_val, letter, c)
                if verdict == "unknown":
                    raise AnalysisError("%s with v%s = %d: `%s` is printed as `%s` (%s): cannot decide whether they are equivalent"
                                        % (name, fld, c, render(exp_val), render(got_val), why))
                sink.count("scenarios")
                blame = handler
                if verdict != "ok":
                    for fn in ev.trace:
                        if fn not in ev.build_trace and any(isinstance(n, (ast.If, ast.IfExp)) for n in ast.walk(fn.node)):
                            blame = fn
                            break
                sink.check("propagated-constant", "slot 0x%02x %s, v%s = %d" % (op, name, fld, c), verdict == "ok", blame,
                           "%s printed as %s" % (render(_abstract_c(exp_val, c)), render(_abstract_c(got_val, c))),
                           "opcode 0x%02x (%s) whose operand v%s has been replaced by the constant %d (constant propagation): `%s` is "
                           "printed as `%s`: %s (decided in %s)" % (op, name, fld, c, render(exp_val), render(got_val), why, blame.qualname),
                           node=blame.node, detail="%s -> %s" % (render(exp_val), render(got_val)))


def _wild(got, exp):
    """`got` with every operand the evaluator could not express replaced by what the specification expects there"""
    if isinstance(got, tuple) and got:
        if got[0] in ("?", "other") or (got[0] in ("value", "lit", "reg") and len(got) == 2 and isinstance(got[1], tuple) and got[1] and got[1][0] == "?"):
            return exp
        if isinstance(exp, tuple) and len(exp) == len(got):
            return tuple(_wild(g, e) for g, e in zip(got, exp))
    return got


def _mentions_regtype(term, _depth=0):
    if isinstance(term, Opq):
        if term.op == "regtype":
            return True
        return _depth < 12 and any(_mentions_regtype(a, _depth + 1) for a in term.args)
    if isinstance(term, (tuple, list)):
        return _depth < 12 and any(_mentions_regtype(a, _depth + 1) for a in term)
    return False


def _has_unknown(sig):
    if isinstance(sig, tuple):
        if sig and sig[0] in ("?", "other"):
            return True
        return any(_has_unknown(x) for x in sig)
    return False


def _cname(fn):
    return fn.qualname


def _is_leaf(fn):
    return fn.cls is not None and (fn.cls.name in ("IRForm", "Variable", "Constant") or fn.cls.is_subclass_of("Variable"))


def dispatcher_arity(repo, sink):
    """number of arguments build_node_from_block passes to INSTRUCTION_SET[opcode], per opcode
    (None for opcodes it skips).  Returns None when the dispatcher has another shape (noted, not decided)."""
    bb = repo.mod(BBLOCKS)
    f = bb.functions.get("build_node_from_block")
    if f is None:
        raise AnalysisError("anchor vanished: build_node_from_block")
    sink.analysed(f)
    # the subscript INSTRUCTION_SET[<name>] and the name of the local holding the handler
    idx_name = handler_name = None
    for n in ast.walk(f.node):
        if (isinstance(n, ast.Assign) and isinstance(n.value, ast.Subscript) and isinstance(n.value.value, ast.Name)
                and n.value.value.id == "INSTRUCTION_SET" and isinstance(n.value.slice, ast.Name)
                and len(n.targets) == 1 and isinstance(n.targets[0], ast.Name)):
            idx_name = n.value.slice.id
            handler_name = n.targets[0].id
    if idx_name is None:
        raise AnalysisError("build_node_from_block no longer indexes INSTRUCTION_SET by a local opcode variable")
    src_ok = False
    for n in ast.walk(f.node):
        if (isinstance(n, ast.Assign) and len(n.targets) == 1 and isinstance(n.targets[0], ast.Name) and n.targets[0].id == idx_name
                and isinstance(n.value, ast.Call) and isinstance(n.value.func, ast.Attribute) and n.value.func.attr == "get_op_value"):
            src_ok = True
    sink.check("dispatch", "INSTRUCTION_SET is indexed by ins.get_op_value()", src_ok, f, "INSTRUCTION_SET[%s]" % idx_name,
               "build_node_from_block indexes INSTRUCTION_SET by %s, which is not the instruction's opcode value" % idx_name,
               detail="%s = ins.get_op_value()" % idx_name)
    # the if-chain that contains the calls of the handler
    loop = next((n for n in ast.walk(f.node) if isinstance(n, ast.For) and any(
        isinstance(x, ast.Call) and isinstance(x.func, ast.Name) and x.func.id == handler_name for x in ast.walk(n))), None)
    if loop is None:
        return None
    chain = next((s for s in loop.body if isinstance(s, ast.If) and any(
        isinstance(x, ast.Call) and isinstance(x.func, ast.Name) and x.func.id == handler_name for x in ast.walk(s))), None)
    if chain is None:
        return None
    ev = Evaluator(repo, Folder(repo), set(), [])
    out = {}
    for op in dalvik.OPCODES:
        fr = Frame(bb, f, {idx_name: op})
        node = chain
        body = None
        try:
            while True:
                t = ev.eval(node.test, fr)
                if not isinstance(t, bool):
                    return None
                if t:
                    body = node.body
                    break
                if len(node.orelse) == 1 and isinstance(node.orelse[0], ast.If):
                    node = node.orelse[0]
                    continue
                body = node.orelse
                break
        except AnalysisError:
            return None
        calls = [x for s in body for x in ast.walk(s) if isinstance(x, ast.Call) and isinstance(x.func, ast.Name) and x.func.id == handler_name]
        if not calls:
            out[op] = None
        else:
            c = calls[0]
            if any(isinstance(a, ast.Starred) for a in c.args) or c.keywords:
                return None
            out[op] = len(c.args)
    return out


# =============================================================================
# entry point
# =============================================================================
def run(ctx):
    ctx.explanation = __doc__
    sink = Sink(ctx)
    for rel in (OPC, INSTR, WRITER, BBLOCKS, DEX):
        ctx.mod(rel)
    core(ctx.repo, sink)
    ctx.floor("slots", 1)
    ctx.floor("handlers", 218)
    ctx.floor("signatures", 198)
    ctx.floor("type_letters", 117)
    ctx.floor("field_reads", 600)
    ctx.floor("role_uses", 400)
    ctx.floor("scenarios", 500)
    ctx.assume("vmap.setdefault(r, Variable(r)) yields the variable of register r (an existing entry for r is a variable of r)")
    ctx.assume("the attribute X of an Instruction<fmt> object holds the operand field X of format <fmt> (decided under C01 through the getters)")
    ctx.note("operand fields with the spec role 'count' (A of 35c, AA of 3rc) carry no role obligation; "
             "filled-new-array/range is outside the int/long domain of C21")
    ctx.note("the JSON visitor androguard/decompiler/dast.py is not followed; signatures are taken through Writer")
    ctx.note("cmpl/cmpg bias (NaN) is not decided: both kinds must build cmp(vBB, vCC) with the right type letter")
    if ctx.tier == "thorough":
        thorough(ctx)


# =============================================================================
# thorough tier: in-memory mutation adequacy
# =============================================================================
def clone_repo(repo, edits):
    """a Repo in which the modules of `edits` (relpath -> new source text) are replaced and the
    decompiler modules that refer to them are re-parsed, so that name resolution sees the edit"""
    r = Repo.__new__(Repo)
    r.root = repo.root
    r.consulted = set()
    r.modules = dict(repo.modules)
    for rel in (OPC, INSTR, WRITER, BBLOCKS):
        text = edits.get(rel, repo.modules[rel].text)
        r.modules[rel] = Module(r, rel, text)
    r._dotted = {m.dotted: m for m in r.modules.values()}
    return r


def _edit(repo, rel, transform):
    tree = ast.parse(repo.modules[rel].text)
    if not transform(tree):
        return None   # the spelling this operator targets is not in today's tree
    ast.fix_missing_locations(tree)
    return {rel: ast.unparse(tree)}


def _func(tree, name):
    for n in tree.body:
        if isinstance(n, ast.FunctionDef) and n.name == name:
            return n
    return None


def _method(tree, cls, name):
    for n in tree.body:
        if isinstance(n, ast.ClassDef) and n.name == cls:
            for m in n.body:
                if isinstance(m, ast.FunctionDef) and m.name == name:
                    return m
    return None


def mutants():
    """(name, relpath, transform, expected-to-fire-on qualname substring or None)"""
    out = []

    def m_op_attr(attr, value):
        def t(tree):
            for n in tree.body:
                if isinstance(n, ast.ClassDef) and n.name == "Op":
                    for s in n.body:
                        if isinstance(s, ast.Assign) and isinstance(s.targets[0], ast.Name) and s.targets[0].id == attr:
                            s.value = ast.Constant(value)
                            return True
            return False
        return t
    out.append(("Op.ADD = '-'", OPC, m_op_attr("ADD", "-")))
    out.append(("Op.INTSHL = '>>'", OPC, m_op_attr("INTSHL", ">>")))
    out.append(("Op.GEQUAL = '>'", OPC, m_op_attr("GEQUAL", ">")))
    out.append(("Op.NOT = '!'", OPC, m_op_attr("NOT", "!")))

    def m_swap_slots(i, j):
        def t(tree):
            for n in tree.body:
                if isinstance(n, ast.Assign) and isinstance(n.targets[0], ast.Name) and n.targets[0].id == "INSTRUCTION_SET":
                    e = n.value.elts
                    e[i], e[j] = e[j], e[i]
                    return True
            return False
        return t
    out.append(("swap slots 0x91/0x92 (sub-int, mul-int)", OPC, m_swap_slots(0x91, 0x92)))
    out.append(("swap slots 0x34/0x35 (if-lt, if-ge)", OPC, m_swap_slots(0x34, 0x35)))

    def m_drop_slot(i):
        def t(tree):
            for n in tree.body:
                if isinstance(n, ast.Assign) and isinstance(n.targets[0], ast.Name) and n.targets[0].id == "INSTRUCTION_SET":
                    del n.value.elts[i]
                    return True
            return False
        return t
    out.append(("delete slot 0x3e (every later opcode shifts by one)", OPC, m_drop_slot(0x3E)))

    def m_swap_call_args(fname, callee, i, j):
        def t(tree):
            f = _func(tree, fname)
            if f is None:
                return False
            for n in ast.walk(f):
                if isinstance(n, ast.Call) and isinstance(n.func, ast.Name) and n.func.id == callee and len(n.args) > max(i, j):
                    n.args[i], n.args[j] = n.args[j], n.args[i]
                    return True
            return False
        return t
    out.append(("assign_binary_exp: operands swapped", OPC, m_swap_call_args("assign_binary_exp", "BinaryExpression", 1, 2)))
    out.append(("assign_binary_2addr_exp: operands swapped", OPC, m_swap_call_args("assign_binary_2addr_exp", "BinaryExpression2Addr", 1, 2)))
    out.append(("rsubint: register - literal", OPC, m_swap_call_args("rsubint", "BinaryExpressionLit", 1, 2)))
    out.append(("assign_lit: literal op register", OPC, m_swap_call_args("assign_lit", "BinaryExpressionLit", 1, 2)))
    out.append(("assign_cmp: operands swapped", OPC, m_swap_call_args("assign_cmp", "BinaryCompExpression", 1, 2)))
    out.append(("ifltz: wrong field", OPC, None))  # placeholder replaced below

    def m_attr_rename(fname, old, new):
        def t(tree):
            f = _func(tree, fname)
            if f is None:
                return False
            hit = False
            for n in ast.walk(f):
                if isinstance(n, ast.Attribute) and n.attr == old and isinstance(n.value, ast.Name) and n.value.id == "ins":
                    n.attr = new
                    hit = True
            return hit
        return t
    out[-1] = ("ifltz reads ins.A (not defined by Instruction21t)", OPC, m_attr_rename("ifltz", "AA", "A"))
    out.append(("assign_binary_2addr_exp: destination vB", OPC, None))

    def m_2addr_dest(tree):
        f = _func(tree, "assign_binary_2addr_exp")
        if f is None:
            return False
        for n in ast.walk(f):
            if isinstance(n, ast.Call) and isinstance(n.func, ast.Name) and n.func.id == "AssignExpression":
                n.args[0] = ast.Name("reg_b", ast.Load())
                return True
        return False
    out[-1] = ("assign_binary_2addr_exp: destination vB", OPC, m_2addr_dest)

    def m_const(fname, old, new):
        def t(tree):
            f = _func(tree, fname)
            if f is None:
                return False
            for n in ast.walk(f):
                if isinstance(n, ast.Constant) and n.value == old:
                    n.value = new
                    return True
            return False
        return t
    out.append(("inttolong casts to (int)", OPC, m_const("inttolong", "(long)", "(int)")))
    out.append(("constwide16 typed 'I'", OPC, m_const("constwide16", "J", "I")))
    out.append(("mullong typed 'I'", OPC, m_const("mullong", "J", "I")))
    out.append(("const4 reads ins.A as the literal", OPC, m_attr_rename("const4", "B", "A")))
    out.append(("addintlit16 takes the literal from ins.B", OPC, None))

    def m_lit16(tree):
        f = _func(tree, "addintlit16")
        if f is None:
            return False
        for n in ast.walk(f):
            if isinstance(n, ast.Call) and isinstance(n.func, ast.Name) and n.func.id == "assign_lit":
                n.args[1], n.args[3] = n.args[3], n.args[1]
                return True
        return False
    out[-1] = ("addintlit16 takes the literal from ins.B", OPC, m_lit16)

    def m_ctor_super(cls, i, j):
        def t(tree):
            f = _method(tree, cls, "__init__")
            if f is None:
                return False
            for n in ast.walk(f):
                if isinstance(n, ast.Call) and isinstance(n.func, ast.Attribute) and n.func.attr == "__init__" and len(n.args) > max(i, j):
                    n.args[i], n.args[j] = n.args[j], n.args[i]
                    return True
            return False
        return t
    out.append(("BinaryExpression2Addr.__init__ passes (op, arg, dest)", INSTR, m_ctor_super("BinaryExpression2Addr", 1, 2)))

    def m_visit_swap(cls, i, j):
        def t(tree):
            f = _method(tree, cls, "visit")
            if f is None:
                return False
            for n in ast.walk(f):
                if isinstance(n, ast.Call) and isinstance(n.func, ast.Attribute) and n.func.attr.startswith("visit_") and len(n.args) > max(i, j):
                    n.args[i], n.args[j] = n.args[j], n.args[i]
                    return True
            return False
        return t
    out.append(("ConditionalExpression.visit passes (op, arg2, arg1)", INSTR, m_visit_swap("ConditionalExpression", 1, 2)))

    def m_writer_swap(tree):
        f = _method(tree, "Writer", "visit_binary_expression")
        if f is None:
            return False
        idx = [k for k, s in enumerate(f.body) if isinstance(s, ast.Expr) and isinstance(s.value, ast.Call)
               and isinstance(s.value.func, ast.Attribute) and s.value.func.attr == "visit"]
        if len(idx) != 2:
            return False
        f.body[idx[0]], f.body[idx[1]] = f.body[idx[1]], f.body[idx[0]]
        return True
    out.append(("Writer.visit_binary_expression emits arg2 first", WRITER, m_writer_swap))

    def m_dispatch(tree):
        f = _func(tree, "build_node_from_block")
        if f is None:
            return False
        for n in ast.walk(f):
            if isinstance(n, ast.Compare) and len(n.ops) == 2 and isinstance(n.left, ast.Constant) and n.left.value == 0xA:
                n.left = ast.Constant(0xB)
                return True
        return False
    out.append(("dispatcher passes move-result (0x0a) two arguments", BBLOCKS, m_dispatch))
    out.append(("Writer.visit_cond_expression moves a constant to the right with a wrong mirror of '>='", WRITER, _swap_conds(">=", "<")))
    out.append(("BinaryExpression.visit folds the sign of every negative constant into the operator", INSTR, _fold_sign("< 0")))
    out.append(("Writer.visit_unary_expression prints the operator without the blank", WRITER, _unary_blank(False)))
    out.append(("Writer.visit_cast prints a widening cast as the bare operand", WRITER, _cast_elide(True)))
    return out


def _unary_blank(keep_for_constants):
    def t(tree):
        f = _method(tree, "Writer", "visit_unary_expression")
        if f is None or len(f.args.args) != 3:
            return False
        op, arg = [x.arg for x in f.args.args[1:]]
        for i, st in enumerate(f.body):
            hit = [n for n in ast.walk(st) if isinstance(n, ast.Constant) and n.value == "(%s "]
            if hit:
                if keep_for_constants:
                    alt = copy.deepcopy(st)
                    for n in ast.walk(alt):
                        if isinstance(n, ast.Constant) and n.value == "(%s ":
                            n.value = "(%s"
                    f.body[i] = ast.If(test=ast.parse("isinstance(%s, Constant)" % arg, mode="eval").body, body=[st], orelse=[alt])
                else:
                    hit[0].value = "(%s"
                return True
        return False
    return t


def _cast_elide(widening):
    def t(tree):
        f = _method(tree, "Writer", "visit_cast")
        if f is None or len(f.args.args) != 3:
            return False
        op, arg = [x.arg for x in f.args.args[1:]]
        if widening:
            src = ("if {'B': 0, 'S': 0, 'C': 0, 'I': 1, 'J': 2, 'F': 3, 'D': 4}.get(str(%s.get_type()), 9) < "
                   "{'(int)': 1, '(long)': 2, '(float)': 3, '(double)': 4}.get(%s, -1):\n    return %s.visit(self)\n" % (arg, op, arg))
        else:
            src = ("if {'(int)': 'I', '(long)': 'J', '(float)': 'F', '(double)': 'D'}.get(%s) == str(%s.get_type()):\n"
                   "    return %s.visit(self)\n" % (op, arg, arg))
        f.body.insert(0, ast.parse(src).body[0])
        return True
    return t


def _swap_conds(key, value):
    def t(tree):
        f = _method(tree, "Writer", "visit_cond_expression")
        if f is None or len(f.args.args) != 4:
            return False
        op, a1, a2 = [x.arg for x in f.args.args[1:]]
        table = {"==": "==", "!=": "!=", "<": ">", "<=": ">=", ">=": "<=", ">": "<"}
        table[key] = value
        tree.body.insert(max(i for i, n in enumerate(tree.body) if isinstance(n, (ast.Import, ast.ImportFrom))) + 1,
                         ast.parse("AGSTATIC_SWAPPED = %r" % table).body[0])
        guard = ast.parse(
            "if isinstance({a1}, Constant) and not isinstance({a2}, Constant) and {op} in AGSTATIC_SWAPPED:\n"
            "    {a1}, {a2} = {a2}, {a1}\n"
            "    {op} = AGSTATIC_SWAPPED[{op}]\n".format(a1=a1, a2=a2, op=op)).body[0]
        f.body.insert(0, guard)
        return True
    return t


def _fold_sign(cond):
    def t(tree):
        f = _method(tree, "BinaryExpression", "visit")
        if f is None:
            return False
        new = ast.parse(
            "def visit(self, visitor):\n"
            "    v_m = self.var_map\n"
            "    op, arg2 = self.op, v_m[self.arg2]\n"
            "    if (op in ('+', '-') and self.type in ('I', 'J') and isinstance(arg2, Constant)\n"
            "            and arg2.get_type() in ('I', 'J') and %s):\n"
            "        op = '-' if op == '+' else '+'\n"
            "        arg2 = Constant(-arg2.get_int_value(), arg2.get_type())\n"
            "    return visitor.visit_binary_expression(op, v_m[self.arg1], arg2)\n"
            % ("arg2.get_int_value() " + cond if not cond.startswith("-") else cond)).body[0]
        f.body = new.body
        return True
    return t


def benign():
    out = []

    def b_rename_local(tree):
        f = _func(tree, "assign_binary_exp")
        if f is None:
            return False
        hit = False
        for n in ast.walk(f):
            if isinstance(n, ast.Name) and n.id in ("reg_b", "reg_c"):
                n.id = {"reg_b": "left", "reg_c": "right"}[n.id]
                hit = True
        return hit
    out.append(("rename locals of assign_binary_exp", OPC, b_rename_local))

    def b_literal_token(tree):
        f = _func(tree, "addint")
        if f is None:
            return False
        for n in ast.walk(f):
            if isinstance(n, ast.Call) and isinstance(n.func, ast.Name) and n.func.id == "assign_binary_exp":
                n.args[1] = ast.Constant("+")
                return True
        return False
    out.append(("addint passes the literal '+' instead of Op.ADD", OPC, b_literal_token))

    def b_inline(tree):
        f = _func(tree, "subint")
        if f is None:
            return False
        new = ast.parse(
            "def subint(ins, vmap):\n"
            "    d = vmap.setdefault(ins.AA, Variable(ins.AA))\n"
            "    x, y = get_variables(vmap, ins.BB, ins.CC)\n"
            "    e = BinaryExpression(_type='I', arg2=y, arg1=x, op=Op.SUB)\n"
            "    return AssignExpression(d, e)\n").body[0]
        f.body = new.body
        return True
    out.append(("subint written out without the helper, keyword arguments", OPC, b_inline))

    def b_commute(tree):
        f = _func(tree, "assign_lit")
        if f is None:
            return False
        # only for the commutative users: a new helper used by mulintlit8
        g = copy.deepcopy(f)
        g.name = "assign_lit_rev"
        for n in ast.walk(g):
            if isinstance(n, ast.Call) and isinstance(n.func, ast.Name) and n.func.id == "BinaryExpressionLit":
                n.args[1], n.args[2] = n.args[2], n.args[1]
        tree.body.insert(tree.body.index(f) + 1, g)
        h = _func(tree, "mulintlit8")
        for n in ast.walk(h):
            if isinstance(n, ast.Call) and isinstance(n.func, ast.Name) and n.func.id == "assign_lit":
                n.func.id = "assign_lit_rev"
                return True
        return False
    out.append(("mul-int/lit8 built as literal * register (commutative)", OPC, b_commute))

    def b_mirror(tree):
        f = _func(tree, "iflt")
        if f is None:
            return False
        new = ast.parse(
            "def iflt(ins, vmap):\n"
            "    a, b = get_variables(vmap, ins.A, ins.B)\n"
            "    return ConditionalExpression(Op.GREATER, b, a)\n").body[0]
        f.body = new.body
        return True
    out.append(("if-lt built as (vB > vA)", OPC, b_mirror))

    def b_new_op(tree):
        for n in tree.body:
            if isinstance(n, ast.ClassDef) and n.name == "Op":
                n.body.append(ast.parse("UNUSED_TOKEN = '<=>'").body[0])
                return True
        return False
    out.append(("an extra Op constant", OPC, b_new_op))
    out.append(("Writer.visit_cond_expression moves a constant to the right with the mirrored operator", WRITER, _swap_conds(">=", "<=")))
    out.append(("BinaryExpression.visit folds the sign of a negative constant unless it is the minimum value", INSTR,
                _fold_sign("-0x80000000 < arg2.get_int_value() < 0")))
    out.append(("Writer.visit_unary_expression drops the blank except in front of a literal", WRITER, _unary_blank(True)))
    out.append(("Writer.visit_cast drops a cast to the type the operand already has", WRITER, _cast_elide(False)))
    return out


def thorough(ctx):
    base = Sink()
    core(ctx.repo, base)
    base_keys = {(r, q, c) for r, q, c, m in base.failed}
    killed = total = 0
    survivors = []
    for name, rel, tr in mutants():
        ed = _edit(ctx.repo, rel, tr)
        if ed is None:
            ctx.note("mutation operator not applicable to this tree: %s" % name)
            continue
        total += 1
        r2 = clone_repo(ctx.repo, ed)
        s = Sink()
        try:
            core(r2, s)
        except AnalysisError as e:
            # leaving the fragment is not a detection
            survivors.append("%s (analysis error: %s)" % (name, e))
            continue
        new = [(r, q, c) for r, q, c, m in s.failed if (r, q, c) not in base_keys]
        if new:
            killed += 1
            ctx.ob("mutation", name, True, "fires: %s %s" % (new[0][0], new[0][2][:70]))
        else:
            survivors.append(name)
    silent = btotal = 0
    noisy = []
    for name, rel, tr in benign():
        ed = _edit(ctx.repo, rel, tr)
        if ed is None:
            ctx.note("benign edit not applicable to this tree: %s" % name)
            continue
        btotal += 1
        r2 = clone_repo(ctx.repo, ed)
        s = Sink()
        core(r2, s)
        new = [(r, q, c) for r, q, c, m in s.failed if (r, q, c) not in base_keys]
        if not new:
            silent += 1
            ctx.ob("benign", name, True, "silent")
        else:
            noisy.append("%s -> %s" % (name, new[0]))
    ctx.extra["mutants_killed"] = killed
    ctx.extra["mutants_total"] = total
    ctx.extra["benign_silent"] = silent
    ctx.extra["benign_total"] = btotal
    if survivors:
        raise AnalysisError("rule lost its teeth: surviving mutants: %s" % "; ".join(survivors))
    if noisy:
        raise AnalysisError("rule fires on behaviour-preserving edits: %s" % "; ".join(noisy))
    if total < 22 or btotal < 8:
        raise AnalysisError("only %d mutation operators and %d benign edits apply to this tree (need >= 22 / 8): "
                            "the mutation set no longer matches the code" % (total, btotal))
