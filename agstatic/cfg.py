"""L2 statement-level control-flow graph for one function (networkx DiGraph).

Nodes are the ast statement objects themselves (an `if`/`while`/`for` node
stands for the evaluation of its test / iterator), plus three synthetic nodes
ENTRY, EXIT (normal return / fall off the end) and RAISE (exception leaves the
function).  Edge attribute `label` is True/False for branch edges, 'exc' for
exception edges into handlers, 'back' for loop back edges.

Exceptions: every statement lexically inside a `try` body gets an 'exc' edge
to every handler of that try (any statement may raise).  Outside `try`, only
explicit `raise` statements produce exception flow.
"""
from __future__ import annotations

import ast

import networkx as nx


class _Syn:
    def __init__(self, name):
        self.name = name
        self.lineno = 0

    def __repr__(self):
        return self.name


class CFG:
    def __init__(self, func_node):
        self.func = func_node
        self.g = nx.DiGraph()
        self.entry = _Syn("ENTRY")
        self.exit = _Syn("EXIT")
        self.raise_exit = _Syn("RAISE")
        self.g.add_nodes_from([self.entry, self.exit, self.raise_exit])
        self.loops = []  # loop header statements
        first = self._seq(func_node.body, self.exit, dict(brk=None, cont=None, handlers=[], fin=[]))
        self.g.add_edge(self.entry, first)
        self._idom = None
        self._ipdom = None

    # ---- construction -------------------------------------------------
    def _edge(self, a, b, label=None):
        self.g.add_edge(a, b, label=label)

    def _seq(self, stmts, succ, c):
        nxt = succ
        for s in reversed(stmts):
            nxt = self._stmt(s, nxt, c)
        return nxt

    def _exc_edges(self, s, c):
        for h in c["handlers"]:
            self._edge(s, h, "exc")

    def _stmt(self, s, succ, c):
        g = self.g
        g.add_node(s)
        if c["handlers"]:
            self._exc_edges(s, c)
        if isinstance(s, ast.If):
            b = self._seq(s.body, succ, c)
            o = self._seq(s.orelse, succ, c) if s.orelse else succ
            self._edge(s, b, True)
            self._edge(s, o, False)
        elif isinstance(s, (ast.While, ast.For, ast.AsyncFor)):
            self.loops.append(s)
            after = self._seq(s.orelse, succ, c) if s.orelse else succ
            c2 = dict(c, brk=succ, cont=s)
            b = self._seq(s.body, s, c2)
            self._edge(s, b, True)
            infinite = isinstance(s, ast.While) and isinstance(s.test, ast.Constant) and bool(s.test.value)
            if not infinite:
                self._edge(s, after, False)
            # mark back edges
            for p in list(g.predecessors(s)):
                if p is not s and self._inside(p, s):
                    g[p][s]["label"] = "back"
        elif isinstance(s, ast.Return):
            tgt = self.exit
            if c["fin"]:
                tgt = c["fin"][-1]
                self.g.graph.setdefault("fin_exits", set()).add(id(c["fin"][-1]))
            self._edge(s, tgt)
        elif isinstance(s, ast.Raise):
            if c["handlers"]:
                # explicit raise inside try: to handlers (already added) and, unless a catch-all exists, out
                if not c.get("catch_all"):
                    self._edge(s, self.raise_exit, "exc")
            else:
                self._edge(s, self.raise_exit, "exc")
        elif isinstance(s, ast.Break):
            self._edge(s, c["brk"] if c["brk"] is not None else succ)
        elif isinstance(s, ast.Continue):
            self._edge(s, c["cont"] if c["cont"] is not None else succ, "back")
        elif isinstance(s, ast.Try):
            fin_entry = succ
            if s.finalbody:
                fin_entry = self._seq(s.finalbody, succ, c)
                # a finally block may also continue to EXIT/RAISE (after return / propagating exception)
                last = s.finalbody[-1]
                if not isinstance(last, (ast.Return, ast.Raise)):
                    self._edge(last, self.raise_exit, "exc")
                    self._edge(last, self.exit)
            hentries = []
            for h in s.handlers:
                he = self._seq(h.body, fin_entry, dict(c, fin=c["fin"] + ([fin_entry] if s.finalbody else [])))
                g.add_node(h)
                self._edge(h, he)
                hentries.append(h)
            catch_all = any(h.type is None or ast.unparse(h.type).split(".")[-1] in ("Exception", "BaseException") for h in s.handlers)
            orelse = self._seq(s.orelse, fin_entry, c) if s.orelse else fin_entry
            c2 = dict(c, handlers=c["handlers"] + hentries if not catch_all else hentries,
                      catch_all=catch_all or c.get("catch_all", False) and not hentries,
                      fin=c["fin"] + ([fin_entry] if s.finalbody else []))
            if catch_all:
                c2["catch_all"] = True
            b = self._seq(s.body, orelse, c2)
            self._edge(s, b)
            if not s.handlers and s.finalbody:
                pass
        elif isinstance(s, (ast.With, ast.AsyncWith)):
            b = self._seq(s.body, succ, c)
            self._edge(s, b)
        elif isinstance(s, ast.Match):
            for case in s.cases:
                self._edge(s, self._seq(case.body, succ, c))
            self._edge(s, succ)
        else:
            self._edge(s, succ)
        return s

    @staticmethod
    def _inside(node, loop):
        for n in ast.walk(loop):
            if n is node:
                return True
        return False

    # ---- queries ---------------------------------------------------------
    def nodes(self):
        return [n for n in self.g.nodes if not isinstance(n, _Syn)]

    def idom(self):
        if self._idom is None:
            self._idom = nx.immediate_dominators(self.g, self.entry)
        return self._idom

    def dominates(self, a, b):
        """a dominates b (every path ENTRY->b passes a)"""
        idom = self.idom()
        if b not in idom:
            return True  # unreachable
        n = b
        while True:
            if n is a:
                return True
            p = idom.get(n)
            if p is None or p is n:
                return n is a
            n = p

    def reachable(self, a, b, avoiding=()):
        avoid = set(map(id, avoiding))
        if id(a) in avoid:
            return False
        seen = {id(a)}
        stack = [a]
        while stack:
            n = stack.pop()
            if n is b:
                return True
            for m in self.g.successors(n):
                if id(m) not in seen and id(m) not in avoid:
                    seen.add(id(m))
                    stack.append(m)
        return False

    def every_path_passes(self, src, dst, via):
        """every path src ->* dst passes through a node of `via`"""
        return not self.reachable(src, dst, avoiding=via)

    def reaches_exit_normally(self, n, avoiding=()):
        return self.reachable(n, self.exit, avoiding)

    def succ(self, n, label=None):
        return [m for m in self.g.successors(n) if label is None or self.g[n][m].get("label") == label]

    def loop_body_nodes(self, loop):
        return [n for n in self.nodes() if n is not loop and self._inside(n, loop)]


def raises_only(stmts):
    """a block that ends in raise on every path (structurally)"""
    if not stmts:
        return False
    last = stmts[-1]
    if isinstance(last, ast.Raise):
        return True
    if isinstance(last, ast.If) and last.orelse:
        return raises_only(last.body) and raises_only(last.orelse)
    return False


def leaves_only(stmts):
    """a block that never falls through: ends in raise/return/continue/break on every path"""
    if not stmts:
        return False
    last = stmts[-1]
    if isinstance(last, (ast.Raise, ast.Return, ast.Continue, ast.Break)):
        return True
    if isinstance(last, ast.If) and last.orelse:
        return leaves_only(last.body) and leaves_only(last.orelse)
    return False
