"""C29 -- resource resolution terminates on reference cycles of any length.

Rule.  The call graph of ARSCParser.ResourceResolver (edges `self.m(...)`) is built and its
recursive strongly connected components are computed (they are *found*, not named).  Every
recursive SCC must carry a termination certificate of the "growing visited state" kind:

  cut     a checkpoint function Fc lies on every cycle of the SCC (SCC minus Fc is acyclic);
  check   Fc contains `if K in S` / `if K not in S` (S a `self.<attr>` or a parameter that is
          threaded through the SCC) -- or `if D > bound` for a depth parameter D -- such that
          every recursive call statement of Fc is reachable only through the not-seen edge and
          unreachable from the seen edge;
  grow    on every path from the not-seen edge to a recursive call K is put into S
          (`S.add(K)`, `S = S | {K}`, or the call passes `S | {K}` / `D + 1`), and S is not
          shrunk or re-created between that point and the call;
  thread  a self attribute is not re-assigned inside the SCC; a parameter is passed on by
          every call edge of the SCC;
  fresh   every entry into the SCC from outside creates the state afresh (`self.S = set()`
          dominating the call, or an empty/None argument).

Then the keys on the recursion stack are pairwise distinct, and since they are resource ids of a
finite table the recursion depth is bounded.  If no certificate exists the SCC is reported
(rule `cycle-guard`, or a more specific rule naming the missing part).  Independently, while
no certificate exists, the weaker data guard for cycles of length one (the id about to be
resolved is compared with the id of the entry being expanded, and the equal arm cannot reach
the recursive call) is required (rule `self-reference`).
"""
from __future__ import annotations

import ast

import networkx as nx

from ..cfg import CFG
from ..model import AXML, AnalysisError, norm, parent, walk_no_nested
from ..pathkit import (NotEvaluable, truths, Defs, reach, branch_edges, stmt_of, run_mutants,
                       rename_locals, flip_ifs, link_parents)

RESOLVER = "ResourceResolver"
FRESH_CALLS = ("set", "dict", "list", "frozenset", "collections.OrderedDict", "OrderedDict")
SHRINK = ("remove", "discard", "clear", "pop", "popitem", "difference_update", "intersection_update")
GROW = ("add", "append", "update")


class F:
    """a method of the resolver class (the shared model only indexes top-level classes)"""

    def __init__(self, module, cls_node, node, outer):
        self.module = module
        self.node = node
        self.cls_node = cls_node
        self.qualname = "%s.%s.%s" % (outer, cls_node.name, node.name) if outer else "%s.%s" % (cls_node.name, node.name)
        self.short = node.name
        self.file = module.relpath
        self.line = node.lineno

    def params(self):
        a = self.node.args
        return [x.arg for x in a.posonlyargs + a.args]


def find_class(module, name):
    for n in ast.walk(module.tree):
        if isinstance(n, ast.ClassDef) and n.name == name:
            outer = []
            p = parent(n)
            while p is not None:
                if isinstance(p, ast.ClassDef):
                    outer.append(p.name)
                p = parent(p)
            return n, ".".join(reversed(outer))
    return None, None


def self_calls(fn_node):
    return [c for c in walk_no_nested(fn_node) if isinstance(c, ast.Call) and isinstance(c.func, ast.Attribute)
            and isinstance(c.func.value, ast.Name) and c.func.value.id == "self"]


def is_fresh(e):
    if isinstance(e, (ast.Set, ast.List, ast.Dict, ast.Tuple)):
        return not (getattr(e, "elts", None) or getattr(e, "keys", None))
    if isinstance(e, ast.Call) and ast.unparse(e.func) in FRESH_CALLS and not e.args and not e.keywords:
        return True
    return False


class Core:
    def __init__(self, ctx, funcs=None):
        self.ctx = ctx
        self.m = ctx.mod(AXML)
        cls, outer = find_class(self.m, RESOLVER)
        ctx.require(cls is not None, "anchor vanished: class %s" % RESOLVER)
        self.cls = cls
        if funcs is None:
            funcs = {n.name: F(self.m, cls, n, outer) for n in cls.body if isinstance(n, (ast.FunctionDef, ast.AsyncFunctionDef))}
        self.funcs = funcs

    # ------------------------------------------------------------------
    def graph(self):
        g = nx.DiGraph()
        for name, f in self.funcs.items():
            g.add_node(name)
            for c in self_calls(f.node):
                if c.func.attr in self.funcs:
                    g.add_edge(name, c.func.attr)
        return g

    def run(self):
        ctx = self.ctx
        g = self.graph()
        ctx.count("resolver_methods", g.number_of_nodes())
        sccs = [sorted(c) for c in nx.strongly_connected_components(g) if len(c) > 1 or any(g.has_edge(n, n) for n in c)]
        for scc in sccs:
            ctx.count("recursive_sccs")
            for n in scc:
                ctx.analysed(self.funcs[n])
            self.check_scc(g, scc)
        return sccs

    # ------------------------------------------------------------------
    def rec_calls(self, f, scc):
        return [c for c in self_calls(f.node) if c.func.attr in scc]

    def candidates(self, scc):
        """(Fc, kind, S text, K text or None, If node, compare node)"""
        out = []
        for n in scc:
            f = self.funcs[n]
            params = f.params()
            for G in (x for x in walk_no_nested(f.node) if isinstance(x, ast.If)):
                for c in (x for x in ast.walk(G.test) if isinstance(x, ast.Compare) and len(x.ops) == 1):
                    op, left, right = c.ops[0], c.left, c.comparators[0]
                    if isinstance(op, (ast.In, ast.NotIn)):
                        s_txt = ast.unparse(right)
                        if isinstance(right, ast.Attribute) and isinstance(right.value, ast.Name) and right.value.id == "self":
                            out.append((f, "attr", s_txt, ast.unparse(left), G, c))
                        elif isinstance(right, ast.Name) and right.id in params:
                            out.append((f, "param", s_txt, ast.unparse(left), G, c))
                    elif isinstance(op, (ast.Gt, ast.GtE, ast.Lt, ast.LtE)):
                        for side in (left, right):
                            if isinstance(side, ast.Name) and side.id in params[1:] and self._is_counter(f, side.id, scc):
                                out.append((f, "depth", side.id, None, G, c))
        return out

    def _is_counter(self, f, p, scc):
        """p is passed on as `p + c` by some recursive call of f"""
        for c in self.rec_calls(f, scc):
            for a in list(c.args) + [k.value for k in c.keywords]:
                if isinstance(a, ast.BinOp) and isinstance(a.op, ast.Add) and any(isinstance(x, ast.Name) and x.id == p for x in (a.left, a.right)):
                    return True
        return False

    def check_scc(self, g, scc):
        ctx = self.ctx
        label = "recursion " + " -> ".join(scc)
        anchor = self.funcs[scc[0]]
        # the function that closes the cycle is the most useful place to point at
        rec_sites = [(self.funcs[n], c) for n in scc for c in self.rec_calls(self.funcs[n], scc)]
        cands = self.candidates(scc)
        verdicts = []
        for cand in cands:
            verdicts.append((cand, self.verify(g, scc, cand)))
        good = [v for v in verdicts if v[1] is None]
        if good:
            (f, kind, s_txt, k_txt, G, cmp_), _ = good[0]
            ctx.check("cycle-guard", label, True, f, G.test, "",
                      detail="checkpoint %s: `if %s` on state %s (%s); every cycle passes it, the state grows before each recursive call, "
                             "is threaded through the SCC and created fresh at every entry" % (f.short, norm(G.test), s_txt, kind))
            ctx.ob("self-reference", label, True, "subsumed by the visited-state certificate")
            ctx.count("certified_sccs")
            return
        if verdicts:
            # a guard exists but is incomplete: name what is missing
            (f, kind, s_txt, k_txt, G, cmp_), (rule, why, node) = verdicts[0]
            ctx.check(rule, label, False, f, "if %s" % norm(G.test),
                      "the recursion %s has a visited-state test `%s` but it does not bound the recursion: %s" % (" -> ".join(scc), norm(G.test), why),
                      node=node or G)
        else:
            closing = [fc for fc in rec_sites]
            f0, c0 = closing[-1] if closing else (anchor, anchor.node)
            ctx.check("cycle-guard", label, False, f0, "recursion cycle: " + " -> ".join(scc),
                      "the mutually recursive methods %s follow resource references without any visited set or depth bound: "
                      "a reference cycle A -> B -> A recurses until RecursionError" % ", ".join(scc), node=c0,
                      witness=dict(scc=scc, recursive_calls=[norm(c) for _, c in rec_sites]))
        self.self_reference(scc, rec_sites, label)

    # ------------------------------------------------------------------ certificate
    def verify(self, g, scc, cand):
        """None if the candidate is a valid certificate, else (rule, reason, node)"""
        f, kind, s_txt, k_txt, G, cmp_ = cand
        sub = g.subgraph(scc).copy()
        sub.remove_node(f.short)
        if not nx.is_directed_acyclic_graph(sub):
            return ("cycle-guard/not-on-every-cycle", "a cycle of the SCC avoids %s" % f.short, G)
        cfg = CFG(f.node)
        defs = Defs(f.node)
        recs = [stmt_of(c, f.node) for c in self.rec_calls(f, scc)]
        rec_calls = self.rec_calls(f, scc)
        if not recs:
            return ("cycle-guard/not-on-every-cycle", "%s makes no recursive call" % f.short, G)
        # ---- check: polarity of the test
        key = ast.unparse(cmp_)
        if kind == "depth":
            big, small = 10 ** 9, 0
            try:
                seen_v = {v for _, v in truths(G.test, {s_txt: big}, atom_ok=lambda e: s_txt not in ast.unparse(e))}
                new_v = {v for _, v in truths(G.test, {s_txt: small}, atom_ok=lambda e: s_txt not in ast.unparse(e))}
            except NotEvaluable as e:
                raise AnalysisError("depth test `%s` left the analysable fragment (%s)" % (norm(G.test), e))
        else:
            is_in = isinstance(cmp_.ops[0], ast.In)
            try:
                seen_v = {v for _, v in truths(G.test, {key: is_in}, atom_ok=lambda e: key not in ast.unparse(e))}
                new_v = {v for _, v in truths(G.test, {key: not is_in}, atom_ok=lambda e: key not in ast.unparse(e))}
            except NotEvaluable as e:
                raise AnalysisError("membership test `%s` left the analysable fragment (%s)" % (norm(G.test), e))
        if len(seen_v) != 1:
            return ("cycle-guard/check", "an already visited key does not decide the test `%s`" % norm(G.test), G)
        seen = seen_v.pop()
        for R in recs:
            for _, t in branch_edges(cfg, G, seen):
                if t is R or reach(cfg, t, R):
                    return ("cycle-guard/check", "the recursive call `%s` is still reached when the key was already visited" % norm(R)[:70], R)
            if reach(cfg, cfg.entry, R, avoid_edges=branch_edges(cfg, G, not seen)):
                return ("cycle-guard/check", "the recursive call `%s` can be reached without passing the test" % norm(R)[:70], R)
        if seen in new_v:
            return ("cycle-guard/check", "the test `%s` also stops keys that were not visited" % norm(G.test), G)
        # ---- grow
        if kind == "depth":
            for c in rec_calls:
                if not self._passes_grown_depth(c, s_txt):
                    return ("cycle-guard/grow", "the call `%s` does not pass %s + <positive constant>" % (norm(c)[:70], s_txt), c)
        else:
            grow = []
            for n in walk_no_nested(f.node):
                if isinstance(n, ast.Call) and isinstance(n.func, ast.Attribute) and n.func.attr in GROW and ast.unparse(n.func.value) == s_txt \
                        and n.args and self._contains_key(n.args[0], k_txt):
                    grow.append(stmt_of(n, f.node))
                if isinstance(n, (ast.Assign, ast.AugAssign)) and ast.unparse(n.targets[0] if isinstance(n, ast.Assign) else n.target) == s_txt:
                    v = n.value
                    if self._is_union(v, s_txt, k_txt) or (isinstance(n, ast.AugAssign) and isinstance(n.op, ast.BitOr) and self._contains_key(v, k_txt)):
                        grow.append(n)
            for c, R in zip(rec_calls, recs):
                passes_grown = kind == "param" and any(self._is_union(a, s_txt, k_txt) for a in list(c.args) + [k.value for k in c.keywords])
                if passes_grown:
                    continue
                starts = [t for _, t in branch_edges(cfg, G, not seen)]
                if not grow or any((t is not R and not any(t is a for a in grow) and reach(cfg, t, R, avoid_nodes=grow)) or t is R for t in starts):
                    return ("cycle-guard/grow", "the key `%s` is not added to %s on every path from the test to the recursive call `%s` "
                                                "(the visited state never grows)" % (k_txt, s_txt, norm(R)[:60]), R)
            # shrink / re-create between grow and recursion
            for n in walk_no_nested(f.node):
                shrink = None
                if isinstance(n, ast.Call) and isinstance(n.func, ast.Attribute) and n.func.attr in SHRINK and ast.unparse(n.func.value) == s_txt:
                    shrink = stmt_of(n, f.node)
                if isinstance(n, ast.Assign) and any(ast.unparse(t) == s_txt for t in n.targets) and not self._is_union(n.value, s_txt, k_txt) \
                        and not self._none_init(n, s_txt):
                    shrink = n
                if shrink is not None:
                    for a in grow:
                        for R in recs:
                            if reach(cfg, a, shrink) and reach(cfg, shrink, R) and not any(shrink is x for x in grow):
                                return ("cycle-guard/grow", "`%s` shrinks or re-creates %s between the insertion of the key and the recursive call" % (norm(shrink)[:60], s_txt), shrink)
            # the key must be stable between test and insertion
            if k_txt and k_txt.isidentifier() and len(defs.of(k_txt)) > 0 and k_txt in f.params():
                return ("cycle-guard/check", "the key `%s` is re-assigned inside %s" % (k_txt, f.short), G)
        # ---- thread
        if kind == "attr":
            for n in scc:
                h = self.funcs[n]
                for a in walk_no_nested(h.node):
                    if isinstance(a, (ast.Assign, ast.AugAssign)):
                        tg = a.targets if isinstance(a, ast.Assign) else [a.target]
                        if any(ast.unparse(t) == s_txt for t in tg) and not (isinstance(a, ast.Assign) and self._is_union(a.value, s_txt, k_txt)) \
                                and not isinstance(a, ast.AugAssign):
                            return ("cycle-guard/thread", "%s is re-created inside the recursion (`%s` in %s): the visited keys are forgotten" % (s_txt, norm(a)[:60], h.short), a)
            # ---- fresh
            attr = s_txt.split(".", 1)[1]
            entries = 0
            for name, h in self.funcs.items():
                if name in scc:
                    continue
                hc = None
                for c in self_calls(h.node):
                    if c.func.attr in scc:
                        entries += 1
                        hc = hc or CFG(h.node)
                        st = stmt_of(c, h.node)
                        inits = [a for a in walk_no_nested(h.node) if isinstance(a, ast.Assign) and any(ast.unparse(t) == s_txt for t in a.targets) and is_fresh(a.value)]
                        if not inits or reach(hc, hc.entry, st, avoid_nodes=inits):
                            return ("cycle-guard/fresh", "%s enters the recursion (`%s`) without creating %s afresh: keys of an earlier resolution would still count as visited, "
                                                         "or the attribute does not exist" % (h.short, norm(c)[:60], s_txt), c)
            ext = self._external_entries(scc)
            if ext:
                return ("cycle-guard/fresh", "the recursion is entered from outside the class (%s) where %s is not initialised" % (ext[0], s_txt), G)
            if not entries:
                raise AnalysisError("no entry into the recursion %s found" % scc)
        else:
            why = self._threaded(scc, f, s_txt, kind)
            if why:
                return why
        return None

    @staticmethod
    def _contains_key(e, k_txt):
        return any(ast.unparse(n) == k_txt for n in ast.walk(e))

    def _is_union(self, e, s_txt, k_txt):
        """S | {K}, S.union({K}), {*S, K}, S + [K], S + (K,)"""
        if isinstance(e, ast.BinOp) and isinstance(e.op, (ast.BitOr, ast.Add)):
            sides = [ast.unparse(e.left), ast.unparse(e.right)]
            other = e.right if sides[0] == s_txt else e.left if sides[1] == s_txt else None
            return other is not None and self._contains_key(other, k_txt)
        if isinstance(e, ast.Call) and isinstance(e.func, ast.Attribute) and e.func.attr == "union" and ast.unparse(e.func.value) == s_txt:
            return any(self._contains_key(a, k_txt) for a in e.args)
        if isinstance(e, (ast.Set, ast.List, ast.Tuple)):
            star = any(isinstance(x, ast.Starred) and ast.unparse(x.value) == s_txt for x in e.elts)
            return star and any(ast.unparse(x) == k_txt for x in e.elts)
        return False

    @staticmethod
    def _none_init(assign, s_txt):
        """`S = set()` under `if S is None`"""
        p = parent(assign)
        return isinstance(p, ast.If) and is_fresh(assign.value) and ast.unparse(p.test) in ("%s is None" % s_txt, "not %s" % s_txt)

    @staticmethod
    def _passes_grown_depth(c, d):
        for a in list(c.args) + [k.value for k in c.keywords]:
            if isinstance(a, ast.BinOp) and isinstance(a.op, ast.Add):
                l, r = a.left, a.right
                for x, y in ((l, r), (r, l)):
                    if isinstance(x, ast.Name) and x.id == d and isinstance(y, ast.Constant) and isinstance(y.value, int) and y.value > 0:
                        return True
        return False

    def _state_param_of(self, call, callee, value_names):
        """which parameter of `callee` receives an argument that mentions one of value_names"""
        ps = callee.params()[1:]
        for i, a in enumerate(call.args):
            if any(isinstance(n, ast.Name) and n.id in value_names for n in ast.walk(a)) and i < len(ps):
                return ps[i]
        for k in call.keywords:
            if k.arg and any(isinstance(n, ast.Name) and n.id in value_names for n in ast.walk(k.value)):
                return k.arg
        return None

    def _threaded(self, scc, fc, p, kind):
        """parameter state: every call edge inside the SCC hands the state on; entries pass a fresh one"""
        state = {fc.short: p}
        todo = [fc.short]
        while todo:
            n = todo.pop()
            h = self.funcs[n]
            for c in self.rec_calls(h, scc):
                callee = self.funcs[c.func.attr]
                sp = self._state_param_of(c, callee, {state[n]})
                if sp is None:
                    return ("cycle-guard/thread", "the call `%s` in %s does not pass the state %s on" % (norm(c)[:60], h.short, state[n]), c)
                if callee.short in state:
                    if state[callee.short] != sp:
                        return ("cycle-guard/thread", "the state reaches %s through different parameters" % callee.short, c)
                else:
                    state[callee.short] = sp
                    todo.append(callee.short)
            if n != fc.short:
                d = Defs(h.node)
                if d.of(state[n]):
                    return ("cycle-guard/thread", "%s re-assigns the state parameter %s" % (h.short, state[n]), h.node)
        missing = [n for n in scc if n not in state]
        if missing:
            return ("cycle-guard/thread", "the state is not threaded through %s" % ", ".join(missing), fc.node)
        # entries
        entries = 0
        for name, h in self.funcs.items():
            if name in scc:
                continue
            for c in self_calls(h.node):
                if c.func.attr in scc:
                    entries += 1
                    callee = self.funcs[c.func.attr]
                    sp = state[callee.short]
                    ps = callee.params()[1:]
                    arg = None
                    if sp in ps and ps.index(sp) < len(c.args):
                        arg = c.args[ps.index(sp)]
                    for k in c.keywords:
                        if k.arg == sp:
                            arg = k.value
                    if arg is None:
                        dflt = self._default_of(callee, sp)
                        ok = dflt is not None and (isinstance(dflt, ast.Constant) and (dflt.value is None or dflt.value == 0 or dflt.value == ())
                                                   or (isinstance(dflt, ast.Call) and ast.unparse(dflt.func) == "frozenset" and not dflt.args)
                                                   or (isinstance(dflt, ast.Tuple) and not dflt.elts))
                        if dflt is not None and not ok:
                            return ("cycle-guard/fresh", "the default `%s=%s` of %s is a shared mutable object: visited keys survive between resolutions"
                                    % (sp, norm(dflt), callee.short), callee.node)
                    else:
                        ok = is_fresh(arg) or (isinstance(arg, ast.Constant) and arg.value in (0, None))
                    if not ok:
                        return ("cycle-guard/fresh", "%s enters the recursion (`%s`) without a fresh state" % (h.short, norm(c)[:60]), c)
        if not entries:
            raise AnalysisError("no entry into the recursion %s found" % scc)
        if kind == "param":
            # a None default must be normalised before the membership test
            dflt = self._default_of(fc, p)
            if isinstance(dflt, ast.Constant) and dflt.value is None:
                if not any(isinstance(a, ast.Assign) and self._none_init(a, p) for a in walk_no_nested(fc.node)):
                    return ("cycle-guard/fresh", "%s=None is never replaced by an empty container in %s" % (p, fc.short), fc.node)
        return None

    @staticmethod
    def _default_of(f, p):
        a = f.node.args
        names = [x.arg for x in a.posonlyargs + a.args]
        if p not in names:
            for x, d in zip(a.kwonlyargs, a.kw_defaults):
                if x.arg == p:
                    return d
            return None
        i = names.index(p) - (len(names) - len(a.defaults))
        return a.defaults[i] if i >= 0 else None

    def _external_entries(self, scc):
        out = []
        names = set(scc)
        for rel, mod in self.ctx.repo.modules.items():
            for n in ast.walk(mod.tree):
                if isinstance(n, ast.Call) and isinstance(n.func, ast.Attribute) and n.func.attr in names:
                    if not (isinstance(n.func.value, ast.Name) and n.func.value.id == "self"):
                        if n.func.attr.startswith("put_") or n.func.attr.startswith("_resolve"):
                            out.append("%s:%d %s" % (rel, n.lineno, norm(n)[:50]))
        return out

    # ------------------------------------------------------------------ length-one data guard
    def self_reference(self, scc, rec_sites, label):
        ctx = self.ctx
        # the call edges that close a cycle back to the function that looks resources up
        g = self.graph()
        # re-entrant edges: calls (inside the SCC) of a function through which the SCC is entered from outside
        entry = {n for n in scc if any(p not in scc for p in g.predecessors(n))} or set(scc)
        for f, c in rec_sites:
            callee = self.funcs[c.func.attr]
            if callee.short not in entry:
                continue
            # only edges that carry a *new* resource id matter: the id argument is not a parameter passed through
            cfg = CFG(f.node)
            defs = Defs(f.node)
            R = stmt_of(c, f.node)
            # arguments that carry a new value: not a parameter handed on, not self.<attr>, not a constant
            new_ids = [a for a in c.args if not (isinstance(a, ast.Name) and a.id in f.params() and not defs.of(a.id))
                       and not (isinstance(a, ast.Attribute) and isinstance(a.value, ast.Name) and a.value.id == "self")
                       and not isinstance(a, ast.Constant)]
            if not new_ids:
                continue
            ctx.count("reference_edges")
            keys = set()
            for a in new_ids:
                keys.add(ast.unparse(a))
                if isinstance(a, ast.Name):
                    keys |= {ast.unparse(d[1]) for d in defs.of(a.id)}
                else:
                    for k, ds in defs.defs.items():
                        if any(d[0] == "assign" and ast.unparse(d[1]) == ast.unparse(a) for d in ds):
                            keys.add(k)
            ok = False
            shown = None
            for G in (x for x in walk_no_nested(f.node) if isinstance(x, ast.If)):
                for cmp_ in (x for x in ast.walk(G.test) if isinstance(x, ast.Compare) and len(x.ops) == 1 and isinstance(x.ops[0], (ast.Eq, ast.NotEq))):
                    sides = [cmp_.left, cmp_.comparators[0]]
                    mine = [s for s in sides if ast.unparse(s) in keys]
                    other = [s for s in sides if s not in mine]
                    if len(mine) != 1 or len(other) != 1:
                        continue
                    o = other[0]
                    # the other side: something read from a parameter (the entry being expanded), possibly through a local copy
                    if isinstance(o, ast.Name) and len(defs.of(o.id)) == 1 and defs.of(o.id)[0][0] == "assign":
                        o = defs.of(o.id)[0][1]
                    root = o
                    while isinstance(root, (ast.Attribute, ast.Call, ast.Subscript)):
                        root = root.value if not isinstance(root, ast.Call) else root.func
                    if isinstance(o, ast.Name) or not (isinstance(root, ast.Name) and root.id in f.params() and root.id != "self"):
                        continue
                    key = ast.unparse(cmp_)
                    is_eq = isinstance(cmp_.ops[0], ast.Eq)
                    try:
                        eq_v = {v for _, v in truths(G.test, {key: is_eq}, atom_ok=lambda e: key not in ast.unparse(e))}
                        ne_v = {v for _, v in truths(G.test, {key: not is_eq}, atom_ok=lambda e: key not in ast.unparse(e))}
                    except NotEvaluable:
                        continue
                    shown = G
                    if len(eq_v) != 1:
                        continue
                    v = eq_v.pop()
                    stops = all(not (t is R or reach(cfg, t, R)) for _, t in branch_edges(cfg, G, v))
                    gates = not reach(cfg, cfg.entry, R, avoid_edges=branch_edges(cfg, G, not v))
                    if stops and gates:
                        ok = True
                        shown = G
                        break
                if ok:
                    break
            ctx.check("self-reference", "%s: %s -> %s" % (label, f.short, callee.short), ok, f,
                      ("if %s" % norm(shown.test)) if (shown is not None and not ok) else (shown.test if ok else "self-reference guard before %s -> %s" % (f.short, callee.short)),
                      "a resource item that references its own entry is followed again: no test `<referenced id> == <id of the entry being expanded>` "
                      "whose equal arm leaves before the recursive call %s -> %s" % (f.short, callee.short), node=shown or c,
                      detail="`if %s`: when the referenced id equals the id of the entry being expanded the recursive call is not reached" % (norm(shown.test) if shown is not None else "?"))


OWN_MUTATION_ADEQUACY = True   # thorough() below mutates the anchored functions in memory (pathkit.run_mutants)


def core(ctx):
    return Core(ctx).run()


def run(ctx):
    ctx.explanation = __doc__
    core(ctx)
    ctx.floor("resolver_methods", 5)
    ctx.floor("recursive_sccs", 1)
    if not ctx.counts.get("certified_sccs"):
        ctx.floor("reference_edges", 1)
    fixture(ctx)
    if ctx.tier == "thorough":
        thorough(ctx)


# ---------------------------------------------------------------------------- fixture: the rule accepts a correct guard
FIXTURE_GOOD = '''
class ResourceResolver:
    def resolve(self, res_id):
        result = []
        self._seen = set()
        self._walk(result, res_id)
        return result

    def _walk(self, result, res_id):
        if res_id in self._seen:
            return
        self._seen.add(res_id)
        for ate in self.resources.get(res_id):
            self._put(result, ate)
        self._seen.discard(res_id)

    def _put(self, result, ate):
        if ate.is_reference():
            self._walk(result, ate.get_data())
        else:
            result.append(ate.value())
'''
FIXTURE_BAD = FIXTURE_GOOD.replace("        self._seen.add(res_id)\n", "")
FIXTURE_PARAM = '''
class ResourceResolver:
    def resolve(self, res_id):
        result = []
        self._walk(result, res_id, frozenset())
        return result

    def _walk(self, result, res_id, seen):
        if res_id in seen:
            return
        for ate in self.resources.get(res_id):
            self._put(result, ate, seen | {res_id})

    def _put(self, result, ate, seen):
        if ate.is_reference():
            self._walk(result, ate.get_data(), seen)
        else:
            result.append(ate.value())
'''
FIXTURE_DEPTH = '''
class ResourceResolver:
    def resolve(self, res_id):
        result = []
        self._walk(result, res_id, 0)
        return result

    def _walk(self, result, res_id, depth):
        if depth > 32:
            raise ValueError("reference chain too deep")
        for ate in self.resources.get(res_id):
            if ate.is_reference():
                self._walk(result, ate.get_data(), depth + 1)
'''


def _fixture_run(ctx, text):
    from ..pathkit import Sink

    class _M:
        relpath = "fixtures/c29_fixture.py"
    tree = ast.parse(text)
    link_parents(tree)
    m = _M()
    m.tree = tree
    s = Sink(ctx)
    c = Core.__new__(Core)
    c.ctx = s
    c.m = m
    c.cls = tree.body[0]
    c.funcs = {n.name: F(m, c.cls, n, "") for n in c.cls.body if isinstance(n, ast.FunctionDef)}
    c._external_entries = lambda scc: []
    c.run()
    return s


def fixture(ctx):
    """positive and negative examples evaluated on every run: the rule must accept the three
    certificate shapes and reject a guard that never grows"""
    for name, text, want_ok in (("self-attribute visited set", FIXTURE_GOOD, True), ("parameter-threaded visited set", FIXTURE_PARAM, True),
                                ("depth counter", FIXTURE_DEPTH, True), ("membership test without insertion", FIXTURE_BAD, False)):
        s = _fixture_run(ctx, text)
        fired = bool(s.findings)
        ctx.ob("fixture", name, fired != want_ok, "fixture %s: %s" % (name, "accepted" if not fired else "rejected: " + s.findings[0].rule))
        if fired == want_ok:
            raise AnalysisError("fixture `%s` is %s by the rule (self-check of the checker failed)" % (name, "rejected" if fired else "accepted"))


# ---------------------------------------------------------------------------- thorough tier
def thorough(ctx):
    c = Core(_sink(ctx))
    fs = c.funcs     # run_mutants swaps .node of these objects; Core(sink, fs) reads them

    def core_with(funcs):
        def run_(sink):
            Core(sink, funcs).run()
        return run_

    def drop_self_ref(fn):
        for s in ast.walk(fn):
            if isinstance(s, ast.If) and any(isinstance(x, ast.Compare) and isinstance(x.ops[0], ast.Eq) and "mResId" in ast.unparse(x) for x in ast.walk(s.test)):
                s.body = [ast.Pass()]
                return
        raise LookupError

    def invert_self_ref(fn):
        for x in ast.walk(fn):
            if isinstance(x, ast.Compare) and isinstance(x.ops[0], ast.Eq) and "mResId" in ast.unparse(x):
                x.ops = [ast.NotEq()]
                return
        raise LookupError

    def extra_edge(fn):
        fn.body.append(ast.parse("self._resolve_into_result(result, ate.get_parent_id(), config)").body[0])

    probe = _sink(ctx)
    Core(probe, fs).run()
    if probe.counts.get("certified_sccs"):
        return thorough_certified(ctx, fs, core_with)
    mutants = [
        ("put_item_value: self-reference guard no longer returns", fs["put_item_value"], drop_self_ref),
        ("put_item_value: self-reference comparison inverted", fs["put_item_value"], invert_self_ref),
        ("put_ate_value: new unguarded reference edge", fs["put_ate_value"], extra_edge),
    ]
    benign = [
        ("put_item_value: locals renamed", fs["put_item_value"], rename_locals()),
        ("put_item_value: if/else arms flipped", fs["put_item_value"], flip_ifs()),
        ("_resolve_into_result: locals renamed", fs["_resolve_into_result"], rename_locals()),
    ]
    run_mutants(ctx, core_with(fs), mutants, benign)


def thorough_certified(ctx, fs, core_with):
    """the tree carries a visited-state certificate: break each of its parts in memory"""
    probe = _sink(ctx)
    c = Core(probe, fs)
    g = c.graph()
    import networkx as nx_
    certs = []
    for scc in (sorted(x) for x in nx_.strongly_connected_components(g) if len(x) > 1):
        for cand in c.candidates(scc):
            if c.verify(g, scc, cand) is None:
                certs.append((scc, cand))
    if not certs:
        raise AnalysisError("certified SCC without a verifiable candidate")
    scc, (fc, kind, s_txt, k_txt, G, cmp_) = certs[0]
    test_txt = ast.unparse(G.test)

    def is_grow(n):
        return isinstance(n, ast.Expr) and isinstance(n.value, ast.Call) and isinstance(n.value.func, ast.Attribute) \
            and n.value.func.attr in GROW and ast.unparse(n.value.func.value) == s_txt

    def is_shrink(n):
        return isinstance(n, ast.Expr) and isinstance(n.value, ast.Call) and isinstance(n.value.func, ast.Attribute) \
            and n.value.func.attr in SHRINK and ast.unparse(n.value.func.value) == s_txt

    def edit_blocks(fn, f):
        done = 0
        for n in ast.walk(fn):
            for fld in ("body", "orelse", "finalbody"):
                b = getattr(n, fld, None)
                if isinstance(b, list) and b and isinstance(b[0], ast.stmt):
                    done += f(b)
        if not done:
            raise LookupError

    def drop_grow(fn):
        def f(b):
            k = [x for x in b if is_grow(x)]
            for x in k:
                b[b.index(x)] = ast.Pass()
            return len(k)
        edit_blocks(fn, f)

    def guard_only_warns(fn):
        for n in ast.walk(fn):
            if isinstance(n, ast.If) and ast.unparse(n.test) == test_txt:
                n.body = [x for x in n.body if not isinstance(x, (ast.Return, ast.Raise))] or [ast.Pass()]
                n.orelse = [x for x in n.orelse if not isinstance(x, (ast.Return, ast.Raise))]
                return
        raise LookupError

    def guard_removed(fn):
        def f(b):
            k = [x for x in b if isinstance(x, ast.If) and ast.unparse(x.test) == test_txt and not x.orelse]
            for x in k:
                b[b.index(x)] = ast.Pass()
            return len(k)
        edit_blocks(fn, f)

    def recreate(fn):
        fn.body.insert(0, ast.parse("%s = set()" % s_txt).body[0])

    def shrink_early(fn):
        def f(b):
            k = [x for x in b if is_grow(x)]
            for x in k:
                b.insert(b.index(x) + 1, ast.parse("%s.discard(%s)" % (s_txt, k_txt)).body[0])
            return len(k)
        edit_blocks(fn, f)

    def other_key(fn):
        for n in ast.walk(fn):
            if is_grow(n):
                n.value.args = [ast.Constant(value=0)]
                return
        raise LookupError

    def no_fresh(fn):
        def f(b):
            k = [x for x in b if isinstance(x, ast.Assign) and ast.unparse(x.targets[0]) == s_txt]
            for x in k:
                b[b.index(x)] = ast.Pass()
            return len(k)
        edit_blocks(fn, f)

    mutants = [
        ("%s: the key is never added" % fc.short, fc, drop_grow),
        ("%s: a visited key only warns" % fc.short, fc, guard_only_warns),
        ("%s: membership test removed" % fc.short, fc, guard_removed),
        ("%s: key discarded right after insertion" % fc.short, fc, shrink_early),
        ("%s: a constant is added instead of the key" % fc.short, fc, other_key),
    ]
    if kind == "attr":
        mutants.append(("%s: state re-created on every call" % fc.short, fc, recreate))
        for name, h in fs.items():
            if name not in scc and any(isinstance(x, ast.Assign) and ast.unparse(x.targets[0]) == s_txt for x in ast.walk(h.node)) and name != "__init__":
                mutants.append(("%s: state no longer created at the entry" % name, h, no_fresh))
    benign = [("%s: locals renamed" % n, fs[n], rename_locals()) for n in scc] + [("%s: if/else arms flipped" % n, fs[n], flip_ifs()) for n in scc]
    run_mutants(ctx, core_with(fs), mutants, benign)


def _sink(ctx):
    from ..pathkit import Sink
    return Sink(ctx)
