"""Small symbolic evaluator for straight-line "builder" code (used by C21).

It abstractly executes the opcode handlers of androguard/decompiler/opcode_ins.py
(together with the module-level helper functions they call and the constructors
of the IR classes they instantiate) with the instruction object `ins` symbolic:

    ins.<name>              -> Field(name)            (an operand field, never a concrete value)
    Cls(args)               -> Obj(cls, state)        (constructor evaluated, super() chains followed)
    anything unknown        -> Opq(op, *args)         (opaque term that remembers what flowed into it)
    visitor.visit_x(args)   -> Emit('visit_x', args)  (when an IR object's visit() is evaluated)

Conditions on symbolic values fork the path (every path is explored).  Nothing of
the repository is executed; values are terms.  Constructs outside the fragment raise
AnalysisError.
"""
from __future__ import annotations

import ast

from .consts import Folder, Ref, Unknown, is_unknown
from .model import AnalysisError, Cls, Func, Module

MAX_PATHS = 256
MAX_DEPTH = 12


class Field:
    __slots__ = ("name",)

    def __init__(self, name):
        self.name = name

    def __eq__(self, o):
        return isinstance(o, Field) and o.name == self.name

    def __hash__(self):
        return hash(("Field", self.name))

    def __repr__(self):
        return "ins.%s" % self.name


class Opq:
    """opaque term"""
    __slots__ = ("op", "args", "_h")

    def __init__(self, op, *args):
        self.op = op
        self.args = tuple(args)
        self._h = None

    def __eq__(self, o):
        return isinstance(o, Opq) and o.op == self.op and _key(o.args) == _key(self.args)

    def __hash__(self):
        if self._h is None:
            self._h = hash((self.op, _key(self.args)))
        return self._h

    def __repr__(self):
        return "%s(%s)" % (self.op, ", ".join(show(a) for a in self.args))


class Obj:
    """abstract instance of a repository class"""

    def __init__(self, cls: Cls, ctor_args=()):
        self.cls = cls
        self.state = {}
        self.ctor_args = list(ctor_args)

    def __repr__(self):
        return "<%s %s>" % (self.cls.name, ", ".join("%s=%s" % (k, show(v)) for k, v in self.state.items() if k != "var_map"))


class SList:
    """a list value; exact=False: the known items are only some of the elements"""

    def __init__(self, items, exact=True):
        self.items = list(items)
        self.exact = exact

    def __repr__(self):
        return "[%s%s]" % (", ".join(show(i) for i in self.items), "" if self.exact else ", ...")


class Emit:
    """visitor.<method>(*args, **kw) observed while evaluating an IR object's visit()"""

    def __init__(self, method, args, kwargs, node=None):
        self.method = method
        self.args = list(args)
        self.kwargs = dict(kwargs)
        self.node = node

    def __repr__(self):
        return "%s(%s)" % (self.method, ", ".join(show(a) for a in self.args))


class Sentinel:
    def __init__(self, name):
        self.name = name

    def __repr__(self):
        return self.name


class FuncRef:
    def __init__(self, func: Func):
        self.func = func

    def __repr__(self):
        return "<func %s>" % self.func.qualname


class ClsRef:
    def __init__(self, cls: Cls):
        self.cls = cls

    def __repr__(self):
        return "<class %s>" % self.cls.name


class ModRef:
    def __init__(self, mod: Module):
        self.mod = mod


class Closure:
    """a function value created by a nested def / lambda, with the environment it closes over"""

    def __init__(self, func, env):
        self.func = func   # model.Func built around the nested FunctionDef (or a synthetic one for a lambda)
        self.env = env     # the enclosing frame's variables (by reference: late binding, as in Python)

    def __repr__(self):
        return "<closure %s>" % self.func.qualname


class Bound:
    def __init__(self, recv, name):
        self.recv = recv
        self.name = name


def _key(v):
    if isinstance(v, (tuple, list)):
        return tuple(_key(x) for x in v)
    if isinstance(v, SList):
        return ("SList", tuple(_key(x) for x in v.items), v.exact)
    if isinstance(v, dict):
        return ("dict", tuple(sorted((repr(_key(k)), repr(_key(x))) for k, x in v.items())))
    if isinstance(v, (Obj, Sentinel, Emit, FuncRef, ClsRef, ModRef, Bound, Closure)):
        return ("id", id(v))
    return v


def show(v):
    if isinstance(v, str):
        return repr(v)
    if isinstance(v, tuple):
        return "(%s)" % ", ".join(show(x) for x in v)
    return repr(v)


def fields_of(v, _seen=None):
    """all Field atoms that flowed into a value"""
    out = set()
    _seen = _seen if _seen is not None else set()
    if id(v) in _seen:
        return out
    _seen.add(id(v))
    if isinstance(v, Field):
        out.add(v.name)
    elif isinstance(v, Opq):
        for a in v.args:
            out |= fields_of(a, _seen)
    elif isinstance(v, (tuple, list)):
        for a in v:
            out |= fields_of(a, _seen)
    elif isinstance(v, SList):
        for a in v.items:
            out |= fields_of(a, _seen)
    elif isinstance(v, dict):
        for k, a in v.items():
            out |= fields_of(k, _seen) | fields_of(a, _seen)
    elif isinstance(v, Obj):
        for a in v.ctor_args:
            out |= fields_of(a, _seen)
    elif isinstance(v, Emit):
        for a in v.args:
            out |= fields_of(a, _seen)
    return out


def is_concrete(v):
    if isinstance(v, (int, str, bytes, float, bool)) or v is None:
        return True
    if isinstance(v, tuple):
        return all(is_concrete(x) for x in v)
    return False


def is_symbolic(v):
    return isinstance(v, (Field, Opq))


class _Ret(Exception):
    def __init__(self, v):
        self.v = v


class PathRaise(Exception):
    """the analysed code raises on this path"""

    def __init__(self, node):
        self.node = node


class _NeedChoice(Exception):
    pass


class Frame:
    def __init__(self, module, func, env, self_obj=None, cls_ctx=None):
        self.module = module
        self.func = func
        self.env = env
        self.self_obj = self_obj
        self.cls_ctx = cls_ctx


_CMP = {
    ast.Eq: lambda a, b: a == b, ast.NotEq: lambda a, b: a != b, ast.Lt: lambda a, b: a < b,
    ast.LtE: lambda a, b: a <= b, ast.Gt: lambda a, b: a > b, ast.GtE: lambda a, b: a >= b,
    ast.In: lambda a, b: a in b, ast.NotIn: lambda a, b: a not in b,
}
_CMPSYM = {ast.Eq: "==", ast.NotEq: "!=", ast.Lt: "<", ast.LtE: "<=", ast.Gt: ">", ast.GtE: ">=",
           ast.In: "in", ast.NotIn: "not in", ast.Is: "is", ast.IsNot: "is not"}
_BINSYM = {ast.Add: "+", ast.Sub: "-", ast.Mult: "*", ast.Div: "/", ast.FloorDiv: "//", ast.Mod: "%",
           ast.BitAnd: "&", ast.BitOr: "|", ast.BitXor: "^", ast.LShift: "<<", ast.RShift: ">>", ast.Pow: "**"}


class Evaluator:
    """one path of evaluation, steered by a list of branch choices"""

    def __init__(self, repo, folder: Folder, inline_modules, choices, hooks=None, shared=None):
        self.shared = shared if shared is not None else {}   # module-level values computed by evaluation (factories ...)
        self.repo = repo
        self.folder = folder
        self.inline_modules = set(inline_modules)  # relpaths whose plain functions are inlined
        self.choices = choices
        self.pos = 0
        self.conds = []          # (term, taken)
        self.reads = []          # (attr name, node, Func) attribute reads on the ins sentinel
        self.events = []         # (kind, value, node, Func)
        self.depth = 0
        self.approx = 0
        self.phase = "build"     # 'build' while the handler runs, 'visit' while the IR object is printed
        self.tokens = None       # emission tokens of the Writer method being evaluated
        self.trace = []          # Func objects entered (helpers, constructors, visit methods), in order
        self.hooks = hooks or {}
        self.INS = Sentinel("ins")
        self.VISITOR = Sentinel("visitor")

    # ---- branching -------------------------------------------------------------
    def decide(self, term):
        if self.pos < len(self.choices):
            c = self.choices[self.pos]
        else:
            self.choices.append(True)
            c = True
        self.pos += 1
        self.conds.append((term, c))
        return c

    def truth(self, v):
        """-> True/False, forking when it depends on a symbolic value"""
        if isinstance(v, bool):
            return v
        if v is None:
            return False
        if isinstance(v, (int, str, bytes, float, tuple, dict)):
            return bool(v)
        if isinstance(v, SList):
            if v.exact or v.items:
                return bool(v.items)
            return self.decide(Opq("truth", v))
        if isinstance(v, (Obj, FuncRef, ClsRef, Sentinel, Emit, Closure)):
            return True
        return self.decide(v)

    # ---- calls -----------------------------------------------------------------
    def call_func(self, func: Func, args, kwargs=None, self_obj=None, cls_ctx=None, closure_env=None):
        kwargs = dict(kwargs or {})
        self.depth += 1
        if func not in self.trace:
            self.trace.append(func)
        if self.depth > MAX_DEPTH:
            raise AnalysisError("evaluation depth exceeded in %s" % func.qualname)
        try:
            a = func.node.args
            if a.kwonlyargs and any(d is None for d in a.kw_defaults):
                raise AnalysisError("keyword-only parameters without default in %s" % func.qualname)
            names = [x.arg for x in a.posonlyargs + a.args]
            env = dict(closure_env) if closure_env else {}
            for n in names:
                env.pop(n, None)
            pos = list(args)
            if self_obj is not None:
                pos = [self_obj] + pos
            # star-args given as inexact list
            star_extra = None
            if pos and isinstance(pos[-1], _StarInexact):
                star_extra = pos.pop().lst
            for i, n in enumerate(names):
                if i < len(pos):
                    env[n] = pos[i]
            rest = pos[len(names):]
            if a.vararg is not None:
                items = list(rest)
                exact = True
                if star_extra is not None:
                    items += star_extra.items
                    exact = False
                env[a.vararg.arg] = SList(items, exact)
            elif rest or star_extra is not None:
                raise AnalysisError("too many positional arguments for %s" % func.qualname)
            for k, v in kwargs.items():
                if k in names or any(k == x.arg for x in a.kwonlyargs):
                    env[k] = v
                elif a.kwarg is not None:
                    env.setdefault(a.kwarg.arg, {})[k] = v
                else:
                    raise AnalysisError("unexpected keyword %s for %s" % (k, func.qualname))
            defaults = a.defaults
            for i, d in enumerate(defaults):
                n = names[len(names) - len(defaults) + i]
                if n not in env:
                    env[n] = self.eval(d, Frame(func.module, func, {}))
            for x, d in zip(a.kwonlyargs, a.kw_defaults):
                if x.arg not in env:
                    env[x.arg] = self.eval(d, Frame(func.module, func, {}))
            for n in names:
                if n not in env:
                    raise AnalysisError("missing argument %s for %s" % (n, func.qualname))
            fr = Frame(func.module, func, env, self_obj=self_obj, cls_ctx=cls_ctx)
            try:
                self.block(func.node.body, fr)
            except _Ret as r:
                return r.v
            return None
        finally:
            self.depth -= 1

    def construct(self, cls: Cls, args, kwargs, node=None, frame=None):
        o = Obj(cls, args)
        o.ctor_kwargs = dict(kwargs)
        hook = self.hooks.get("construct")
        if hook:
            hook(self, cls, args, kwargs, node, frame)
        init = cls.lookup("__init__")
        if init is not None:
            self.call_func(init, args, kwargs, self_obj=o, cls_ctx=init.cls)
        hook = self.hooks.get("constructed")
        if hook:
            hook(self, o, node, frame)
        return o

    def sym_lookup(self, d, key):
        """look a symbolic key up in a dict with concrete keys: one path per key it may equal, and one for 'absent'.
        -> (found, value)"""
        for k in list(d.keys()):
            if is_concrete(k) and self.decide(Opq("cmp", "==", key, k)):
                return True, d[k]
        return False, None

    # ---- statements -------------------------------------------------------------
    def block(self, stmts, fr):
        for s in stmts:
            self.stmt(s, fr)

    def stmt(self, s, fr):
        if isinstance(s, ast.Expr):
            if isinstance(s.value, ast.Constant):
                return
            self.eval(s.value, fr)
        elif isinstance(s, ast.Assign):
            v = self.eval(s.value, fr)
            for t in s.targets:
                self.assign(t, v, fr)
        elif isinstance(s, ast.AnnAssign):
            if s.value is not None:
                self.assign(s.target, self.eval(s.value, fr), fr)
        elif isinstance(s, ast.AugAssign):
            cur = self.eval(s.target, fr)  # the e_* methods ignore ctx
            v = self.binop(s.op, cur, self.eval(s.value, fr))
            self.assign(s.target, v, fr)
        elif isinstance(s, ast.Return):
            raise _Ret(self.eval(s.value, fr) if s.value is not None else None)
        elif isinstance(s, ast.If):
            if self.truth(self.eval(s.test, fr)):
                self.block(s.body, fr)
            else:
                self.block(s.orelse, fr)
        elif isinstance(s, ast.For):
            self.for_(s, fr)
        elif isinstance(s, ast.Pass):
            pass
        elif isinstance(s, ast.FunctionDef):
            if s.decorator_list:
                raise AnalysisError("decorated nested function %s outside the fragment" % s.name)
            outer = fr.func.qualname if fr.func is not None else "<module>"
            fr.env[s.name] = Closure(Func(fr.module, "%s.%s" % (outer, s.name), s, None), fr.env)
        elif isinstance(s, ast.Raise):
            raise PathRaise(s)
        elif isinstance(s, (ast.Import, ast.ImportFrom, ast.Global, ast.Nonlocal)):
            pass
        elif isinstance(s, ast.Assert):
            pass
        else:
            raise AnalysisError("%s: statement %s outside the evaluable fragment (%s)" % (
                fr.func.qualname if fr.func else "?", type(s).__name__, " ".join(ast.unparse(s).split())[:80]))

    def for_(self, s, fr):
        if s.orelse:
            raise AnalysisError("for/else outside the fragment in %s" % fr.func.qualname)
        for n in ast.walk(s):
            if isinstance(n, (ast.Break, ast.Continue)):
                raise AnalysisError("break/continue outside the fragment in %s" % fr.func.qualname)
        it = self.eval(s.iter, fr)
        items = None
        exact = True
        if isinstance(it, SList):
            items, exact = it.items, it.exact
        elif isinstance(it, (tuple, list)):
            items = list(it)
        elif isinstance(it, dict):
            items = list(it.keys())
        if items is not None and exact:
            for x in items:
                self.assign(s.target, x, fr)
                self.block(s.body, fr)
            return
        # approximate: run the body for each known item plus once for "some element"
        assigned = sorted({n.id for n in ast.walk(s) if isinstance(n, ast.Name) and isinstance(n.ctx, ast.Store)})
        before = {n: fr.env.get(n) for n in assigned}
        self.approx += 1
        try:
            for x in (items or []) + [Opq("elem", it)]:
                self.assign(s.target, x, fr)
                self.block(s.body, fr)
        finally:
            self.approx -= 1
        for n in assigned:
            after = fr.env.get(n)
            if isinstance(after, (SList, dict, Obj)):
                if isinstance(after, SList):
                    after.exact = False
                continue
            if after is not before[n] or n in _names(s.target):
                fr.env[n] = Opq("phi", before[n], after)

    def assign(self, t, v, fr):
        if isinstance(t, ast.Name):
            fr.env[t.id] = v
        elif isinstance(t, (ast.Tuple, ast.List)):
            if any(isinstance(e, ast.Starred) for e in t.elts):
                raise AnalysisError("starred assignment outside the fragment")
            vals = None
            if isinstance(v, tuple):
                vals = list(v)
            elif isinstance(v, SList) and v.exact:
                vals = list(v.items)
            if vals is not None:
                if len(vals) != len(t.elts):
                    raise AnalysisError("%s: cannot unpack %d values into %d targets (%s)" % (
                        fr.func.qualname, len(vals), len(t.elts), ast.unparse(t)))
                for e, x in zip(t.elts, vals):
                    self.assign(e, x, fr)
            else:
                for i, e in enumerate(t.elts):
                    self.assign(e, Opq("item", i, v), fr)
        elif isinstance(t, ast.Attribute):
            base = self.eval(t.value, fr)
            if isinstance(base, Obj):
                base.state[self._mangle(t.attr, fr)] = v
            # attribute stores on opaque values have no effect we track
        elif isinstance(t, ast.Subscript):
            base = self.eval(t.value, fr)
            k = self.eval(t.slice, fr) if not isinstance(t.slice, ast.Slice) else None
            if isinstance(base, dict) and k is not None:
                try:
                    base[k] = v
                except TypeError:
                    pass
            elif isinstance(base, SList) and isinstance(k, int) and base.exact and -len(base.items) <= k < len(base.items):
                base.items[k] = v
            elif isinstance(base, SList):
                base.exact = False
                base.items.append(v)
        else:
            raise AnalysisError("assignment target %s outside the fragment" % type(t).__name__)

    def _mangle(self, attr, fr):
        if attr.startswith("__") and not attr.endswith("__") and fr.cls_ctx is not None:
            return "_%s%s" % (fr.cls_ctx.name.lstrip("_"), attr)
        return attr

    # ---- expressions ------------------------------------------------------------
    def eval(self, e, fr):
        m = getattr(self, "e_" + type(e).__name__, None)
        if m is None:
            raise AnalysisError("%s: expression %s outside the evaluable fragment" % (
                fr.func.qualname if fr.func else "?", type(e).__name__))
        return m(e, fr)

    def e_Constant(self, e, fr):
        return e.value

    def e_Name(self, e, fr):
        if e.id in fr.env:
            return fr.env[e.id]
        return self.global_name(e.id, fr.module)

    def global_name(self, name, module):
        r = module.resolve_name(name)
        if r is None:
            return Opq("global", name)
        if r[0] == "func":
            return FuncRef(r[1])
        if r[0] == "class":
            return ClsRef(r[1])
        if r[0] == "module":
            return ModRef(r[1])
        v = self.folder.fold(r[2], r[1])
        if is_unknown(v):
            return self.module_value(name, r[1], r[2])
        return self.from_folded(v, name)

    def module_value(self, name, module, expr):
        """a module-level `name = <expression>` the constant folder cannot fold (a handler made by a factory, a table of
        functions ...): evaluated once with this evaluator's semantics"""
        key = (module.relpath, name)
        if key in self.shared:
            v = self.shared[key]
            if v is _IN_PROGRESS:
                raise AnalysisError("module-level value %s depends on itself" % name)
            return v
        self.shared[key] = _IN_PROGRESS
        try:
            sub = Evaluator(self.repo, self.folder, self.inline_modules, [], hooks=self.hooks, shared=self.shared)
            sub.INS, sub.VISITOR = self.INS, self.VISITOR
            pseudo = Func(module, "<module %s>" % module.relpath, module.tree, None)
            try:
                v = sub.eval(expr, Frame(module, pseudo, {}))
            except PathRaise:
                raise AnalysisError("module-level value %s raises" % name)
            if sub.pos:
                raise AnalysisError("module-level value %s depends on unknown data" % name)
            if isinstance(v, Closure) and v.func.qualname.count(".") >= 1:
                v = Closure(Func(v.func.module, "%s (%s)" % (name, v.func.qualname), v.func.node, None), v.env)
        except Exception:
            self.shared.pop(key, None)
            raise
        self.shared[key] = v
        return v

    def from_folded(self, v, what):
        if isinstance(v, Unknown):
            return Opq("global", what)
        if isinstance(v, Ref):
            return ClsRef(v.obj) if v.kind == "class" else FuncRef(v.obj)
        if isinstance(v, list):
            return SList([self.from_folded(x, what) for x in v])
        if isinstance(v, tuple):
            return tuple(self.from_folded(x, what) for x in v)
        if isinstance(v, dict):
            return {k: self.from_folded(x, what) for k, x in v.items()}
        if isinstance(v, (set, frozenset)):
            return Opq("set", *sorted(v, key=repr))
        return v

    def e_Attribute(self, e, fr):
        base = self.eval(e.value, fr)
        return self.getattr_(base, e.attr, e, fr)

    def getattr_(self, base, attr, node, fr):
        if base is self.INS:
            self.reads.append((attr, node, fr.func))
            return Field(attr)
        if isinstance(base, (Field, Opq)):
            return Opq("attr", base, attr)
        if isinstance(base, Obj):
            a = self._mangle(attr, fr) if fr.self_obj is base else attr
            if a in base.state:
                return base.state[a]
            if base.cls.lookup(attr) is not None:
                return Bound(base, attr)
            ca = base.cls.lookup_attr(attr)
            if ca is not None:
                for c in base.cls.mro():
                    if attr in c.attrs:
                        return self.from_folded(self.folder.fold(ca, c.module), attr)
            return Opq("attr", Opq("obj", base.cls.name), attr)
        if isinstance(base, ClsRef):
            for c in base.cls.mro():
                if attr in c.attrs:
                    return self.from_folded(self.folder.fold(c.attrs[attr], c.module), "%s.%s" % (base.cls.name, attr))
                if attr in c.methods:
                    return FuncRef(c.methods[attr])
            raise AnalysisError("class %s has no attribute %s (%s)" % (base.cls.name, attr, fr.func.qualname))
        if isinstance(base, ModRef):
            return self.global_name(attr, base.mod)
        if isinstance(base, (SList, dict, str, tuple, Sentinel, Emit, FuncRef)) or base is None or isinstance(base, (int, float)):
            return Bound(base, attr)
        return Opq("attr", base, attr)

    def e_Call(self, e, fr):
        # super().__init__(...)
        f = e.func
        if (isinstance(f, ast.Attribute) and isinstance(f.value, ast.Call) and isinstance(f.value.func, ast.Name)
                and f.value.func.id == "super"):
            return self.super_call(e, fr)
        args, kwargs = self.call_args(e, fr)
        if isinstance(f, ast.Attribute):
            base = self.eval(f.value, fr)
            return self.method_call(base, f.attr, args, kwargs, e, fr)
        fn = self.eval(f, fr)
        return self.apply(fn, args, kwargs, e, fr)

    def call_args(self, e, fr):
        args = []
        for a in e.args:
            if isinstance(a, ast.Starred):
                v = self.eval(a.value, fr)
                if isinstance(v, SList) and v.exact:
                    args.extend(v.items)
                elif isinstance(v, tuple):
                    args.extend(v)
                elif isinstance(v, SList):
                    args.append(_StarInexact(v))
                else:
                    args.append(_StarInexact(SList([Opq("elem", v)], False)))
            else:
                args.append(self.eval(a, fr))
        kwargs = {}
        for k in e.keywords:
            if k.arg is None:
                raise AnalysisError("**kwargs call outside the fragment (%s)" % fr.func.qualname)
            kwargs[k.arg] = self.eval(k.value, fr)
        return args, kwargs

    def super_call(self, e, fr):
        if fr.self_obj is None or fr.cls_ctx is None:
            raise AnalysisError("super() outside a method")
        mro = fr.self_obj.cls.mro()
        idx = next((i for i, c in enumerate(mro) if c is fr.cls_ctx), None)
        if idx is None:
            raise AnalysisError("super(): class context not in MRO")
        args, kwargs = self.call_args(e, fr)
        name = e.func.attr
        for c in mro[idx + 1:]:
            if name in c.methods:
                return self.call_func(c.methods[name], args, kwargs, self_obj=fr.self_obj, cls_ctx=c)
        return None  # object.__init__

    def apply(self, fn, args, kwargs, node, fr):
        star = [a for a in args if isinstance(a, _StarInexact)]
        if isinstance(fn, FuncRef):
            func = fn.func
            if func.cls is None and func.module.relpath in self.inline_modules:
                if star and star[0] is not args[-1]:
                    raise AnalysisError("star argument not last")
                return self.call_func(func, args, kwargs)
            plain = [a.lst if isinstance(a, _StarInexact) else a for a in args]
            return Opq("call", func.qualname, *plain, *kwargs.values())
        if isinstance(fn, Closure):
            if star and star[0] is not args[-1]:
                raise AnalysisError("star argument not last")
            return self.call_func(fn.func, args, kwargs, closure_env=fn.env)
        plain = [a.lst if isinstance(a, _StarInexact) else a for a in args]
        if isinstance(fn, ClsRef):
            if star:
                raise AnalysisError("constructor called with an unknown number of arguments (%s)" % fn.cls.name)
            return self.construct(fn.cls, args, kwargs, node, fr)
        if isinstance(fn, Bound):
            return self.method_call(fn.recv, fn.name, plain, kwargs, node, fr)
        if isinstance(fn, Opq) and fn.op == "global":
            return self.builtin(fn.args[0], plain, kwargs, node, fr)
        if isinstance(fn, Opq) and fn.op == "attr" and len(fn.args) == 2 and isinstance(fn.args[1], str):
            return self.method_call(fn.args[0], fn.args[1], plain, kwargs, node, fr)
        return Opq("call", fn, *plain, *kwargs.values())

    def builtin(self, name, args, kwargs, node, fr):
        if name == "len" and len(args) == 1:
            v = args[0]
            if isinstance(v, SList) and v.exact:
                return len(v.items)
            if isinstance(v, (tuple, str, dict)):
                return len(v)
            return Opq("len", v)
        if name in ("list", "tuple") and len(args) <= 1:
            if not args:
                return SList([]) if name == "list" else ()
            v = args[0]
            if isinstance(v, SList):
                return SList(v.items, v.exact) if name == "list" else (tuple(v.items) if v.exact else Opq("tuple", v))
            if isinstance(v, tuple):
                return SList(v) if name == "list" else v
            if name == "list":
                return SList([Opq("elem", v)], False)
            return Opq("tuple", v)
        if name == "dict" and len(args) <= 1:
            d = {}
            if args:
                src = args[0]
                pairs = list(src.items()) if isinstance(src, dict) else (src.items if isinstance(src, SList) and src.exact else None)
                if pairs is None:
                    raise AnalysisError("dict() of an unknown sequence")
                try:
                    for k, v in pairs:
                        d[k] = v
                except (TypeError, ValueError):
                    raise AnalysisError("dict() of a sequence that is not made of pairs")
            d.update(kwargs)
            return d
        if name == "sorted" and len(args) == 1 and not kwargs and isinstance(args[0], SList) and args[0].exact:
            try:
                return SList(sorted(args[0].items, key=lambda x: x[0] if isinstance(x, tuple) and x and is_concrete(x[0]) else x))
            except TypeError:
                raise AnalysisError("sorted() of values that cannot be ordered")
        if name == "getattr" and len(args) == 2 and isinstance(args[1], str):
            return self.getattr_(args[0], args[1], node, fr)
        if name == "range":
            if all(isinstance(a, int) for a in args) and args:
                return SList(list(range(*args)))
            return Opq("range", *args)
        if name == "isinstance" and len(args) == 2:
            v, c = args
            classes = list(c) if isinstance(c, tuple) else [c]
            if isinstance(v, Obj) and all(isinstance(k, ClsRef) for k in classes):
                mro = v.cls.mro()
                return any(any(m is k.cls for m in mro) for k in classes)
            if (is_concrete(v) or isinstance(v, (SList, dict))) and all(isinstance(k, ClsRef) for k in classes):
                return False   # a plain value is not an instance of a repository class
            if (isinstance(v, Field) or (isinstance(v, Opq) and v.op == "neg" and isinstance(v.args[0], Field))) \
                    and all(isinstance(k, Opq) and k.op == "global" for k in classes):
                return "int" in {k.args[0] for k in classes}   # an operand field is an int
            if is_concrete(v) and v is not None and all(isinstance(k, Opq) and k.op == "global" for k in classes):
                names = {k.args[0] for k in classes}
                tn = {bool: {"bool", "int"}, int: {"int"}, str: {"str"}, float: {"float"}, bytes: {"bytes"}, tuple: {"tuple"}}
                known = {"bool", "int", "str", "float", "bytes", "tuple", "list", "dict"}
                if names <= known:
                    return bool(tn.get(type(v), set()) & names)
            return Opq("isinstance", v, *[k.cls.name if isinstance(k, ClsRef) else k for k in classes])
        if name in ("str", "int", "repr", "bool", "abs", "hex") and len(args) == 1:
            if is_concrete(args[0]):
                try:
                    return {"str": str, "int": int, "repr": repr, "bool": bool, "abs": abs, "hex": hex}[name](args[0])
                except Exception:
                    pass
            return Opq(name, args[0])
        return Opq("call", name, *args, *kwargs.values())

    def method_call(self, base, name, args, kwargs, node, fr):
        if base is self.INS:
            self.reads.append((name, node.func if isinstance(node, ast.Call) else node, fr.func))
            return Opq("ins.call", name, *args)
        if base is self.VISITOR:
            hook = self.hooks.get("visitor")
            if hook:
                r = hook(self, name, args, kwargs, node, fr)
                if r is not NotImplemented:
                    return r
            return Emit(name, args, kwargs, node)
        if isinstance(base, Field) or (isinstance(base, Opq) and base.op == "attr" and base.args and isinstance(base.args[0], Field)):
            # ins.cm.get_type(ins.BBBB): a lookup through the class manager
            fld = base if isinstance(base, Field) else base.args[0]
            self.events.append(("lookup", (fld.name, name, tuple(args)), node, fr.func))
            return Opq("lookup", fld.name, name, *args)
        if isinstance(base, Obj):
            hook = self.hooks.get("obj_method")
            if hook:
                r = hook(self, base, name, args, kwargs, node, fr)
                if r is not NotImplemented:
                    return r
            return Opq("mcall", Opq("obj", base.cls.name), name, *args)
        if isinstance(base, SList):
            if name == "append" and len(args) == 1:
                base.items.append(args[0])
                if self.approx:
                    base.exact = False
                return None
            if name == "extend" and len(args) == 1:
                v = args[0]
                if isinstance(v, SList):
                    base.items.extend(v.items)
                    base.exact = base.exact and v.exact and not self.approx
                elif isinstance(v, tuple):
                    base.items.extend(v)
                    base.exact = base.exact and not self.approx
                else:
                    base.items.append(Opq("elem", v))
                    base.exact = False
                return None
            if name in ("copy",) and not args:
                return SList(base.items, base.exact)
            return Opq("mcall", base, name, *args)
        if isinstance(base, dict):
            try:
                if name == "update" and len(args) == 1 and not kwargs:
                    v = args[0]
                    pairs = v.items if isinstance(v, SList) and v.exact else (list(v.items()) if isinstance(v, dict) else None)
                    if pairs is None:
                        raise AnalysisError("dict.update with an unknown argument (%s)" % fr.func.qualname)
                    for p in pairs:
                        k, x = (p if isinstance(p, tuple) else tuple(p.items))
                        base[k] = x
                    return None
                if name == "get" and 1 <= len(args) <= 2:
                    if is_symbolic(args[0]) and args[0] not in base and base and all(is_concrete(k) for k in base):
                        found, v = self.sym_lookup(base, args[0])
                        return v if found else (args[1] if len(args) > 1 else None)
                    return base.get(args[0], args[1] if len(args) > 1 else None)
                if name == "setdefault" and len(args) == 2:
                    return base.setdefault(args[0], args[1])
                if name == "pop" and 1 <= len(args) <= 2:
                    return base.pop(*args)
                if name == "items" and not args:
                    return SList(list(base.items()))
                if name == "keys" and not args:
                    return SList(list(base.keys()))
                if name == "values" and not args:
                    return SList(list(base.values()))
            except (TypeError, KeyError):
                raise AnalysisError("dict operation not evaluable in %s" % fr.func.qualname)
            return Opq("mcall", Opq("dict"), name, *args)
        if isinstance(base, str):
            if all(is_concrete(a) for a in args) and not kwargs and name in (
                    "format", "join", "lower", "upper", "strip", "lstrip", "rstrip", "replace", "startswith", "endswith", "split"):
                try:
                    return getattr(base, name)(*args)
                except Exception:
                    pass
            return Opq("str." + name, base, *args)
        if isinstance(base, Opq) and name == "setdefault" and len(args) == 2:
            # vmap.setdefault(reg, Variable(reg)): whatever entry exists for `reg` is the variable of `reg`
            return args[1]
        return Opq("mcall", base, name, *args, *kwargs.values())

    def e_BinOp(self, e, fr):
        return self.binop(e.op, self.eval(e.left, fr), self.eval(e.right, fr))

    def binop(self, op, a, b):
        if isinstance(a, SList) and isinstance(b, SList) and isinstance(op, ast.Add):
            return SList(a.items + b.items, a.exact and b.exact)
        if isinstance(op, ast.Mod) and isinstance(a, str) and (is_concrete(b)):
            try:
                return a % b
            except Exception:
                pass
        if is_concrete(a) and is_concrete(b) and not isinstance(a, tuple) and not isinstance(b, tuple) and a is not None and b is not None:
            try:
                return {"+": lambda: a + b, "-": lambda: a - b, "*": lambda: a * b, "//": lambda: a // b, "%": lambda: a % b,
                        "&": lambda: a & b, "|": lambda: a | b, "^": lambda: a ^ b, "<<": lambda: a << b, ">>": lambda: a >> b,
                        "/": lambda: a / b, "**": lambda: a ** b}[_BINSYM[type(op)]]()
            except Exception:
                pass
        return Opq("bin", _BINSYM[type(op)], a, b)

    def e_UnaryOp(self, e, fr):
        v = self.eval(e.operand, fr)
        if isinstance(e.op, ast.Not):
            if is_symbolic(v):
                return Opq("not", v)
            return not self.truth(v)
        if isinstance(v, (int, float)) and not isinstance(v, bool):
            return {ast.USub: lambda: -v, ast.UAdd: lambda: +v, ast.Invert: lambda: ~v}[type(e.op)]()
        if isinstance(e.op, ast.USub):
            if isinstance(v, Opq) and v.op == "neg":
                return v.args[0]
            return Opq("neg", v)
        if isinstance(e.op, ast.UAdd):
            return v
        return Opq("inv", v)

    def e_Compare(self, e, fr):
        left = self.eval(e.left, fr)
        result = True
        for op, c in zip(e.ops, e.comparators):
            right = self.eval(c, fr)
            r = self.compare(op, left, right)
            if len(e.ops) == 1:
                return r
            if r is False:
                return False
            if r is not True:
                result = Opq("and", result, r) if result is not True else r
            left = right
        return result

    def compare(self, op, a, b):
        if isinstance(op, (ast.Is, ast.IsNot)):
            neg = isinstance(op, ast.IsNot)
            if a is None and b is None:
                return not neg
            for x, y in ((a, b), (b, a)):
                if y is None and (isinstance(x, (Obj, SList, dict, Emit, Sentinel, FuncRef, ClsRef, int, str, tuple, Field)) and x is not None):
                    return neg
            if isinstance(a, Obj) and isinstance(b, Obj):
                return (a is b) != neg
            return Opq("cmp", _CMPSYM[type(op)], a, b)
        if is_concrete(a) and is_concrete(b):
            try:
                return bool(_CMP[type(op)](a, b))
            except Exception:
                pass
        if isinstance(op, (ast.In, ast.NotIn)) and is_symbolic(a) and isinstance(b, dict) and b and all(is_concrete(x) for x in b) \
                and a not in b:
            found, _ = self.sym_lookup(b, a)
            return found != isinstance(op, ast.NotIn)
        if isinstance(op, (ast.In, ast.NotIn)) and is_concrete(a):
            items = b.items if isinstance(b, SList) and b.exact else (list(b) if isinstance(b, (tuple, dict)) else None)
            if items is not None and all(is_concrete(x) for x in items):
                return (a in items) != isinstance(op, ast.NotIn)
        if isinstance(op, (ast.Eq, ast.NotEq)) and (a is None or b is None) and isinstance(a if b is None else b, (Obj, SList, dict)):
            return isinstance(op, ast.NotEq)
        return Opq("cmp", _CMPSYM[type(op)], a, b)

    def e_BoolOp(self, e, fr):
        is_and = isinstance(e.op, ast.And)
        v = None
        for x in e.values:
            v = self.eval(x, fr)
            t = self.truth(v)
            if is_and and not t:
                return v
            if not is_and and t:
                return v
        return v

    def e_IfExp(self, e, fr):
        if self.truth(self.eval(e.test, fr)):
            return self.eval(e.body, fr)
        return self.eval(e.orelse, fr)

    def e_Tuple(self, e, fr):
        return tuple(self.seq(e.elts, fr))

    def e_List(self, e, fr):
        return SList(self.seq(e.elts, fr))

    def seq(self, elts, fr):
        out = []
        for x in elts:
            if isinstance(x, ast.Starred):
                v = self.eval(x.value, fr)
                if isinstance(v, SList) and v.exact:
                    out.extend(v.items)
                elif isinstance(v, tuple):
                    out.extend(v)
                else:
                    raise AnalysisError("starred display of an unknown sequence")
            else:
                out.append(self.eval(x, fr))
        return out

    def e_Dict(self, e, fr):
        d = {}
        for k, v in zip(e.keys, e.values):
            if k is None:
                sub = self.eval(v, fr)
                if not isinstance(sub, dict):
                    raise AnalysisError("dict splat of an unknown mapping")
                d.update(sub)
                continue
            try:
                d[self.eval(k, fr)] = self.eval(v, fr)
            except TypeError:
                raise AnalysisError("unhashable dict key")
        return d

    def e_Set(self, e, fr):
        return Opq("set", *self.seq(e.elts, fr))

    def e_JoinedStr(self, e, fr):
        parts = []
        for v in e.values:
            if isinstance(v, ast.Constant):
                parts.append(v.value)
            else:
                parts.append(self.eval(v.value, fr))
        if all(isinstance(p, str) for p in parts):
            return "".join(parts)
        return Opq("fstr", *parts)

    def e_Lambda(self, e, fr):
        fd = ast.FunctionDef(name="<lambda>", args=e.args, body=[ast.Return(value=e.body)], decorator_list=[], returns=None,
                             type_comment=None, type_params=[])
        ast.copy_location(fd, e)
        ast.copy_location(fd.body[0], e)
        outer = fr.func.qualname if fr.func is not None else "<module>"
        return Closure(Func(fr.module, "%s.<lambda>" % outer, fd, None), fr.env)

    def e_Subscript(self, e, fr):
        base = self.eval(e.value, fr)
        if isinstance(e.slice, ast.Slice):
            lo = self.eval(e.slice.lower, fr) if e.slice.lower else None
            hi = self.eval(e.slice.upper, fr) if e.slice.upper else None
            st = self.eval(e.slice.step, fr) if e.slice.step else None
            conc = all(x is None or isinstance(x, int) for x in (lo, hi, st))
            if isinstance(base, SList):
                if conc and base.exact:
                    return SList(base.items[lo:hi:st])
                return SList(base.items, False)
            if isinstance(base, (tuple, str)) and conc:
                return base[lo:hi:st]
            return Opq("slice", base, lo, hi, st)
        k = self.eval(e.slice, fr)
        if isinstance(base, dict):
            try:
                if k in base:
                    return base[k]
            except TypeError:
                pass
            if is_symbolic(k) and base and all(is_concrete(x) for x in base):
                found, v = self.sym_lookup(base, k)
                if found:
                    return v
                raise PathRaise(e)
            return Opq("item", k, Opq("dict", *base.values()))
        seq = None
        if isinstance(base, SList) and base.exact:
            seq = base.items
        elif isinstance(base, (tuple, str)):
            seq = base
        if seq is not None:
            if isinstance(k, bool) or (isinstance(k, int)):
                try:
                    return seq[int(k)]
                except IndexError:
                    raise PathRaise(e)
            if isinstance(k, Opq) and k.op in ("cmp", "not", "isinstance") and len(seq) == 2:
                # [a, b][cond]
                return seq[1] if self.decide(k) else seq[0]
        return Opq("item", k, base)

    def e_ListComp(self, e, fr):
        return self.comp(e, fr)

    def e_DictComp(self, e, fr):
        pairs = self.comp(ast.ListComp(elt=ast.Tuple(elts=[e.key, e.value], ctx=ast.Load()), generators=e.generators), fr)
        if not pairs.exact:
            raise AnalysisError("dict comprehension over an unknown sequence")
        try:
            return {k: v for k, v in pairs.items}
        except TypeError:
            raise AnalysisError("unhashable key in a dict comprehension")

    def e_GeneratorExp(self, e, fr):
        return self.comp(e, fr)

    def comp(self, e, fr):
        if len(e.generators) != 1 or e.generators[0].is_async:
            raise AnalysisError("nested comprehension outside the fragment")
        g = e.generators[0]
        it = self.eval(g.iter, fr)
        items, exact = None, True
        if isinstance(it, SList):
            items, exact = it.items, it.exact
        elif isinstance(it, (tuple,)):
            items = list(it)
        elif isinstance(it, dict):
            items = list(it.keys())
        sub = Frame(fr.module, fr.func, dict(fr.env), fr.self_obj, fr.cls_ctx)
        out = []
        for x in (items if items is not None else []) + ([] if (items is not None and exact) else [Opq("elem", it)]):
            self.assign(g.target, x, sub)
            keep = True
            for c in g.ifs:
                cv = self.eval(c, sub)
                if is_symbolic(cv):
                    exact = False
                elif not self.truth(cv):
                    keep = False
            if keep:
                out.append(self.eval(e.elt, sub))
        return SList(out, exact and items is not None)

    def e_Starred(self, e, fr):
        raise AnalysisError("starred expression outside the fragment")


_IN_PROGRESS = object()


class _StarInexact:
    def __init__(self, lst):
        self.lst = lst


def _names(t):
    return {n.id for n in ast.walk(t) if isinstance(n, ast.Name)}


def explore_paths(make_eval, run):
    """enumerate every path: run(ev) is re-executed under each sequence of branch choices.
    -> list of (ev, result | PathRaise)"""
    results = []
    stack = [[]]
    while stack:
        prefix = stack.pop()
        choices = list(prefix)
        ev = make_eval(choices)
        try:
            r = run(ev)
        except PathRaise as pr:
            r = pr
        results.append((ev, r))
        if len(results) > MAX_PATHS:
            raise AnalysisError("more than %d paths" % MAX_PATHS)
        # every choice made beyond the prefix was True: schedule its False sibling
        for i in range(len(prefix), len(ev.choices[:ev.pos])):
            stack.append(ev.choices[:i] + [False])
    return results
